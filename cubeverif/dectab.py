"""DECTAB - evaluation of small guard expressions over FINITE ABSTRACT input classes.

Used for dispatch tables (which class does a factory pick for each kind pair) and for
decision lists (resolution cascades, guard tables).  The evaluator interprets only
comparisons, membership, boolean connectives, conditional expressions, tuples and
constant subscripts over abstract tokens supplied by the rule; arithmetic on data and
anything else is TOP.  No repository code is executed: the inputs are abstract classes
("MR", "ALIAS_k", "ABSENT" ...), not data.
"""
from __future__ import annotations

import ast
from typing import Any, Callable, Dict, List, Optional, Tuple

from .symex import is_call_to, u


class DTop(Exception):
    pass


class Raises(Exception):
    """Abstract evaluation reached a raise of exception type `etype`."""

    def __init__(self, etype: str, where: str = ""):
        super().__init__(etype)
        self.etype = etype
        self.where = where


# exception hierarchy fragment needed to decide whether a handler catches a raise
EXC_PARENTS = {
    "KeyError": ["LookupError", "Exception", "BaseException"],
    "IndexError": ["LookupError", "Exception", "BaseException"],
    "LookupError": ["Exception", "BaseException"],
    "ValueError": ["Exception", "BaseException"],
    "TypeError": ["Exception", "BaseException"],
    "AttributeError": ["Exception", "BaseException"],
    "ZeroDivisionError": ["ArithmeticError", "Exception", "BaseException"],
    "ArithmeticError": ["Exception", "BaseException"],
    "NotImplementedError": ["RuntimeError", "Exception", "BaseException"],
    "RuntimeError": ["Exception", "BaseException"],
    "Exception": ["BaseException"],
    "BaseException": [],
}


def catches(handler_types: List[str], etype: str) -> bool:
    return any(h == etype or h in EXC_PARENTS.get(etype, []) for h in handler_types)


def handler_type_names(t: ast.expr) -> List[str]:
    if isinstance(t, ast.Tuple):
        out = []
        for x in t.elts:
            out += handler_type_names(x)
        return out
    if isinstance(t, ast.Name):
        return [t.id]
    if isinstance(t, ast.Attribute):
        return [t.attr]
    return [u(t)]


class Interp:
    """Abstract evaluator.  `atoms(expr)` may return a value for any sub-expression
    (by normalised text or structure) or raise KeyError to let the structural rules run.
    """

    def __init__(self, atoms: Callable[[ast.expr], Any], calls: Optional[Callable[[ast.Call, "Interp"], Any]] = None):
        self.atoms = atoms
        self.calls = calls

    def ev(self, e: ast.expr) -> Any:
        try:
            return self.atoms(e)
        except KeyError:
            pass
        if isinstance(e, ast.Constant):
            return e.value
        if isinstance(e, ast.Tuple):
            return tuple(self.ev(x) for x in e.elts)
        if isinstance(e, ast.List):
            return [self.ev(x) for x in e.elts]
        if isinstance(e, ast.Dict):
            return {self.ev(k): self.ev(v) for k, v in zip(e.keys, e.values)}
        if isinstance(e, ast.IfExp):
            return self.ev(e.body) if self.truth(self.ev(e.test)) else self.ev(e.orelse)
        if isinstance(e, ast.BoolOp):
            if isinstance(e.op, ast.And):
                v = True
                for x in e.values:
                    v = self.ev(x)
                    if not self.truth(v):
                        return v
                return v
            v = False
            for x in e.values:
                v = self.ev(x)
                if self.truth(v):
                    return v
            return v
        if isinstance(e, ast.UnaryOp) and isinstance(e.op, ast.Not):
            return not self.truth(self.ev(e.operand))
        if isinstance(e, ast.Compare):
            left = self.ev(e.left)
            for op, right_e in zip(e.ops, e.comparators):
                right = self.ev(right_e)
                if not self.compare(op, left, right):
                    return False
                left = right
            return True
        if isinstance(e, ast.Subscript):
            base = self.ev(e.value)
            if isinstance(e.slice, ast.Slice):
                lo = self.ev(e.slice.lower) if e.slice.lower is not None else None
                hi = self.ev(e.slice.upper) if e.slice.upper is not None else None
                if isinstance(base, (tuple, list)):
                    return base[lo:hi]
                raise DTop(f"slice of {type(base).__name__}")
            idx = self.ev(e.slice)
            if isinstance(base, dict):
                if idx not in base:
                    raise Raises("KeyError", u(e))
                return base[idx]
            if isinstance(base, (tuple, list)):
                try:
                    return base[idx]
                except (IndexError, TypeError):
                    raise Raises("IndexError", u(e))
            raise DTop(f"subscript of {type(base).__name__}: {u(e)[:50]}")
        if isinstance(e, ast.GeneratorExp) or isinstance(e, ast.ListComp):
            if len(e.generators) == 1 and isinstance(e.generators[0].target, ast.Name) and not e.generators[0].ifs:
                it = self.ev(e.generators[0].iter)
                name = e.generators[0].target.id
                out = []
                for x in it:
                    sub = Interp(lambda ex, x=x, name=name: x if isinstance(ex, ast.Name) and ex.id == name else self.atoms(ex), self.calls)
                    out.append(sub.ev(e.elt))
                return out
            raise DTop("comprehension")
        if isinstance(e, ast.Call):
            if is_call_to(e, "__raise__"):
                exc = e.args[0]
                name = u(exc.func) if isinstance(exc, ast.Call) else u(exc)
                raise Raises(name, u(e)[:80])
            if is_call_to(e, "__endtry__"):
                raise _EndTry(e.args[0])
            if is_call_to(e, "__try__"):
                return self._try(e)
            if isinstance(e.func, ast.Name) and e.func.id == "tuple" and len(e.args) == 1:
                return tuple(self.ev(e.args[0]))
            if self.calls is not None:
                return self.calls(e, self)
            raise DTop(f"call {u(e.func)}")
        raise DTop(f"{type(e).__name__}: {u(e)[:60]}")

    def _try(self, e: ast.Call):
        body = e.args[0]
        handlers = [(handler_type_names(h.elts[0]), h.elts[1]) for h in e.args[1:] if isinstance(h, ast.Tuple)]
        try:
            return self.ev(body)
        except _EndTry as et:
            return self.ev(et.expr)  # continuation is outside the try
        except Raises as r:
            for types, res in handlers:
                if catches(types, r.etype):
                    return self.ev(res)
            raise

    @staticmethod
    def truth(v: Any) -> bool:
        if isinstance(v, Abstract):
            return v.truthy
        return bool(v)

    @staticmethod
    def compare(op: ast.cmpop, a: Any, b: Any) -> bool:
        if isinstance(op, ast.Eq):
            return a == b
        if isinstance(op, ast.NotEq):
            return a != b
        if isinstance(op, ast.In):
            return a in b
        if isinstance(op, ast.NotIn):
            return a not in b
        if isinstance(op, ast.Is):
            return a is b or (a is None and b is None)
        if isinstance(op, ast.IsNot):
            return not (a is b or (a is None and b is None))
        if isinstance(op, (ast.Lt, ast.LtE, ast.Gt, ast.GtE)):
            if isinstance(a, (int, float)) and isinstance(b, (int, float)) and not isinstance(a, bool):
                return {ast.Lt: a < b, ast.LtE: a <= b, ast.Gt: a > b, ast.GtE: a >= b}[type(op)]
            raise DTop("ordering of abstract values")
        raise DTop(f"cmpop {type(op).__name__}")


class _EndTry(Exception):
    def __init__(self, expr):
        self.expr = expr


class Abstract:
    """An abstract token with declared truthiness (e.g. a non-empty object)."""

    def __init__(self, name: str, truthy: bool = True):
        self.name = name
        self.truthy = truthy

    def __repr__(self):
        return self.name

    def __eq__(self, other):
        return isinstance(other, Abstract) and other.name == self.name

    def __hash__(self):
        return hash(self.name)
