"""DECTAB - evaluation of small guard expressions over FINITE ABSTRACT input classes.

Used for dispatch tables (which class does a factory pick for each kind pair) and for
decision lists (resolution cascades, guard tables).  The evaluator interprets only
comparisons, membership, boolean connectives, conditional expressions, tuples and
constant subscripts over abstract tokens supplied by the rule; arithmetic on data and
anything else is TOP.  No repository code is executed: the inputs are abstract classes
("MR", "ALIAS_k", "ABSENT" ...), not data.
"""
from __future__ import annotations

import ast
from typing import Any, Callable, Dict, List, Optional, Tuple

from .symex import is_call_to, u


class DTop(Exception):
    pass


class Raises(Exception):
    """Abstract evaluation reached a raise of exception type `etype`."""

    def __init__(self, etype: str, where: str = ""):
        super().__init__(etype)
        self.etype = etype
        self.where = where


# exception hierarchy fragment needed to decide whether a handler catches a raise
EXC_PARENTS = {
    "KeyError": ["LookupError", "Exception", "BaseException"],
    "IndexError": ["LookupError", "Exception", "BaseException"],
    "LookupError": ["Exception", "BaseException"],
    "ValueError": ["Exception", "BaseException"],
    "TypeError": ["Exception", "BaseException"],
    "AttributeError": ["Exception", "BaseException"],
    "ZeroDivisionError": ["ArithmeticError", "Exception", "BaseException"],
    "ArithmeticError": ["Exception", "BaseException"],
    "NotImplementedError": ["RuntimeError", "Exception", "BaseException"],
    "RuntimeError": ["Exception", "BaseException"],
    "Exception": ["BaseException"],
    "BaseException": [],
}


def catches(handler_types: List[str], etype: str) -> bool:
    return any(h == etype or h in EXC_PARENTS.get(etype, []) for h in handler_types)


def handler_type_names(t: ast.expr) -> List[str]:
    if isinstance(t, ast.Tuple):
        out = []
        for x in t.elts:
            out += handler_type_names(x)
        return out
    if isinstance(t, ast.Name):
        return [t.id]
    if isinstance(t, ast.Attribute):
        return [t.attr]
    return [u(t)]


class Interp:
    """Abstract evaluator.  `atoms(expr)` may return a value for any sub-expression
    (by normalised text or structure) or raise KeyError to let the structural rules run.
    """

    def __init__(self, atoms: Callable[[ast.expr], Any], calls: Optional[Callable[[ast.Call, "Interp"], Any]] = None):
        self.atoms = atoms
        self.calls = calls

    def ev(self, e: ast.expr) -> Any:
        try:
            return self.atoms(e)
        except KeyError:
            pass
        if isinstance(e, ast.Constant):
            return e.value
        if isinstance(e, ast.Tuple):
            return tuple(self.ev(x) for x in e.elts)
        if isinstance(e, ast.List):
            return [self.ev(x) for x in e.elts]
        if isinstance(e, ast.Dict):
            return {self.ev(k): self.ev(v) for k, v in zip(e.keys, e.values)}
        if isinstance(e, ast.IfExp):
            return self.ev(e.body) if self.truth(self.ev(e.test)) else self.ev(e.orelse)
        if isinstance(e, ast.BoolOp):
            if isinstance(e.op, ast.And):
                v = True
                for x in e.values:
                    v = self.ev(x)
                    if not self.truth(v):
                        return v
                return v
            v = False
            for x in e.values:
                v = self.ev(x)
                if self.truth(v):
                    return v
            return v
        if isinstance(e, ast.UnaryOp) and isinstance(e.op, ast.Not):
            return not self.truth(self.ev(e.operand))
        if isinstance(e, ast.Compare):
            left = self.ev(e.left)
            for op, right_e in zip(e.ops, e.comparators):
                right = self.ev(right_e)
                if not self.compare(op, left, right):
                    return False
                left = right
            return True
        if isinstance(e, ast.Subscript):
            base = self.ev(e.value)
            if isinstance(e.slice, ast.Slice):
                lo = self.ev(e.slice.lower) if e.slice.lower is not None else None
                hi = self.ev(e.slice.upper) if e.slice.upper is not None else None
                st = self.ev(e.slice.step) if e.slice.step is not None else None
                if isinstance(base, (tuple, list)):
                    return base[lo:hi:st]
                raise DTop(f"slice of {type(base).__name__}")
            idx = self.ev(e.slice)
            if isinstance(base, dict):
                if idx not in base:
                    raise Raises("KeyError", u(e))
                return base[idx]
            if isinstance(base, (tuple, list)):
                try:
                    return base[idx]
                except (IndexError, TypeError):
                    raise Raises("IndexError", u(e))
            raise DTop(f"subscript of {type(base).__name__}: {u(e)[:50]}")
        if isinstance(e, ast.GeneratorExp) or isinstance(e, ast.ListComp):
            if len(e.generators) == 1 and isinstance(e.generators[0].target, ast.Name) and not e.generators[0].ifs:
                it = self.ev(e.generators[0].iter)
                name = e.generators[0].target.id
                out = []
                for x in it:
                    sub = Interp(lambda ex, x=x, name=name: x if isinstance(ex, ast.Name) and ex.id == name else self.atoms(ex), self.calls)
                    out.append(sub.ev(e.elt))
                return out
            raise DTop("comprehension")
        if isinstance(e, ast.Call):
            if is_call_to(e, "__raise__"):
                exc = e.args[0]
                name = u(exc.func) if isinstance(exc, ast.Call) else u(exc)
                raise Raises(name, u(e)[:80])
            if is_call_to(e, "__endtry__"):
                for forced in e.args[1:]:
                    self.ev(forced)  # evaluated inside the try: may raise into the handlers
                raise _EndTry(e.args[0])
            if is_call_to(e, "__try__"):
                return self._try(e)
            if isinstance(e.func, ast.Name) and e.func.id == "tuple" and len(e.args) == 1:
                return tuple(self.ev(e.args[0]))
            if self.calls is not None:
                return self.calls(e, self)
            raise DTop(f"call {u(e.func)}")
        raise DTop(f"{type(e).__name__}: {u(e)[:60]}")

    def _try(self, e: ast.Call):
        body = e.args[0]
        handlers = [(handler_type_names(h.elts[0]), h.elts[1]) for h in e.args[1:] if isinstance(h, ast.Tuple)]
        try:
            return self.ev(body)
        except _EndTry as et:
            return self.ev(et.expr)  # continuation is outside the try
        except Raises as r:
            for types, res in handlers:
                if catches(types, r.etype):
                    return self.ev(res)
            raise

    @staticmethod
    def truth(v: Any) -> bool:
        if isinstance(v, Abstract):
            return v.truthy
        return bool(v)

    @staticmethod
    def compare(op: ast.cmpop, a: Any, b: Any) -> bool:
        if isinstance(op, ast.Eq):
            return a == b
        if isinstance(op, ast.NotEq):
            return a != b
        if isinstance(op, ast.In):
            return a in b
        if isinstance(op, ast.NotIn):
            return a not in b
        if isinstance(op, ast.Is):
            return a is b or (a is None and b is None)
        if isinstance(op, ast.IsNot):
            return not (a is b or (a is None and b is None))
        if isinstance(op, (ast.Lt, ast.LtE, ast.Gt, ast.GtE)):
            if isinstance(a, (int, float)) and isinstance(b, (int, float)) and not isinstance(a, bool):
                return {ast.Lt: a < b, ast.LtE: a <= b, ast.Gt: a > b, ast.GtE: a >= b}[type(op)]
            raise DTop("ordering of abstract values")
        raise DTop(f"cmpop {type(op).__name__}")


class _EndTry(Exception):
    def __init__(self, expr):
        self.expr = expr


class Abstract:
    """An abstract token with declared truthiness (e.g. a non-empty object)."""

    def __init__(self, name: str, truthy: bool = True):
        self.name = name
        self.truthy = truthy

    def __repr__(self):
        return self.name

    def __eq__(self, other):
        return isinstance(other, Abstract) and other.name == self.name

    def __hash__(self):
        return hash(self.name)


def _hashable(v: Any) -> bool:
    try:
        hash(v)
        return True
    except TypeError:
        return False


class _Return(Exception):
    def __init__(self, value):
        self.value = value


class _Break(Exception):
    pass


class _Continue(Exception):
    pass


class _LocalFn:
    """a function defined inside the body being executed (closure over the environment at call time)"""

    def __init__(self, node: ast.FunctionDef):
        self.node = node


class _Until(Exception):
    def __init__(self, env):
        self.env = env


def exec_function(it: "ModelInterp", fn: ast.FunctionDef, bind: Dict[str, Any], until: Optional[Callable[[ast.stmt], bool]] = None) -> Any:
    """The value a (small, loop-free or for-loop) function body returns over the model: statements executed in order
    on an environment of model values - assignments, conditionals, for loops over model sequences, try / except by
    exception name, mutation of local containers.  Anything else is DTop (undecided), never a guess."""
    env = dict(it.names)
    env.update(bind)

    def store(target, value, sub):
        if isinstance(target, ast.Name):
            env[target.id] = value
        elif isinstance(target, (ast.Tuple, ast.List)):
            vals = list(value)
            if len(vals) != len(target.elts):
                raise Raises("ValueError", "unpack")
            for t, v in zip(target.elts, vals):
                store(t, v, sub)
        elif isinstance(target, ast.Subscript):
            base = sub().ev(target.value)
            key = sub().ev(target.slice)
            if isinstance(base, dict) and not _hashable(key):
                raise Raises("TypeError", "unhashable key: " + u(target)[:60])
            if isinstance(base, (dict, list)):
                try:
                    base[key] = value
                except (IndexError, TypeError) as exc:
                    raise Raises(type(exc).__name__, u(target)[:60])
            else:
                raise DTop("store into " + type(base).__name__)
        else:
            raise DTop("store target " + type(target).__name__)

    def sub():
        return it._sub(env)

    def run(stmts):
        for st in stmts:
            if until is not None and until(st):
                raise _Until(env)  # the environment in force when this statement is reached
            if isinstance(st, ast.Expr):
                if isinstance(st.value, ast.Constant):
                    continue
                sub().ev(st.value)
            elif isinstance(st, ast.Assign):
                v = sub().ev(st.value)
                for t in st.targets:
                    store(t, v, sub)
            elif isinstance(st, ast.AnnAssign):
                if st.value is not None:
                    store(st.target, sub().ev(st.value), sub)
            elif isinstance(st, ast.AugAssign):
                cur = sub().ev(ast.BinOp(left=_load(st.target), op=st.op, right=st.value))
                store(st.target, cur, sub)
            elif isinstance(st, ast.If):
                s_ = sub()
                run(st.body if s_.truth(s_.ev(st.test)) else st.orelse)
            elif isinstance(st, ast.For):
                seq = sub().ev(st.iter)
                broke = False
                for item in list(seq):
                    store(st.target, item, sub)
                    try:
                        run(st.body)
                    except _Break:
                        broke = True
                        break
                    except _Continue:
                        continue
                if not broke:
                    run(st.orelse)
            elif isinstance(st, ast.Return):
                raise _Return(sub().ev(st.value) if st.value is not None else None)
            elif isinstance(st, ast.Pass):
                continue
            elif isinstance(st, ast.FunctionDef) and not st.args.vararg and not st.args.kwarg and not st.decorator_list:
                env[st.name] = _LocalFn(st)
            elif isinstance(st, ast.Break):
                raise _Break()
            elif isinstance(st, ast.Continue):
                raise _Continue()
            elif isinstance(st, ast.Raise):
                exc = st.exc
                raise Raises(u(exc.func) if isinstance(exc, ast.Call) else (u(exc) if exc is not None else "Exception"), u(st)[:60])
            elif isinstance(st, ast.Try) and not st.finalbody:
                try:
                    run(st.body)
                except Raises as r:
                    for h in st.handlers:
                        if h.type is None or catches(handler_type_names(h.type), r.etype):
                            run(h.body)
                            break
                    else:
                        raise
                else:
                    run(st.orelse)
            else:
                raise DTop("statement " + type(st).__name__)

    try:
        run(fn.body)
    except _Return as r:
        return r.value
    except _Until as r:
        return r.env
    return None


def _load(t: ast.expr) -> ast.expr:
    import copy as _c

    t2 = _c.deepcopy(t)
    for n in ast.walk(t2):
        if hasattr(n, "ctx"):
            n.ctx = ast.Load()
    return t2


class ModelInterp(Interp):
    """Interp + the builtins needed to evaluate resolution cascades over a MODEL of a dimension
    (a handful of class representatives: alias / element id / sub-variable id / position / stale ...).

    Builtin behaviours are a fixed table (EXC): int(None)->TypeError, int('x')->ValueError,
    tuple.index(missing)->ValueError, dict[k]->KeyError, seq[i] out of range->IndexError,
    NEGATIVE int subscripts wrap around (Python semantics).
    """

    def __init__(self, atoms, names: Optional[Dict[str, Any]] = None):
        super().__init__(atoms, self._call)
        self.names = names or {}
        self.methods = None  # name -> FunctionDef of a helper method of the modelled class (called with model arguments)
        self.members = None  # name -> FunctionDef of a property of the modelled object (evaluated over the model on demand)
        self._member_cache: Dict[str, Any] = {}

    def ev(self, e: ast.expr) -> Any:
        try:
            return self.atoms(e)
        except KeyError:
            pass
        if isinstance(e, ast.Name) and e.id in self.names:
            return self.names[e.id]
        if isinstance(e, ast.Name) and e.id in getattr(self, "module_consts", {}):
            return self.ev(self.module_consts[e.id])  # a module-level constant (LOGICAL_IDS = frozenset((1, 0, -1)))
        if isinstance(e, ast.Attribute):
            # a model object is a dict of its attribute values
            try:
                base = self.ev(e.value)
            except DTop:
                base = None
            if isinstance(base, dict) and ("." + e.attr) in base:
                return base["." + e.attr]
        if isinstance(e, ast.Set):
            vals = [self.ev(x) for x in e.elts]
            if not all(_hashable(v) for v in vals):
                raise Raises("TypeError", u(e)[:60])
            return frozenset(vals)
        if isinstance(e, ast.Compare) and len(e.ops) == 1 and isinstance(e.ops[0], (ast.GtE, ast.LtE, ast.Gt, ast.Lt)):
            a, b = self.ev(e.left), self.ev(e.comparators[0])
            if isinstance(a, (set, frozenset)) and isinstance(b, (set, frozenset)):
                op = e.ops[0]
                return a >= b if isinstance(op, ast.GtE) else a <= b if isinstance(op, ast.LtE) else a > b if isinstance(op, ast.Gt) else a < b
        if isinstance(e, ast.UnaryOp) and isinstance(e.op, ast.USub):
            v = self.ev(e.operand)
            if isinstance(v, (int, float)) and not isinstance(v, bool):
                return -v
            raise DTop("negation")
        if isinstance(e, ast.Dict) and any(k is None for k in e.keys):
            out = {}
            for k, v in zip(e.keys, e.values):
                if k is None:
                    out.update(self.ev(v))  # {**d, ...}
                else:
                    out[self.ev(k)] = self.ev(v)
            return out
        if isinstance(e, (ast.Tuple, ast.List)) and any(isinstance(x, ast.Starred) for x in e.elts):
            out = []
            for x in e.elts:
                if isinstance(x, ast.Starred):
                    out += list(self.ev(x.value))
                else:
                    out.append(self.ev(x))
            return tuple(out) if isinstance(e, ast.Tuple) else out
        if isinstance(e, (ast.GeneratorExp, ast.ListComp)):
            return self._comp(e)
        if isinstance(e, ast.SetComp):
            return frozenset(self._comp(e))
        if isinstance(e, ast.DictComp):
            out = {}
            for env in self._iter_gens(e.generators, dict(self.names)):
                sub = self._sub(env)
                out[sub.ev(e.key)] = sub.ev(e.value)
            return out
        if isinstance(e, ast.BinOp) and isinstance(e.op, ast.Add):
            a, b = self.ev(e.left), self.ev(e.right)
            if isinstance(a, (list, tuple)) and type(a) is type(b):
                return a + b
            if isinstance(a, int) and isinstance(b, int):
                return a + b
            raise DTop("add")
        if isinstance(e, ast.Subscript) and not isinstance(e.slice, ast.Slice):
            base = self.ev(e.value)
            idx = self.ev(e.slice)
            if isinstance(base, (tuple, list)):
                if not isinstance(idx, int) or isinstance(idx, bool):
                    raise Raises("TypeError", u(e)[:60])
                try:
                    return base[idx]  # python semantics incl. negative wrap-around
                except IndexError:
                    raise Raises("IndexError", u(e)[:60])
            if isinstance(base, dict):
                if not _hashable(idx):
                    raise Raises("TypeError", "unhashable key: " + u(e)[:60])
                if idx not in base:
                    raise Raises("KeyError", u(e)[:60])
                return base[idx]
            if base is None:
                raise Raises("TypeError", u(e)[:60])
        if isinstance(e, ast.Attribute) and isinstance(e.value, ast.Name) and e.value.id == "self" and getattr(self, "members", None) is not None:
            # a property of the modelled object that the model does not give: its body, evaluated over the model (once)
            cache = self._member_cache
            if e.attr in cache:
                return cache[e.attr]
            fn = self.members(e.attr)
            if fn is not None and not fn.args.args[1:]:
                cache[e.attr] = exec_function(self, fn, {})
                return cache[e.attr]
        if isinstance(e, ast.Compare) and any(isinstance(op, (ast.In, ast.NotIn)) for op in e.ops):
            left = self.ev(e.left)
            for op, right_e in zip(e.ops, e.comparators):
                right = self.ev(right_e)
                if isinstance(op, (ast.In, ast.NotIn)) and isinstance(right, (dict, set, frozenset)) and not _hashable(left):
                    raise Raises("TypeError", "unhashable key: " + u(e)[:60])
                if not self.compare(op, left, right):
                    return False
                left = right
            return True
        return super().ev(e)

    def _sub(self, env):
        """A nested interpreter of the SAME class (overrides of _call / ev stay in force inside comprehensions)."""
        sub = type(self).__new__(type(self))
        sub.__dict__.update(self.__dict__)
        sub.names = env
        sub.calls = sub._call
        return sub

    def _iter_gens(self, gens, env):
        if not gens:
            yield env
            return
        g = gens[0]
        sub = self._sub(env)
        it = sub.ev(g.iter)
        for item in it:
            env2 = dict(env)
            self._bind(g.target, item, env2)
            s2 = self._sub(env2)
            if all(s2.truth(s2.ev(c)) for c in g.ifs):
                yield from self._iter_gens(gens[1:], env2)

    @staticmethod
    def _bind(target, item, env):
        if isinstance(target, ast.Name):
            env[target.id] = item
        elif isinstance(target, (ast.Tuple, ast.List)):
            for t, v in zip(target.elts, item):
                ModelInterp._bind(t, v, env)

    def _comp(self, e):
        out = []
        for env in self._iter_gens(e.generators, dict(self.names)):
            out.append(self._sub(env).ev(e.elt))
        return out

    def _call(self, c: ast.Call, it: "Interp"):
        f = c.func
        if isinstance(f, ast.Name) and isinstance(self.names.get(f.id), _LocalFn):
            fn = self.names[f.id].node
            params = [a.arg for a in fn.args.posonlyargs + fn.args.args]
            bind = dict(zip(params, [self.ev(a) for a in c.args]))
            bind.update({k.arg: self.ev(k.value) for k in c.keywords if k.arg})
            defaults = dict(zip(params[len(params) - len(fn.args.defaults):], fn.args.defaults))
            for p_ in params:
                if p_ not in bind:
                    if p_ not in defaults:
                        raise DTop("unbound parameter " + p_)
                    bind[p_] = self.ev(defaults[p_])
            return exec_function(self._sub(dict(self.names)), fn, bind)
        if isinstance(f, ast.Name):
            args = [self.ev(a) for a in (c.args[:1] if f.id == "isinstance" else c.args)]
            if f.id == "len":
                return len(args[0])
            if f.id == "int":
                v = args[0]
                if v is None or isinstance(v, (dict, list, tuple)):
                    raise Raises("TypeError", u(c))
                if isinstance(v, str):
                    try:
                        return int(v)
                    except ValueError:
                        raise Raises("ValueError", u(c))
                return int(v)
            if f.id == "str":
                return str(args[0])
            if f.id == "bool":
                return bool(args[0])
            if f.id == "isinstance":
                tname = u(c.args[1])
                types = {"str": str, "dict": dict, "int": int, "float": float, "list": list, "tuple": tuple}
                if tname in types:
                    v = args[0]
                    return isinstance(v, types[tname]) and not (tname == "int" and isinstance(v, bool))
                if tname.startswith("("):
                    return any(isinstance(args[0], types[n.strip()]) for n in tname.strip("()").split(",") if n.strip() in types)
                raise DTop("isinstance " + tname)
            if f.id in ("zip",):
                return list(zip(*args))
            if f.id == "range" and all(isinstance(a, int) for a in args):
                return list(range(*args))
            if f.id == "reversed" and isinstance(args[0], (tuple, list)):
                return list(reversed(args[0]))
            if f.id == "enumerate":
                return list(enumerate(args[0]))
            if f.id in ("tuple", "list"):
                return (tuple if f.id == "tuple" else list)(args[0]) if args else (() if f.id == "tuple" else [])
            if f.id == "frozenset" or f.id == "set":
                return frozenset(args[0]) if args else frozenset()
            if f.id == "dict" and len(args) <= 1:
                return dict(args[0]) if args else {}
            if f.id == "sorted" and len(args) == 1 and not c.keywords:
                try:
                    return sorted(args[0])
                except TypeError:
                    raise Raises("TypeError", u(c)[:60])
            if f.id == "next" and args:
                seq = list(args[0])
                if seq:
                    return seq[0]
                if len(args) > 1:
                    return args[1]
                raise Raises("StopIteration", u(c)[:60])
            if f.id == "any":
                return any(self.truth(x) for x in args[0])
            if f.id == "all":
                return all(self.truth(x) for x in args[0])
            raise DTop(f"call {f.id}")
        if isinstance(f, ast.Attribute):
            m = f.attr
            if isinstance(f.value, ast.Name) and f.value.id in ("self", "cls") and getattr(self, "methods", None) is not None:
                fn = self.methods(m)
                if fn is not None:
                    # a helper method of the modelled class: its body over the model, parameters bound
                    params = [a.arg for a in fn.args.posonlyargs + fn.args.args]
                    if params and params[0] in ("self", "cls"):
                        params = params[1:]
                    vals = [self.ev(a) for a in c.args]
                    bind = dict(zip(params, vals))
                    bind.update({k.arg: self.ev(k.value) for k in c.keywords if k.arg})
                    defaults = dict(zip(params[len(params) - len(fn.args.defaults):], fn.args.defaults))
                    for p_ in params:
                        if p_ not in bind:
                            if p_ not in defaults:
                                raise DTop("unbound parameter " + p_)
                            bind[p_] = self.ev(defaults[p_])
                    inner = self._sub({})
                    return exec_function(inner, fn, bind)
            if m == "fromkeys" and u(f.value) in ("dict", "collections.OrderedDict", "OrderedDict"):
                args = [self.ev(a) for a in c.args]
                return {k: (args[1] if len(args) > 1 else None) for k in args[0]}
            recv = self.ev(f.value)
            args = [self.ev(a) for a in c.args]
            if m == "fromkeys" and u(f.value) in ("dict", "collections.OrderedDict", "OrderedDict"):
                return {k: (args[1] if len(args) > 1 else None) for k in args[0]}
            if m == "get":
                if not isinstance(recv, dict):
                    raise Raises("AttributeError", u(c)[:60])
                if not _hashable(args[0]):
                    raise Raises("TypeError", "unhashable key: " + u(c)[:60])
                return recv.get(args[0], args[1] if len(args) > 1 else None)
            if m in ("update", "append", "extend", "add", "setdefault", "insert", "remove", "discard", "pop") and isinstance(recv, (dict, list, set)):
                # mutation of a LOCAL model value (statement bodies: see exec_function)
                kw = {k.arg: self.ev(k.value) for k in c.keywords if k.arg}
                try:
                    return getattr(recv, m)(*[list(a) if m in ("update", "extend") and not isinstance(a, dict) else a for a in args], **kw)
                except TypeError:
                    raise Raises("TypeError", u(c)[:60])
                except (KeyError, ValueError, IndexError) as exc:
                    raise Raises(type(exc).__name__, u(c)[:60])
            if m == "isdecimal" and isinstance(recv, str):
                return recv.isdecimal()
            if m == "index" and isinstance(recv, (tuple, list)):
                if args[0] in recv:
                    return list(recv).index(args[0])
                raise Raises("ValueError", u(c)[:60])
            if m == "isnumeric" and isinstance(recv, str):
                return recv.isnumeric()
            if m == "lower":
                if not isinstance(recv, str):
                    raise Raises("AttributeError", u(c)[:60])
                return recv.lower()
            if m == "keys" and isinstance(recv, dict):
                return list(recv.keys())
            if m == "items" and isinstance(recv, dict):
                return list(recv.items())
            if m == "issubset":
                return set(recv).issubset(set(args[0]))
            if m == "intersection":
                return set(recv) & set(args[0])
            if m == "isdisjoint":
                return set(recv).isdisjoint(set(args[0]))
            if m == "union":
                return set(recv) | set(args[0])
            if m == "values" and isinstance(recv, dict):
                return list(recv.values())
            if m == "isdigit" and isinstance(recv, str):
                return recv.isdigit()
            if m == "startswith" and isinstance(recv, str):
                return recv.startswith(args[0])
            raise DTop(f"method {m}")
        raise DTop("call")


class Sym:
    """An expression the table does not interpret: carried as its text."""

    def __init__(self, text: str):
        self.text = text

    def __repr__(self):
        return self.text

    def __eq__(self, other):
        return isinstance(other, Sym) and other.text == self.text

    def __hash__(self):
        return hash(self.text)


class SymInterp(Interp):
    """Decision-table evaluation of an expression whose TESTS are over bound atoms and whose leaves are arbitrary:
    conditionals, and / or / not, comparisons and {..}.get / {..}[k] / membership are evaluated; everything else
    is returned as Sym(text).  A test over an unbound value raises DTop (the table cannot be decided)."""

    def ev(self, e: ast.expr) -> Any:
        try:
            return self.atoms(e)
        except KeyError:
            pass
        if isinstance(e, ast.IfExp):
            t = self.ev(e.test)
            if isinstance(t, Sym):
                raise DTop(f"test over an unbound value: {t.text[:60]}")
            return self.ev(e.body) if self.truth(t) else self.ev(e.orelse)
        if isinstance(e, (ast.BoolOp, ast.Compare)) or (isinstance(e, ast.UnaryOp) and isinstance(e.op, ast.Not)):
            for sub in ast.iter_child_nodes(e):
                pass
            try:
                v = super().ev(e)
            except DTop:
                return Sym(u(e))
            return v
        if isinstance(e, ast.Constant):
            return e.value
        if isinstance(e, ast.Tuple):
            return tuple(self.ev(x) for x in e.elts)
        if isinstance(e, ast.Dict):
            try:
                return {self.ev(k): self.ev(v) for k, v in zip(e.keys, e.values)}
            except TypeError:
                return Sym(u(e))
        if isinstance(e, ast.Call) and isinstance(e.func, ast.Attribute) and e.func.attr == "get":
            d = self.ev(e.func.value)
            if isinstance(d, dict):
                k = self.ev(e.args[0])
                if isinstance(k, Sym):
                    raise DTop(f"lookup by an unbound key: {k.text[:60]}")
                return d.get(k, self.ev(e.args[1]) if len(e.args) > 1 else None)
            return Sym(u(e))
        if isinstance(e, ast.Subscript) and not isinstance(e.slice, ast.Slice):
            d = self.ev(e.value)
            if isinstance(d, dict):
                k = self.ev(e.slice)
                if isinstance(k, Sym):
                    raise DTop(f"lookup by an unbound key: {k.text[:60]}")
                if k not in d:
                    raise Raises("KeyError", u(e)[:60])
                return d[k]
            if isinstance(d, Sym) and d.text != u(e.value):
                return Sym(f"{d.text}[{u(e.slice)}]")  # the selected object, subscripted
            return Sym(u(e))
        if isinstance(e, ast.Call) and isinstance(e.func, ast.Name) and e.func.id == "next" and e.args and isinstance(e.args[0], ast.GeneratorExp) and not e.keywords:
            # next((m for m in CANDIDATES if TEST), default): the first candidate that passes the test
            g = e.args[0]
            if len(g.generators) == 1 and isinstance(g.generators[0].target, ast.Name):
                cands = self.ev(g.generators[0].iter)
                if isinstance(cands, (tuple, list)):
                    name = g.generators[0].target.id
                    for c in cands:
                        sub = type(self)(lambda ex, c=c, name=name: c if isinstance(ex, ast.Name) and ex.id == name else self.atoms(ex), self.calls)
                        ok = True
                        for t in g.generators[0].ifs:
                            tv = sub.ev(t)
                            if isinstance(tv, Sym):
                                raise DTop(f"test over an unbound value: {tv.text[:60]}")
                            if not sub.truth(tv):
                                ok = False
                                break
                        if ok:
                            return sub.ev(g.elt)
                    if len(e.args) > 1:
                        return self.ev(e.args[1])
                    raise Raises("StopIteration", u(e)[:60])
            return Sym(u(e))
        if isinstance(e, (ast.GeneratorExp, ast.ListComp)) or (isinstance(e, ast.Call) and isinstance(e.func, ast.Name) and e.func.id == "tuple"):
            try:
                return super().ev(e)
            except DTop:
                return Sym(u(e))
        if isinstance(e, ast.Call) and is_call_to(e, "__raise__"):
            return super().ev(e)
        if isinstance(e, ast.Attribute) and (isinstance(e.value, (ast.IfExp, ast.BoolOp)) or (isinstance(e.value, ast.Call) and isinstance(e.value.func, ast.Name) and e.value.func.id == "next")):
            # (a if t else b).attr / (a or b).attr: the attribute of whichever object is selected
            base = self.ev(e.value)
            if isinstance(base, Sym):
                return Sym(f"{base.text}.{e.attr}")
            if base is None:
                raise Raises("AttributeError", u(e)[:60])
            return Sym(u(e))
        return Sym(u(e))

    def compare(self, op, a, b):  # type: ignore[override]
        if isinstance(a, Sym) or isinstance(b, Sym):
            raise DTop("comparison with an unbound value")
        return Interp.compare(op, a, b)


def eval_ctor(it: "SymInterp", e: ast.expr):
    """Evaluate a factory body to (callee value, [argument values], {keyword: value})."""
    # resolve conditionals around the call first
    while isinstance(e, ast.IfExp):
        t = it.ev(e.test)
        if isinstance(t, Sym):
            raise DTop(f"test over an unbound value: {t.text[:60]}")
        e = e.body if it.truth(t) else e.orelse
    if not isinstance(e, ast.Call):
        return it.ev(e), [], {}
    if is_call_to(e, "__raise__"):
        return it.ev(e), [], {}
    callee = it.ev(e.func)
    return callee, [it.ev(a) for a in e.args], {k.arg: it.ev(k.value) for k in e.keywords if k.arg}


# --------------------------------------------------------------------------- index selectors on a model axis
class IndexInterp(ModelInterp):
    """ModelInterp + the numpy index constructors, evaluated to plain Python values:
    np.ix_(a, b, ..) -> ('ix', (tuple(a), tuple(b), ..)) ; np.s_[lo:hi:st] / slice(lo, hi, st) -> slice ; `...` -> Ellipsis ;
    int arithmetic.  `selected(sel, extents)` turns such a value into the tuple of selected positions per axis (in order)."""

    def ev(self, e: ast.expr) -> Any:
        try:
            return self.atoms(e)
        except KeyError:
            pass
        if isinstance(e, ast.Constant) and e.value is Ellipsis:
            return Ellipsis
        if isinstance(e, ast.Name) and e.id == "Ellipsis":
            return Ellipsis
        if isinstance(e, ast.Subscript) and u(e.value) in ("np.s_", "np.index_exp"):
            sl = e.slice
            parts = list(sl.elts) if isinstance(sl, ast.Tuple) else [sl]
            vals = [self._slice_value(p) for p in parts]
            return tuple(vals) if isinstance(sl, ast.Tuple) or u(e.value) == "np.index_exp" else vals[0]
        if isinstance(e, ast.BinOp) and isinstance(e.op, (ast.Sub, ast.Mult, ast.FloorDiv, ast.Mod)):
            a, b = self.ev(e.left), self.ev(e.right)
            if all(isinstance(x, int) and not isinstance(x, bool) for x in (a, b)):
                if isinstance(e.op, ast.Sub):
                    return a - b
                if isinstance(e.op, ast.Mult):
                    return a * b
                if b == 0:
                    raise Raises("ZeroDivisionError", u(e)[:60])
                return a // b if isinstance(e.op, ast.FloorDiv) else a % b
            raise DTop("arithmetic on non-int")
        return super().ev(e)

    def _slice_value(self, p):
        if isinstance(p, ast.Slice):
            return slice(*(self.ev(x) if x is not None else None for x in (p.lower, p.upper, p.step)))
        return self.ev(p)

    def _call(self, c: ast.Call, it):
        f = u(c.func)
        if f == "np.ix_":
            args = []
            for a in c.args:
                if isinstance(a, ast.Starred):
                    args += list(self.ev(a.value))
                else:
                    args.append(self.ev(a))
            # component i of the open mesh: the offsets of argument i, broadcast along axis i
            return tuple(("ixc", i, tuple(a)) for i, a in enumerate(args))
        if f == "slice":
            vals = [self.ev(a) for a in c.args]
            return slice(*vals)
        if f in ("np.array", "np.asarray", "list") and len(c.args) >= 1:
            return tuple(self.ev(c.args[0]))
        if f in ("np.arange", "range"):
            return tuple(range(*[self.ev(a) for a in c.args]))
        return super()._call(c, it)


def selected(sel: Any, extents: Tuple[int, ...]) -> Tuple[Tuple[int, ...], ...]:
    """Positions selected per axis by `sel` on an array of shape `extents` (axes not mentioned are kept whole)."""
    return selection_with_axes(sel, extents)[0]


def _is_ixc(p) -> bool:
    return isinstance(p, tuple) and len(p) == 3 and p[0] == "ixc"


def selection_with_axes(sel: Any, extents: Tuple[int, ...]):
    """-> (positions selected on each RAW axis, output axis each raw axis lands on).  Open-mesh components keep the axis
    they were built for, so a permuted tuple of them transposes the result."""
    full = [tuple(range(n)) for n in extents]
    if sel is Ellipsis:
        return tuple(full), tuple(range(len(extents)))
    if _is_ixc(sel):
        sel = (sel,)
    parts = list(sel) if isinstance(sel, tuple) else [sel]
    if parts and all(_is_ixc(p) for p in parts):
        if len(parts) > len(extents):
            raise Raises("IndexError", "too many indices")
        pos = [tuple(p[2]) for p in parts] + full[len(parts):]
        for k, ps in enumerate(pos):
            if any(x >= extents[k] or x < -extents[k] for x in ps):
                raise Raises("IndexError", f"offset out of range on axis {k}")
        axes = [p[1] for p in parts] + list(range(len(parts), len(extents)))
        return tuple(pos), tuple(axes)
    if any(_is_ixc(p) for p in parts):
        raise DTop("mixed open-mesh / basic index")
    out = []
    k = 0
    for p in parts:
        if p is Ellipsis:
            rest = len(parts) - parts.index(p) - 1
            while len(out) < len(extents) - rest:
                out.append(full[len(out)])
            k = len(out)
            continue
        if k >= len(extents):
            raise Raises("IndexError", "too many indices")
        if isinstance(p, slice):
            out.append(full[k][p])
        elif isinstance(p, int) and not isinstance(p, bool):
            out.append((full[k][p],))
        elif isinstance(p, (tuple, list)) and all(isinstance(x, int) for x in p):
            out.append(tuple(full[k][x] for x in p))
        else:
            raise DTop(f"index part {p!r}")
        k = len(out)
    while len(out) < len(extents):
        out.append(full[len(out)])
    return tuple(out), tuple(range(len(extents)))


def module_constants(tree: ast.AST) -> Dict[str, ast.expr]:
    """name -> value expression of the simple module-level assignments of a module"""
    out: Dict[str, ast.expr] = {}
    for st in getattr(tree, "body", []):
        if isinstance(st, ast.Assign) and len(st.targets) == 1 and isinstance(st.targets[0], ast.Name):
            out[st.targets[0].id] = st.value
        elif isinstance(st, ast.AnnAssign) and isinstance(st.target, ast.Name) and st.value is not None:
            out[st.target.id] = st.value
    return out
