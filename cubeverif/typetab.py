"""Finite decision tables over the dimension-type enumeration.

A predicate such as `self._dimensions[1].dimension_type not in DT.ARRAY_TYPES` is a function from the 11 members
of DIMENSION_TYPE to bool; it is decided by evaluating the expression (DECTAB) for every member, whatever its
spelling (`not in DT.ARRAY_TYPES`, `not in (DT.MR, ...)`, a chain of `!=`, a helper set).  The enumeration, its
aliases and its subset constants are read from enums.py on every run; the SPECIFIED table is written here.
"""
from __future__ import annotations

import ast
from typing import Any, Callable, Dict, FrozenSet, List, Optional

from .dectab import DTop, Interp, Raises
from .loader import AnalysisError
from .symex import u

SPEC_ARRAY_TYPES = frozenset({"CA_SUBVAR", "MR_SUBVAR", "NUM_ARRAY"})


def dt_members(repo) -> List[str]:
    en = repo.cls("enums.py", "DIMENSION_TYPE")
    out = []
    for name, e in en.consts.items():
        if isinstance(e, ast.Call) and u(e.func) == "_DimensionType":
            out.append(name)
    if len(out) < 8:
        raise AnalysisError("DIMENSION_TYPE members not recognised")
    return sorted(out)


def _resolve(en, name: str) -> str:
    seen = set()
    while name in en.aliases and name not in seen:
        seen.add(name)
        name = en.aliases[name]
    return name


def dt_value(repo, attr: str) -> Any:
    """Value of DT.<attr>: a member name, or a frozenset of member names for a subset constant (a display of members, a
    union / intersection / difference of other subset constants)."""
    en = repo.cls("enums.py", "DIMENSION_TYPE")

    def val(e, depth=0):
        if depth > 6:
            raise DTop(f"DT.{attr}: too deep")
        if isinstance(e, ast.Name):
            n = _resolve(en, e.id)
            c = en.consts.get(n)
            if c is None:
                raise DTop(f"DT.{attr} element {e.id}")
            if isinstance(c, ast.Call) and u(c.func) == "_DimensionType":
                return n
            return val(c, depth + 1)
        if isinstance(e, ast.Attribute) and isinstance(e.value, ast.Name) and e.value.id in ("DIMENSION_TYPE", "DT", "cls"):
            return val(ast.Name(id=e.attr, ctx=ast.Load()), depth + 1)
        if isinstance(e, ast.Call) and u(e.func) == "_DimensionType":
            raise DTop("anonymous member")
        if isinstance(e, ast.Call) and u(e.func) in ("frozenset", "set", "tuple") and len(e.args) == 1:
            inner = val(e.args[0], depth + 1)
            return frozenset(inner if isinstance(inner, (frozenset, tuple, list)) else [inner])
        if isinstance(e, ast.Call) and u(e.func) in ("frozenset", "set") and not e.args:
            return frozenset()
        if isinstance(e, (ast.Tuple, ast.List, ast.Set)):
            out = []
            for x in e.elts:
                v = val(x, depth + 1)
                out += list(v) if isinstance(v, frozenset) and isinstance(x, ast.Starred) else [v]
            if any(isinstance(v, frozenset) for v in out):
                raise DTop(f"DT.{attr}: set inside a display")
            return frozenset(out)
        if isinstance(e, ast.BinOp) and isinstance(e.op, (ast.BitOr, ast.BitAnd, ast.Sub)):
            a, b = val(e.left, depth + 1), val(e.right, depth + 1)
            if not (isinstance(a, frozenset) and isinstance(b, frozenset)):
                raise DTop(f"DT.{attr}: set operation on a member")
            return a | b if isinstance(e.op, ast.BitOr) else (a & b if isinstance(e.op, ast.BitAnd) else a - b)
        if isinstance(e, ast.Call) and isinstance(e.func, ast.Attribute) and e.func.attr in ("union", "intersection", "difference"):
            a = val(e.func.value, depth + 1)
            for x in e.args:
                b = val(x, depth + 1)
                b = b if isinstance(b, frozenset) else frozenset([b])
                a = a | b if e.func.attr == "union" else (a & b if e.func.attr == "intersection" else a - b)
            return a
        raise DTop(f"DT.{attr} = {u(e)[:40]}")

    n = _resolve(en, attr)
    e = en.consts.get(n)
    if e is None:
        raise DTop(f"DT.{attr}")
    if isinstance(e, ast.Call) and u(e.func) == "_DimensionType":
        return n
    return val(e)


def eval_over_types(repo, mod, expr: ast.expr, type_atoms: Dict[str, str], extra: Optional[Callable[[ast.expr], Any]] = None):
    """Evaluate `expr` with the sub-expressions in `type_atoms` (text -> member name) bound; DT.<x> resolved."""

    def atoms(e: ast.expr):
        t = u(e)
        if t in type_atoms:
            return type_atoms[t]
        if isinstance(e, ast.Attribute) and isinstance(e.value, ast.Name):
            ci = repo.resolve_class(mod, e.value.id)
            if ci is not None and ci.name == "DIMENSION_TYPE":
                return dt_value(repo, e.attr)
        if extra is not None:
            return extra(e)
        raise KeyError

    def calls(c: ast.Call, it: Interp):
        f = u(c.func)
        if f in ("frozenset", "set", "tuple", "list") and len(c.args) == 1:
            return frozenset(it.ev(c.args[0])) if f in ("frozenset", "set") else tuple(it.ev(c.args[0]))
        if f == "bool" and len(c.args) == 1:
            return bool(it.truth(it.ev(c.args[0])))
        raise DTop(f"call {f}")

    return Interp(atoms, calls).ev(expr)


def check_type_predicate(ctx, rule: str, construct: str, mod, expr: ast.expr, type_atom: str, spec: Callable[[str], bool], detail: str = ""):
    """Decide a one-dimension type predicate against `spec(member) -> bool` over every member of the enumeration."""
    bad, n = [], 0
    for mem in dt_members(ctx.repo):
        try:
            got = eval_over_types(ctx.repo, mod, expr, {type_atom: mem})
        except (DTop, Raises) as exc:
            ctx.undecided(rule, construct, f"DECTAB: {exc}", "table over DIMENSION_TYPE")
            return None
        n += 1
        if bool(got) != spec(mem):
            bad.append(f"{mem}: {bool(got)} (specified {spec(mem)})")
    ctx.count("type-predicate table rows", n)
    ctx.ob(rule, construct, bad or f"{n} dimension types agree", "table over every DIMENSION_TYPE member", not bad, detail)
    return not bad
