"""MIRROR - the transposition rewrite T on expressions and the twin comparison.

T maps a row-direction implementation to the column-direction one it must equal:
block indices [i][j]->[j][i], 2-tuple subscripts swapped, axis 0<->1, shape[0]<->shape[1],
_dimensions[0]<->[1] (and [-2]<->[-1]), row<->column / rows<->columns / cols<->rows in
identifiers, MO.ROWS<->MO.COLUMNS, vstack<->hstack; a leading new axis `[None, :]`
(image of `[:, None]`) is dropped because numpy broadcasting aligns trailing axes.
"""
from __future__ import annotations

import ast
import copy
from typing import List, Optional, Tuple

from .blocks import _is_blocks_expr
from .exprdiff import canon, shape_diff
from .symex import u

_SPECIAL = {
    "diff_rows_nan": "diff_cols_nan",
    "diff_cols_nan": "diff_rows_nan",
    "_diff_rows_nan": "_diff_cols_nan",
    "_diff_cols_nan": "_diff_rows_nan",
    "vstack": "hstack",
    "hstack": "vstack",
    "ROWS": "COLUMNS",
    "COLUMNS": "ROWS",
    "_nrows": "_ncols",
    "_ncols": "_nrows",
}
_SEG = {"row": "column", "column": "row", "rows": "columns", "columns": "rows", "col": "row", "cols": "rows"}


def swap_ident(s: str) -> str:
    if s in _SPECIAL:
        return _SPECIAL[s]
    return "_".join(_SEG.get(p, p) for p in s.split("_"))


def _const_int(e) -> Optional[int]:
    if isinstance(e, ast.Constant) and isinstance(e.value, int) and not isinstance(e.value, bool):
        return e.value
    if isinstance(e, ast.UnaryOp) and isinstance(e.op, ast.USub) and isinstance(e.operand, ast.Constant) and isinstance(e.operand.value, int):
        return -e.operand.value
    return None


def _mk_int(v: int) -> ast.expr:
    return ast.Constant(value=v) if v >= 0 else ast.UnaryOp(op=ast.USub(), operand=ast.Constant(value=-v))


_DIM_SWAP = {0: 1, 1: 0, -2: -1, -1: -2}


class T(ast.NodeTransformer):
    def visit_Name(self, n: ast.Name):
        return ast.Name(id=swap_ident(n.id) if n.id not in ("self", "np", "cls") else n.id, ctx=n.ctx)

    def visit_Constant(self, n: ast.Constant):
        # a member NAME passed as a string (`getattr(helper, "_rows_dimension")`, a dispatch key) is an identifier too
        if isinstance(n.value, str) and n.value.isidentifier():
            return ast.Constant(value=swap_ident(n.value))
        return n

    def visit_Attribute(self, n: ast.Attribute):
        v = self.visit(n.value)
        attr = n.attr
        if attr != "T":
            attr = swap_ident(attr)
        return ast.Attribute(value=v, attr=attr, ctx=n.ctx)

    def visit_keyword(self, k: ast.keyword):
        val = self.visit(k.value)
        if k.arg == "axis":
            c = _const_int(k.value)
            if c in (0, 1):
                val = _mk_int(1 - c)
        return ast.keyword(arg=swap_ident(k.arg) if k.arg else k.arg, value=val)

    def visit_Subscript(self, n: ast.Subscript):
        # blocks[i][j] -> blocks[j][i]
        if isinstance(n.value, ast.Subscript):
            j, i = _const_int(n.slice), _const_int(n.value.slice)
            if i is not None and j is not None and _is_blocks_expr(n.value.value):
                base = self.visit(n.value.value)
                return ast.Subscript(value=ast.Subscript(value=base, slice=_mk_int(j), ctx=ast.Load()), slice=_mk_int(i), ctx=n.ctx)
        value = self.visit(n.value)
        sl = n.slice
        c = _const_int(sl)
        vt = u(n.value)
        if c is not None and (vt.endswith("_dimensions") or vt.endswith(".shape") or vt.endswith("dimension_types")) and c in _DIM_SWAP:
            return ast.Subscript(value=value, slice=_mk_int(_DIM_SWAP[c]), ctx=n.ctx)
        if isinstance(sl, ast.Tuple) and len(sl.elts) == 2:
            a, b = self.visit(sl.elts[0]), self.visit(sl.elts[1])
            new = ast.Tuple(elts=[b, a], ctx=ast.Load())
            # `[None, :]` (image of `[:, None]`): leading new axis is a broadcasting no-op
            if isinstance(b, ast.Constant) and b.value is None and isinstance(a, ast.Slice) and a.lower is None and a.upper is None:
                return value
            return ast.Subscript(value=value, slice=new, ctx=n.ctx)
        return ast.Subscript(value=value, slice=self.visit(sl), ctx=n.ctx)


def transpose(e: ast.expr) -> ast.expr:
    return T().visit(copy.deepcopy(e))


class _DropRaiseMessages(ast.NodeTransformer):
    """__raise__(Exc("text ...")) -> __raise__(Exc): message wording is not behaviour."""

    def visit_Call(self, n: ast.Call):
        self.generic_visit(n)
        if isinstance(n.func, ast.Name) and n.func.id == "__raise__" and n.args and isinstance(n.args[0], ast.Call):
            return ast.Call(func=n.func, args=[n.args[0].func], keywords=[])
        return n


def compare_twins(row_expr: ast.expr, col_expr: ast.expr) -> Tuple[Optional[bool], str, str]:
    """T(row twin) vs column twin -> (verdict, T(row) text, detail)."""
    t = canon(_DropRaiseMessages().visit(transpose(row_expr)))
    c = canon(_DropRaiseMessages().visit(copy.deepcopy(col_expr)))
    tt, ct = u(t), u(c)
    if tt == ct:
        return True, tt, ""
    d = shape_diff(t, c)
    if d is None:
        return None, tt, "twins have different expression shapes"
    if not d:
        return True, tt, ""
    return False, tt, "; ".join(f"column twin has {y} where the mirrored row twin has {x}" for _p, x, y in d[:5])
