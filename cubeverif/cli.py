"""Command line: python -m cubeverif.cli <Cxx> <quick|thorough> [--replay f] [--repo dir]"""
from __future__ import annotations

import importlib
import os
import sys

from .core import run_property
from .loader import find_repo_root


def main(argv):
    if len(argv) < 1:
        print("usage: check <Cxx> [quick|thorough] [--replay file] [--repo dir]")
        return 2
    prop = argv[0]
    tier = os.environ.get("VERIF_TIER") or "quick"
    replay = None
    repo = None
    i = 1
    while i < len(argv):
        a = argv[i]
        if a in ("quick", "thorough"):
            tier = a
        elif a == "--replay":
            i += 1
            replay = argv[i]
        elif a == "--repo":
            i += 1
            repo = argv[i]
        i += 1
    try:
        mod = importlib.import_module(f"cubeverif.rules.{prop.lower()}")
    except ModuleNotFoundError:
        print(f"ANALYSIS-ERROR property={prop} no rule module")
        return 2
    rc = run_property(prop, tier, find_repo_root(repo), mod.run, replay)
    if rc == 0 and tier == "thorough" and hasattr(mod, "thorough_extra"):
        pass
    return rc


if __name__ == "__main__":
    sys.exit(main(sys.argv[1:]))
