"""PDG / FLOW - object-sensitive "which inputs can this value depend on" analysis.

An abstract interpreter over the summarised member bodies.  Abstract values are
(objs, reads): the package objects the value may be, and the set of *leaf reads*
its data may depend on.  Objects are (class, bindings of constructor fields), so
a helper such as ``_MarginTableBase(..., cube_counts)`` or
``SumSubtotals(base_values, dimensions)`` is analysed per construction site.

Leaf classes are not descended into: reading member ``m`` of a ``Cube`` or of any
class of ``dimension.py`` yields the leaf read ``Cube.m`` / ``Dimension.m`` ... .
While a member of a class of ``assembler.py`` / ``collator.py`` is being evaluated
the synthetic read ``ORDER`` is added (the value was computed by ordering code).

Used for: weighting provenance (C01, C02, C09, C13), non-interference of values
with display transforms (C05), must-pass-through (C06, C16), source of masks.
"""
from __future__ import annotations

import ast
from dataclasses import dataclass
from typing import Dict, FrozenSet, List, Optional, Set, Tuple

from .loader import ClassInfo, Member, Repo
from .symex import SUMMARIZER, is_call_to, u
from .types import Types

LEAF_MODULES = ("cube.py", "dimension.py", "enums.py", "util.py")
ORDER_MODULES = ("matrix/assembler.py", "stripe/assembler.py", "collator.py")


@dataclass(frozen=True)
class Obj:
    cls: ClassInfo
    bind: Tuple[Tuple[str, "Val"], ...] = ()
    is_class: bool = False  # the class object itself (for classmethod calls)

    def field(self, name: str) -> Optional["Val"]:
        for k, v in self.bind:
            if k == name:
                return v
        return None

    def __repr__(self):
        return f"<{self.cls.name}{'(cls)' if self.is_class else ''}>"


@dataclass(frozen=True)
class Val:
    objs: FrozenSet[Obj] = frozenset()
    reads: FrozenSet[str] = frozenset()
    strs: FrozenSet[str] = frozenset()  # string constants the value may be (for getattr(self, name) through a parameter)
    # the literal True / False this value IS (a flag passed to a shared helper: `weighted=True`): lets a conditional on
    # the parameter take the one branch instead of joining both
    flag: Optional[bool] = None

    def __or__(self, other: "Val") -> "Val":
        return Val(self.objs | other.objs, self.reads | other.reads, self.strs | other.strs, self.flag if self.flag == other.flag else None)

    def data(self) -> "Val":
        return Val(frozenset(), self.reads)


BOT = Val()


class Flow:
    def __init__(self, repo: Repo, types: Types, max_depth: int = 60):
        self.repo = repo
        self.types = types
        self.memo: Dict[Tuple, Val] = {}
        self.busy: Set[Tuple] = set()
        self.max_depth = max_depth
        self.depth = 0
        self.unknown: List[str] = []  # constructs evaluated to TOP
        self.evaluated_members = 0

    # ------------------------------------------------------------------ helpers
    def is_leaf_cls(self, ci: ClassInfo) -> bool:
        return ci.module.short in LEAF_MODULES

    def ext_obj(self, ci: ClassInfo) -> Obj:
        return Obj(ci, ())

    def _leaf_read(self, obj: Obj, name: str) -> Val:
        """Read member/field `name` on a leaf-class object."""
        ci = obj.cls
        label = f"{self._leaf_name(ci)}.{name}"
        m = self.repo.lookup(ci, name)
        objs: Set[Obj] = set()
        if m is None or m.kind in ("lazyproperty", "property"):
            ts = self.types.attr_type(ci, name)
        else:
            ts = self.types.member_type(m, ci)
        for t in ts:
            objs.add(self.ext_obj(t))
        return Val(frozenset(objs), frozenset([label]))

    @staticmethod
    def _leaf_name(ci: ClassInfo) -> str:
        return ci.name

    # ------------------------------------------------------------------ member evaluation
    def member_val(self, obj: Obj, name: str, args: Optional[Dict[str, Val]] = None, after: Optional[ClassInfo] = None, lits: Optional[Dict[str, ast.expr]] = None) -> Val:
        ci = obj.cls
        if self.is_leaf_cls(ci):
            v = self._leaf_read(obj, name)
            if args:
                for a in args.values():
                    v = v | a.data()
            return v
        m = self.repo.lookup_after(ci, after, name) if after is not None else self.repo.lookup(ci, name)
        if m is None:
            fv = obj.field(name)
            if fv is not None:
                return fv
            c = self.repo.const_lookup(ci, name)
            if c is not None:
                # class-level constant; a literal string (`_orientation = "row"`) is carried: it may name a member
                if isinstance(c, ast.Constant) and isinstance(c.value, str):
                    return Val(frozenset(), frozenset(), frozenset([c.value]))
                return BOT
            # unbound field of an externally created object: fall back on its type
            ts = self.types.field_type(ci, name)
            if ts:
                return Val(frozenset(self.ext_obj(t) for t in ts), frozenset())
            return Val(frozenset(), frozenset([f"FIELD:{ci.name}.{name}"]))
        key = (obj, m.cls.qual, m.name, tuple(sorted((k, v) for k, v in (args or {}).items())) if args else (), tuple(sorted((k, u(v)) for k, v in lits.items())) if lits else ())
        if key in self.memo:
            return self.memo[key]
        if key in self.busy or self.depth > self.max_depth:
            return BOT
        self.busy.add(key)
        self.depth += 1
        try:
            self.evaluated_members += 1
            if lits:
                # a helper called with LITERAL arguments (names of members, flags, tuples of names): its summary specialised
                # for them - `getattr(cube, name)` becomes the attribute, a search loop over the tuple is unrolled
                import copy as _copy

                from .symex import fold, fold_consts

                body = fold_consts(fold(SUMMARIZER.summarize(m.node, {k: _copy.deepcopy(v) for k, v in lits.items()})))
            else:
                body = SUMMARIZER.summarize(m.node)
            env: Dict[str, Val] = dict(args or {})
            # default values for unbound params
            a = m.node.args
            allp = [x.arg for x in a.posonlyargs + a.args]
            defaults = dict(zip(allp[len(allp) - len(a.defaults):], a.defaults))
            for p in m.params:
                if p not in env:
                    env[p] = self.eval(defaults[p], obj, m, {}) if p in defaults else BOT
            v = self.eval(body, obj, m, env)
            if m.cls.module.short in ORDER_MODULES:
                v = Val(v.objs, v.reads | {"ORDER"})
        finally:
            self.depth -= 1
            self.busy.discard(key)
        self.memo[key] = v
        return v

    def construct(self, ci: ClassInfo, pos: List[Val], kw: Dict[str, Val]) -> Obj:
        """Abstract object for Cls(*pos, **kw): bind __init__ fields."""
        if self.is_leaf_cls(ci):
            return self.ext_obj(ci)
        bind: Dict[str, Val] = {}
        self._bind_init(ci, ci, pos, kw, bind, 0)
        return Obj(ci, tuple(sorted(bind.items(), key=lambda kv: kv[0])))

    def _bind_init(self, inst: ClassInfo, start: ClassInfo, pos: List[Val], kw: Dict[str, Val], bind: Dict[str, Val], depth: int):
        init = None
        owner = None
        for c in (start.mro if start is inst else inst.mro[inst.mro.index(start):]):
            if "__init__" in c.members:
                init, owner = c.members["__init__"], c
                break
        if init is None or depth > 6:
            return
        params = init.params
        a = init.node.args
        allp = [x.arg for x in a.posonlyargs + a.args]
        defaults = dict(zip(allp[len(allp) - len(a.defaults):], a.defaults))
        env: Dict[str, Val] = {}
        for p, v in zip(params, pos):
            env[p] = v
        for k, v in kw.items():
            if k in params:
                env[k] = v
        dummy = Obj(inst, ())
        for p in params:
            if p not in env:
                env[p] = self.eval(defaults[p], dummy, init, {}) if p in defaults else BOT
        for st in ast.walk(init.node):
            if isinstance(st, ast.Assign):
                for t in st.targets:
                    if isinstance(t, ast.Attribute) and isinstance(t.value, ast.Name) and t.value.id == "self":
                        bind.setdefault(t.attr, self.eval(st.value, dummy, init, env))
            elif (
                isinstance(st, ast.Call)
                and isinstance(st.func, ast.Attribute)
                and st.func.attr == "__init__"
                and isinstance(st.func.value, ast.Call)
                and isinstance(st.func.value.func, ast.Name)
                and st.func.value.func.id == "super"
            ):
                spos = [self.eval(x, dummy, init, env) for x in st.args]
                skw = {k.arg: self.eval(k.value, dummy, init, env) for k in st.keywords if k.arg}
                mro = inst.mro
                nxt = mro[mro.index(owner) + 1] if owner in mro and mro.index(owner) + 1 < len(mro) else None
                if nxt is not None:
                    self._bind_init(inst, nxt, spos, skw, bind, depth + 1)

    # ------------------------------------------------------------------ expression evaluation
    def eval(self, e: Optional[ast.expr], obj: Obj, m: Optional[Member], env: Dict[str, Val]) -> Val:
        if e is None:
            return BOT
        if isinstance(e, ast.Constant):
            if isinstance(e.value, str) and e.value.isidentifier():
                return Val(frozenset(), frozenset(), frozenset([e.value]))
            if isinstance(e.value, bool):
                return Val(frozenset(), frozenset(), frozenset(), e.value)
            return BOT
        if isinstance(e, ast.Name):
            if e.id in env:
                return env[e.id]
            if e.id == "self":
                return Val(frozenset([obj]))
            if e.id == "cls":
                return Val(frozenset([Obj(obj.cls, (), True)]))
            ci = self.repo.resolve_class(obj.cls.module, e.id)
            if ci is not None:
                return Val(frozenset([Obj(ci, (), True)]))
            return BOT
        if isinstance(e, ast.Attribute):
            # super(X, self).name
            if isinstance(e.value, ast.Call) and isinstance(e.value.func, ast.Name) and e.value.func.id == "super":
                after = None
                if e.value.args and isinstance(e.value.args[0], ast.Name):
                    after = self.repo.resolve_class(obj.cls.module, e.value.args[0].id) or next(
                        (c for c in obj.cls.mro if c.name == e.value.args[0].id), None
                    )
                elif m is not None:
                    after = m.cls
                return self.member_val(obj, e.attr, after=after)
            base = self.eval(e.value, obj, m, env)
            out = Val(frozenset(), base.reads)
            for o in base.objs:
                if o.is_class:
                    c = self.repo.const_lookup(o.cls, e.attr)
                    if c is not None and e.attr not in o.cls.members:
                        continue  # class constant (enum member ...)
                    mm = self.repo.lookup(o.cls, e.attr)
                    if mm is not None and mm.kind in ("classmethod", "staticmethod"):
                        continue  # bound later by Call
                    continue
                mm = self.repo.lookup(o.cls, e.attr)
                if mm is not None and mm.kind not in ("lazyproperty", "property") and not self.is_leaf_cls(o.cls):
                    continue  # bound method value; handled at Call
                out = out | self.member_val(o, e.attr)
            return out
        if isinstance(e, ast.Call):
            return self.eval_call(e, obj, m, env)
        if isinstance(e, ast.Compare) and all(isinstance(op, (ast.Is, ast.IsNot)) for op in e.ops) and all(isinstance(c, ast.Constant) and c.value is None for c in e.comparators):
            # `X is None` / `X is not None`: the PRESENCE of X is consulted, not its values - the reads are kept apart
            # (suffix "?") so that a presence test of a measure does not count as data of that measure
            left = self.eval(e.left, obj, m, env)
            return Val(frozenset(), frozenset(r + "?" if self._optional_measure(r) else r for r in left.reads))
        if isinstance(e, ast.Subscript):
            base = self.eval(e.value, obj, m, env)
            idx = self.eval(e.slice, obj, m, env)
            objs = self._elem_objs(base.objs)
            return Val(objs, base.reads | idx.reads)
        if isinstance(e, ast.IfExp):
            t = self.eval(e.test, obj, m, env)
            neg = False
            te = e.test
            while isinstance(te, ast.UnaryOp) and isinstance(te.op, ast.Not):
                te, neg = te.operand, not neg
            tv = self.eval(te, obj, m, env) if neg else t
            if tv.flag is not None and not tv.objs and not tv.reads:
                return self.eval(e.body if (tv.flag != neg) else e.orelse, obj, m, env)
            return t.data() | self.eval(e.body, obj, m, env) | self.eval(e.orelse, obj, m, env)
        if isinstance(e, (ast.GeneratorExp, ast.ListComp, ast.SetComp, ast.DictComp)):
            env2 = dict(env)
            acc = BOT
            for g in e.generators:
                it = self.eval(g.iter, obj, m, env2)
                self._bind_target(g.target, g.iter, it, obj, m, env2)
                acc = acc | it.data()
                for c in g.ifs:
                    acc = acc | self.eval(c, obj, m, env2).data()
            if isinstance(e, ast.DictComp):
                return acc | self.eval(e.key, obj, m, env2) | self.eval(e.value, obj, m, env2)
            return acc | self.eval(e.elt, obj, m, env2)
        if isinstance(e, ast.Lambda):
            env2 = dict(env)
            for a in e.args.args:
                env2[a.arg] = BOT
            return self.eval(e.body, obj, m, env2)
        if isinstance(e, ast.Starred):
            return self.eval(e.value, obj, m, env)
        if isinstance(e, ast.JoinedStr):
            # f"{self._orientation}_weighted_bases": the strings it may be, when every part is a known string
            acc_strs = [""]
            for part in e.values:
                if isinstance(part, ast.Constant) and isinstance(part.value, str):
                    opts = [part.value]
                elif isinstance(part, ast.FormattedValue) and part.conversion == -1 and part.format_spec is None:
                    opts = sorted(self.eval(part.value, obj, m, env).strs)
                else:
                    opts = []
                if not opts or len(acc_strs) * len(opts) > 16:
                    return BOT
                acc_strs = [a + o for a in acc_strs for o in opts]
            return Val(frozenset(), frozenset(), frozenset(acc_strs))
        # generic: union over child expressions
        acc = BOT
        for child in ast.iter_child_nodes(e):
            if isinstance(child, ast.expr):
                acc = acc | self.eval(child, obj, m, env)
            elif isinstance(child, ast.keyword):
                acc = acc | self.eval(child.value, obj, m, env)
            elif isinstance(child, ast.Slice):
                for part in (child.lower, child.upper, child.step):
                    acc = acc | self.eval(part, obj, m, env)
        return acc

    def _optional_measure(self, read: str) -> bool:
        """`Cube.<accessor>` whose declared result is Optional[...]: a measure the response may or may not carry."""
        if not read.startswith("Cube.") or read.endswith("?"):
            return False
        cache = self.__dict__.setdefault("_optional_cache", None)
        if cache is None:
            cube = self.repo.cls("cube.py", "Cube")
            cache = self.__dict__["_optional_cache"] = {
                n for c in cube.mro for n, mm in c.members.items()
                if mm.kind in ("lazyproperty", "property") and mm.node.returns is not None and ast.unparse(mm.node.returns).startswith("Optional[")
            }
        return read.split(".", 1)[1] in cache

    def _elem_objs(self, objs: FrozenSet[Obj]) -> FrozenSet[Obj]:
        out = set()
        for o in objs:
            el = self.types._elem(frozenset([o.cls]))
            for t in el:
                out.add(o if t is o.cls else self.ext_obj(t))
        return frozenset(out)

    def _bind_target(self, target, it_expr, it_val: Val, obj, m, env):
        elem = Val(self._elem_objs(it_val.objs), it_val.reads)
        if isinstance(target, ast.Name):
            env[target.id] = elem
            return
        if isinstance(target, (ast.Tuple, ast.List)):
            if isinstance(it_expr, ast.Call) and isinstance(it_expr.func, ast.Name):
                if it_expr.func.id == "zip" and len(it_expr.args) == len(target.elts):
                    for t, a in zip(target.elts, it_expr.args):
                        av = self.eval(a, obj, m, env)
                        self._bind_target(t, a, av, obj, m, env)
                    return
                if it_expr.func.id == "enumerate" and len(target.elts) == 2 and it_expr.args:
                    self._bind_target(target.elts[0], None, BOT, obj, m, env)
                    av = self.eval(it_expr.args[0], obj, m, env)
                    self._bind_target(target.elts[1], it_expr.args[0], av, obj, m, env)
                    return
            for t in target.elts:
                self._bind_target(t, None, elem.data(), obj, m, env)

    def eval_call(self, e: ast.Call, obj: Obj, m: Optional[Member], env: Dict[str, Val]) -> Val:
        f = e.func
        pos = [self.eval(a, obj, m, env) for a in e.args]
        kw = {k.arg: self.eval(k.value, obj, m, env) for k in e.keywords if k.arg}
        argdata = BOT
        for v in list(pos) + list(kw.values()):
            argdata = argdata | v.data()
        # markers produced by SYMEX
        if isinstance(f, ast.Name) and f.id in ("__opaque__", "__mutated__", "__try__", "__endtry__", "__raise__"):
            acc = BOT
            for a in e.args:
                if isinstance(a, ast.Tuple) and f.id == "__try__":
                    for x in a.elts[1:]:
                        acc = acc | self.eval(x, obj, m, env)
                else:
                    acc = acc | self.eval(a, obj, m, env)
            return acc
        # constructor / class-valued callee
        if isinstance(f, ast.Attribute) and not (isinstance(f.value, ast.Name) and f.value.id in ("cls", "self") and self.types._class_valued(obj.cls, f.attr)):
            classes = []
        else:
            classes = self.types.callee_classes(f, obj.cls.module, obj.cls)
        if isinstance(f, ast.Name) and f.id in env:
            classes = []
        if classes:
            test_reads = self._selector_reads(f, obj, m, env)
            out = Val(frozenset(self.construct(c, pos, kw) for c in classes), test_reads.reads)
            return out
        if isinstance(f, ast.Name):
            if f.id == "cls" and m is not None:
                return Val(frozenset([self.construct(obj.cls, pos, kw)]))
            if f.id in ("getattr",) and len(e.args) >= 2:
                return self._getattr(e, pos, obj, m, env)
            if f.id in ("tuple", "list", "sorted", "reversed", "iter", "frozenset", "set", "zip", "enumerate", "dict", "next"):
                acc = BOT
                for v in pos:
                    acc = acc | v
                return acc
            if f.id in env:
                return env[f.id] | argdata
            if f.id == "map" and len(e.args) >= 2:
                # map(fn, xs, ys): fn called with the ELEMENTS of the iterables
                env2 = dict(env)
                names = []
                for k, v in enumerate(pos[1:]):
                    env2[f"__map{k}"] = Val(self._elem_objs(v.objs), v.reads, v.strs)
                    names.append(ast.Name(id=f"__map{k}", ctx=ast.Load()))
                return self.eval_call(ast.Call(func=e.args[0], args=names, keywords=[]), obj, m, env2) | argdata
            # a private FUNCTION of the module the calling member lives in: its summary with the parameters bound
            owner = m.cls.module if m is not None else obj.cls.module
            fn = owner.functions.get(f.id) if f.id.startswith("_") else None
            if fn is not None and not fn.args.vararg and not fn.args.kwarg:
                params = [a.arg for a in fn.args.posonlyargs + fn.args.args]
                key = ("FN", owner.short, f.id, tuple(pos), tuple(sorted(kw.items())), u(e))
                if key in self.memo:
                    return self.memo[key]
                if key in self.busy or self.depth > self.max_depth:
                    return argdata
                self.busy.add(key)
                self.depth += 1
                try:
                    fenv: Dict[str, Val] = dict(zip(params, pos))
                    fenv.update({k: v for k, v in kw.items() if k in params})
                    defaults = dict(zip(params[len(params) - len(fn.args.defaults):], fn.args.defaults))
                    for p_ in params:
                        if p_ not in fenv:
                            fenv[p_] = self.eval(defaults[p_], obj, m, {}) if p_ in defaults else BOT
                    # literal arguments (names of members, tuples of names): the summary specialised for them
                    lits = {}
                    for p_, a in list(zip(params, e.args)) + [(k.arg, k.value) for k in e.keywords if k.arg in params]:
                        if (isinstance(a, ast.Constant) and isinstance(a.value, (str, bool, int))) or (isinstance(a, (ast.Tuple, ast.List)) and all(isinstance(y, ast.Constant) and isinstance(y.value, (str, bool, int)) for y in a.elts)):
                            lits[p_] = a
                    if any(isinstance(n_, ast.Constant) and isinstance(n_.value, str) for v_ in lits.values() for n_ in ast.walk(v_)):
                        import copy as _copy

                        from .symex import fold, fold_consts

                        fbody = fold_consts(fold(SUMMARIZER.summarize(fn, {k: _copy.deepcopy(v_) for k, v_ in lits.items()})))
                    else:
                        fbody = SUMMARIZER.summarize(fn)
                    v = self.eval(fbody, obj, m, fenv)
                finally:
                    self.depth -= 1
                    self.busy.discard(key)
                self.memo[key] = v
                return v
            # builtin (len, int, range, isinstance, ...): data of args
            return argdata
        if isinstance(f, ast.Attribute):
            if isinstance(f.value, ast.Call) and isinstance(f.value.func, ast.Name) and f.value.func.id == "super":
                return argdata  # super().__init__ etc.
            recv = self.eval(f.value, obj, m, env)
            out = Val(frozenset(), recv.reads) | argdata
            handled = False
            for o in recv.objs:
                mm = self.repo.lookup(o.cls, f.attr)
                if mm is None:
                    if self.is_leaf_cls(o.cls):
                        out = out | self._leaf_read(o, f.attr)
                        handled = True
                    continue
                handled = True
                if self.is_leaf_cls(o.cls):
                    out = out | self.member_val(o, f.attr, None)
                    continue
                args = self._bind_args(mm, pos, kw)
                tgt = Obj(o.cls, o.bind, False) if o.is_class and mm.kind == "classmethod" else o
                out = out | self.member_val(tgt, f.attr, args, lits=self._literal_args(mm, e))
            if not handled and recv.objs:
                # method on a container of package objects (e.g. elements.get_by_id)
                pass
            # method of a data value (ndarray.reshape, dict.get ...): data of receiver + args;
            # container methods returning elements keep the element objects
            if not recv.objs or not handled:
                out = Val(self._elem_objs(recv.objs) if f.attr in ("get", "pop", "get_by_id") else out.objs, out.reads)
            return out
        # callee is itself a call / subscript etc.
        return self.eval(f, obj, m, env) | argdata

    def _selector_reads(self, f: ast.expr, obj, m, env) -> Val:
        """What decides WHICH class a class-valued callee expression denotes: tests of conditionals, the selector of
        {key: Class}.get(selector, Default) / {..}[selector], the arguments of a class-valued helper."""
        if isinstance(f, ast.IfExp):
            return self.eval(f.test, obj, m, env).data() | self._selector_reads(f.body, obj, m, env) | self._selector_reads(f.orelse, obj, m, env)
        if isinstance(f, ast.Call) and isinstance(f.func, ast.Attribute) and f.func.attr == "get" and f.args:
            acc = self.eval(f.args[0], obj, m, env).data()
            for a in f.args[1:]:
                acc = acc | self._selector_reads(a, obj, m, env)
            return acc
        if isinstance(f, ast.Subscript) and not isinstance(f.slice, ast.Slice):
            return self.eval(f.slice, obj, m, env).data()
        if isinstance(f, ast.Call):
            acc = BOT
            for a in f.args:
                acc = acc | self.eval(a, obj, m, env).data()
            # a class-valued HELPER of the class (`cls._counts_cls(rows_dimension, ca_as_0th)`): what its own conditionals
            # read (the dimension type of an argument) decides the class as well
            if isinstance(f.func, ast.Attribute) and isinstance(f.func.value, ast.Name) and f.func.value.id in ("self", "cls"):
                acc = acc | self.eval(f, obj, m, env).data()
            return acc
        return BOT

    def _tests(self, f: ast.IfExp, obj, m, env) -> Val:
        acc = self.eval(f.test, obj, m, env).data()
        for b in (f.body, f.orelse):
            if isinstance(b, ast.IfExp):
                acc = acc | self._tests(b, obj, m, env)
        return acc

    def _getattr(self, e: ast.Call, pos: List[Val], obj, m, env) -> Val:
        """getattr(X, name) where name is a dict-table lookup: union over table values."""
        recv = pos[0]
        names: Set[str] = set()
        for n in ast.walk(e.args[1]):
            if isinstance(n, ast.Dict):
                for v in n.values:
                    if isinstance(v, ast.Constant) and isinstance(v.value, str):
                        names.add(v.value)
            elif isinstance(n, ast.Constant) and isinstance(n.value, str):
                names.add(n.value)
        names |= set(pos[1].strs)
        out = Val(frozenset(), recv.reads | pos[1].reads)
        for o in recv.objs:
            for nm in names:
                if self.repo.lookup(o.cls, nm) is not None or o.field(nm) is not None:
                    out = out | self.member_val(o, nm)
        return out

    @staticmethod
    def _literal_args(mm: Member, e: ast.Call) -> Optional[Dict[str, ast.expr]]:
        def lit(x):
            if isinstance(x, ast.Constant) and isinstance(x.value, (str, bool, int)) or (isinstance(x, ast.Constant) and x.value is None):
                return True
            return isinstance(x, (ast.Tuple, ast.List)) and all(isinstance(y, ast.Constant) and isinstance(y.value, (str, bool, int)) for y in x.elts)

        out: Dict[str, ast.expr] = {}
        for p_, a in zip(mm.params, e.args):
            if lit(a):
                out[p_] = a
        for k in e.keywords:
            if k.arg in mm.params and lit(k.value):
                out[k.arg] = k.value
        # only worth a specialised summary when a NAME (string) is among them: flags are handled by Val.flag already
        if not any(isinstance(n, ast.Constant) and isinstance(n.value, str) for v in out.values() for n in ast.walk(v)):
            return None
        return out

    @staticmethod
    def _bind_args(mm: Member, pos: List[Val], kw: Dict[str, Val]) -> Dict[str, Val]:
        out: Dict[str, Val] = {}
        for p, v in zip(mm.params, pos):
            out[p] = v
        for k, v in kw.items():
            if k in mm.params:
                out[k] = v
        return out

    # ------------------------------------------------------------------ entry points
    def root(self, short: str, cls: str) -> Obj:
        return self.ext_obj(self.repo.cls(short, cls))

    def reads_of(self, obj: Obj, member: str, args: Optional[Dict[str, Val]] = None) -> FrozenSet[str]:
        return self.member_val(obj, member, args).reads
