"""Index-space lints (positions are only meaningful relative to the sequence they were counted in).

filtered_enumeration(fn): `for i, x in enumerate(F)` where F is a FILTERED view of a sequence (a comprehension with
a condition, filter(...), a helper returning one) and `i` then subscripts an array that is not derived from F:
the i-th element of the filtered list is not the i-th element of the original.

pairwise_fancy_index(fn): `a[rows, cols]` with TWO index arrays pairs them element by element (the diagonal of the
block, or an IndexError for unequal lengths); the block needs `np.ix_(rows, cols)` or two successive subscripts.
"""
from __future__ import annotations

import ast
from typing import Dict, List, Optional, Tuple

from .symex import u


def _is_filtered(e: ast.AST, helpers: Dict[str, ast.FunctionDef], depth: int = 0) -> bool:
    if isinstance(e, (ast.ListComp, ast.GeneratorExp)):
        return any(g.ifs for g in e.generators)
    if isinstance(e, ast.Call):
        f = u(e.func)
        if f == "filter" or f.endswith(".compress") or f == "itertools.compress":
            return True
        if f in ("list", "tuple", "sorted", "reversed") and e.args:
            return _is_filtered(e.args[0], helpers, depth)
        # a helper of the same class / module whose every return is a filtered view
        name = e.func.attr if isinstance(e.func, ast.Attribute) else (e.func.id if isinstance(e.func, ast.Name) else None)
        if name in helpers and depth < 2:
            rets = [r.value for r in ast.walk(helpers[name]) if isinstance(r, ast.Return) and r.value is not None]
            return bool(rets) and all(_is_filtered(r, helpers, depth + 1) for r in rets)
    return False


def filtered_enumeration(fn: ast.AST, helpers: Dict[str, ast.FunctionDef]) -> List[Tuple[int, str, str]]:
    assigns: Dict[str, ast.expr] = {}
    for n in ast.walk(fn):
        if isinstance(n, ast.Assign) and len(n.targets) == 1 and isinstance(n.targets[0], ast.Name):
            assigns.setdefault(n.targets[0].id, n.value)
    out = []
    loops = [n for n in ast.walk(fn) if isinstance(n, (ast.For, ast.comprehension))]
    for lp in loops:
        it = lp.iter
        if not (isinstance(it, ast.Call) and u(it.func) == "enumerate" and it.args):
            continue
        if not (isinstance(lp.target, ast.Tuple) and lp.target.elts and isinstance(lp.target.elts[0], ast.Name)):
            continue
        counter = lp.target.elts[0].id
        seq = it.args[0]
        seq_name = seq.id if isinstance(seq, ast.Name) else None
        seq_val = assigns.get(seq_name, seq) if seq_name else seq
        if not _is_filtered(seq_val, helpers):
            continue
        body = lp.body if isinstance(lp, ast.For) else []
        for st in body:
            for s in ast.walk(st):
                if isinstance(s, ast.Subscript):
                    parts = s.slice.elts if isinstance(s.slice, ast.Tuple) else [s.slice]
                    if not any(isinstance(p, ast.Name) and p.id == counter for p in parts):
                        continue
                    base = s.value
                    root = base
                    while isinstance(root, (ast.Subscript, ast.Attribute)):
                        root = root.value
                    base_def = u(assigns.get(root.id, base)) if isinstance(root, ast.Name) else u(base)
                    # an array built FROM the filtered list (sized / ordered like it) is indexed consistently
                    if (seq_name and seq_name in base_def) or u(seq_val) in base_def or (seq_name and isinstance(root, ast.Name) and root.id == seq_name):
                        continue
                    out.append((getattr(s, "lineno", 0), u(s)[:70], u(seq_val)[:70]))
    # de-duplicate
    seen, uniq = set(), []
    for x in out:
        if x[1] not in seen:
            seen.add(x[1])
            uniq.append(x)
    return uniq


_INDEXY = ("_idxs", "_idx_array", "_indices")


def _is_index_array(e: ast.AST) -> bool:
    if isinstance(e, ast.Attribute):
        return e.attr.endswith(_INDEXY) or e.attr in ("addend_idxs", "subtrahend_idxs")
    if isinstance(e, ast.Name):
        return e.id.endswith(_INDEXY)
    if isinstance(e, ast.Call) and u(e.func) in ("np.array", "np.asarray", "np.where", "np.flatnonzero", "np.nonzero", "list"):
        return True
    if isinstance(e, (ast.List, ast.ListComp)):
        return True
    return False


def pairwise_fancy_index(fn: ast.AST) -> List[Tuple[int, str]]:
    out = []
    for s in ast.walk(fn):
        if isinstance(s, ast.Subscript) and isinstance(s.slice, ast.Tuple) and len(s.slice.elts) >= 2:
            arrs = [p for p in s.slice.elts if _is_index_array(p)]
            # a list-literal of ONE index next to an index array (`a[:, [k]]`, `a[[k], idxs]`) keeps the block shape
            singles = [p for p in arrs if isinstance(p, ast.List) and len(p.elts) == 1]
            if len(arrs) >= 2 and len(arrs) - len(singles) >= 2:
                out.append((getattr(s, "lineno", 0), u(s)[:80]))
    return out


POSITIVE_CONTROL = '''
class K:
    def _diffs(self, subtotals):
        return [s for s in subtotals if len(s.subtrahend_idxs) > 0]

    def a(self):
        rows = np.array(self._default_insertions, dtype=np.float64)
        diffs = self._diffs(self._row_subtotals)
        for idx, subtotal in enumerate(diffs):
            rows[idx, :] = self._subtotal_row(subtotal, rows[idx, :])
        return rows

    def ok(self):
        diffs = self._diffs(self._row_subtotals)
        out = np.empty(len(diffs))
        for idx, subtotal in enumerate(diffs):
            out[idx] = f(subtotal)
        return out

    def b(self, row_subtotal, column_subtotal):
        return np.sum(self._base_values[row_subtotal.addend_idxs, column_subtotal.subtrahend_idxs])

    def ok2(self, r, c):
        return self._base_values[np.ix_(r.addend_idxs, c.subtrahend_idxs)] + self._base_values[r.addend_idxs, :][:, c.subtrahend_idxs]
'''


def self_check() -> Tuple[int, int]:
    tree = ast.parse(POSITIVE_CONTROL)
    cls = tree.body[0]
    helpers = {f.name: f for f in cls.body if isinstance(f, ast.FunctionDef)}
    fe = sum(len(filtered_enumeration(f, helpers)) for f in cls.body if isinstance(f, ast.FunctionDef))
    pf = sum(len(pairwise_fancy_index(f)) for f in cls.body if isinstance(f, ast.FunctionDef))
    return fe, pf


def scan(repo, shorts: Optional[List[str]] = None):
    """-> (functions scanned, [(where, kind, detail)])"""
    hits = []
    n = 0
    for mod in repo.modules.values():
        short = mod.path.split("cr/cube/")[-1]
        if shorts and short not in shorts:
            continue
        mod_helpers = {f.name: f for f in mod.tree.body if isinstance(f, ast.FunctionDef)}
        for ci in mod.classes.values():
            helpers = dict(mod_helpers)
            for c in reversed(ci.mro if ci.mro else [ci]):
                for mm in c.members.values():
                    helpers[mm.name] = mm.node
            for m in ci.members.values():
                n += 1
                for _line, sub, seq in filtered_enumeration(m.node, helpers):
                    hits.append((f"{short}::{ci.name}.{m.name} [{sub}]", "filtered-enumeration", f"counter of enumerate({seq}) indexes {sub}"))
                for _line, sub in pairwise_fancy_index(m.node):
                    hits.append((f"{short}::{ci.name}.{m.name} [{sub}]", "pairwise-fancy-index", sub))
    return n, hits


# --------------------------------------------------------------------------- axis roles of the partition's index collections
ROW_COLLECTIONS = {"diff_row_idxs", "inserted_row_idxs", "derived_row_idxs", "_row_order_signed_indexes"}
COL_COLLECTIONS = {"diff_column_idxs", "inserted_column_idxs", "derived_column_idxs", "_column_order_signed_indexes"}
TUPLE_COLLECTIONS = {"diff_row_idxs", "inserted_row_idxs", "derived_row_idxs", "diff_column_idxs", "inserted_column_idxs", "derived_column_idxs"}


def _unwrap_index(x: ast.AST) -> Tuple[ast.AST, bool]:
    """-> (inner expression, converted) ; list(t) / np.array(t) / np.asarray(t) turn a tuple of indexes into an index ARRAY."""
    conv = False
    while isinstance(x, ast.Call) and u(x.func) in ("list", "np.array", "np.asarray", "tuple", "sorted") and len(x.args) >= 1:
        if u(x.func) != "tuple":
            conv = True
        x = x.args[0]
    return x, conv


def axis_role_misuse(fn: ast.AST) -> List[Tuple[int, str, str]]:
    """Subscripts of a 2-D partition method whose index collections stand on the wrong axis, or whose whole subscript is a
    TUPLE of positions (numpy reads a tuple as one index per dimension).  -> [(line, kind, text)]"""
    from .stmts import resolver

    res = resolver(fn, multi=True)
    out = []

    def role(e):
        roles = set()
        tup = False
        for v in res(e):
            inner, conv = _unwrap_index(v)
            if isinstance(inner, ast.Attribute) and isinstance(inner.value, ast.Name) and inner.value.id == "self":
                if inner.attr in ROW_COLLECTIONS:
                    roles.add("R")
                if inner.attr in COL_COLLECTIONS:
                    roles.add("C")
                if inner.attr in TUPLE_COLLECTIONS and not conv:
                    tup = True
        return roles, tup

    for n in ast.walk(fn):
        if not isinstance(n, ast.Subscript):
            continue
        sl = n.slice
        if isinstance(sl, ast.Tuple):
            if len(sl.elts) != 2:
                continue
            for axis, part in enumerate(sl.elts):
                roles, _t = role(part)
                if roles == {"R"} and axis == 1:
                    out.append((n.lineno, "axis", f"{u(n)[:80]}: a collection of ROW positions indexes axis 1"))
                if roles == {"C"} and axis == 0:
                    out.append((n.lineno, "axis", f"{u(n)[:80]}: a collection of COLUMN positions indexes axis 0"))
        elif not isinstance(sl, ast.Slice):
            roles, tup = role(sl)
            if tup and roles:
                out.append((n.lineno, "tuple", f"{u(n)[:80]}: a TUPLE of positions as the whole subscript is one index per dimension, not a selection along one axis"))
    return out


AXIS_CONTROL = '''
def blank(self, matrix):
    rows, cols = self.diff_row_idxs, self.diff_column_idxs
    if rows:
        matrix[rows] = np.nan
    if cols:
        matrix[cols, :] = np.nan
    return matrix

def ok(self, matrix, vector):
    matrix[list(self.diff_row_idxs), :] = np.nan
    matrix[:, self.diff_column_idxs] = np.nan
    vector[list(self.diff_row_idxs)] = np.nan
    return matrix[np.ix_(self._row_order_signed_indexes, self._column_order_signed_indexes)]
'''


def axis_self_check() -> Tuple[int, int]:
    t = ast.parse(AXIS_CONTROL)
    return len(axis_role_misuse(t.body[0])), len(axis_role_misuse(t.body[1]))


# --------------------------------------------------------------------------- zip of a filtered with an unfiltered sequence
def _is_filtered_seq(e: ast.AST, fn: ast.AST, res) -> bool:
    for v in res(e):
        if isinstance(v, (ast.ListComp, ast.GeneratorExp)) and any(g.ifs for g in v.generators):
            return True
        if isinstance(v, ast.Call) and u(v.func) in ("tuple", "list") and v.args and isinstance(v.args[0], (ast.ListComp, ast.GeneratorExp)) and any(g.ifs for g in v.args[0].generators):
            return True
        if isinstance(v, ast.Call) and u(v.func) == "filter":
            return True
    return False


def _is_raw_payload_seq(e: ast.AST, res) -> bool:
    """a list read straight from a response dict: x['result']['counts'], x[...]['data'], x[...]['elements']"""
    for v in res(e):
        if isinstance(v, ast.Subscript) and isinstance(v.slice, ast.Constant) and v.slice.value in ("counts", "data", "elements", "categories"):
            return True
    return False


def zip_filter_mismatch(fn: ast.AST) -> List[Tuple[int, str]]:
    """zip(A, B) where A was FILTERED (a comprehension with a condition) and B is a raw payload list: the pairs line up only
    while the items filtered out of A stand at the END of B (zip then merely truncates them); anywhere else every later
    pair is shifted."""
    from .stmts import resolver

    res = resolver(fn, multi=True)
    out = []
    for n in ast.walk(fn):
        if isinstance(n, ast.Call) and isinstance(n.func, ast.Name) and n.func.id == "zip" and len(n.args) >= 2:
            filt = [a for a in n.args if _is_filtered_seq(a, fn, res)]
            raw = [a for a in n.args if _is_raw_payload_seq(a, res) and not _is_filtered_seq(a, fn, res)]
            if filt and raw:
                out.append((n.lineno, f"zip({', '.join(u(a)[:40] for a in n.args)}): {u(filt[0])[:30]} is filtered, {u(raw[0])[:40]} is the whole payload list"))
    return out


ZIP_CONTROL = '''
def augment(self, cube_resp, elements):
    values = [el.get("value") for el in cube_resp["result"]["dimensions"][0]["type"]["elements"] if isinstance(el.get("value"), (int, str))]
    positions = [item["id"] for item in elements if item["value"] in values]
    data = [0] * 5
    for pos, value in zip(positions, cube_resp["result"]["counts"]):
        data[pos] = value
    return data

def ok(self, cube_resp, elements):
    values = [el.get("value") for el in cube_resp["result"]["dimensions"][0]["type"]["elements"]]
    for value, count in zip(values, cube_resp["result"]["counts"]):
        pass
'''


def zip_self_check() -> Tuple[int, int]:
    t = ast.parse(ZIP_CONTROL)
    return len(zip_filter_mismatch(t.body[0])), len(zip_filter_mismatch(t.body[1]))
