"""SYMEX - turn a (loop-free) method body into ONE expression, and expand
``self.<lazyproperty>`` reads through the class hierarchy.

This is the front end shared by AXIS, NORM, BLOCKS, PDG and DECTAB.  It is pure
syntax manipulation (reaching definitions on straight-line code, `if` kept as
conditional expressions); no repository code is executed.

Conventions for constructs outside the subset:
* ``__opaque__('<why>', ...)``  - value the engines treat as TOP,
* ``__raise__(Exc(...))``       - a path that raises,
* ``__try__(body, (ExcType, handler_result), ...)`` - try/except with returns.
"""
from __future__ import annotations

import ast
import copy
from typing import Callable, Dict, List, Optional, Sequence, Set, Tuple

from .loader import ClassInfo, Member, Repo

NONE = ast.Constant(value=None)


def mk_call(name: str, *args: ast.expr) -> ast.Call:
    return ast.Call(func=ast.Name(id=name, ctx=ast.Load()), args=list(args), keywords=[])


def opaque(why: str, *args: ast.expr) -> ast.Call:
    return mk_call("__opaque__", ast.Constant(value=why), *args)


def is_call_to(e: ast.AST, name: str) -> bool:
    return isinstance(e, ast.Call) and isinstance(e.func, ast.Name) and e.func.id == name


def u(e: Optional[ast.AST]) -> str:
    """Normalised text of an expression (comments/format-insensitive)."""
    if e is None:
        return "<none>"
    try:
        return ast.unparse(e)
    except Exception:  # pragma: no cover
        return ast.dump(e)


def attr_chain(e: ast.AST) -> Optional[List[str]]:
    """`self.a.b.c` -> ['self','a','b','c'];  None if not a pure chain."""
    parts: List[str] = []
    while isinstance(e, ast.Attribute):
        parts.append(e.attr)
        e = e.value
    if isinstance(e, ast.Name):
        parts.append(e.id)
        return parts[::-1]
    return None


def dotted(e: ast.AST) -> Optional[str]:
    c = attr_chain(e)
    return ".".join(c) if c else None


class _Subst(ast.NodeTransformer):
    def __init__(self, env: Dict[str, ast.expr], localfns, summarizer):
        self.env = env
        self.shadow: List[Set[str]] = []
        self.localfns = localfns
        self.summarizer = summarizer

    def _shadowed(self, name: str) -> bool:
        return any(name in s for s in self.shadow)

    def visit_Name(self, node: ast.Name):
        if isinstance(node.ctx, ast.Load) and node.id in self.env and not self._shadowed(node.id):
            return copy.deepcopy(self.env[node.id])
        return node

    def _comp(self, node, fields):
        names: Set[str] = set()
        for g in node.generators:
            for n in ast.walk(g.target):
                if isinstance(n, ast.Name):
                    names.add(n.id)
        # iter of first generator is evaluated in enclosing scope
        new_gens = []
        self.shadow.append(set())
        for g in node.generators:
            it = self.visit(g.iter)
            for n in ast.walk(g.target):
                if isinstance(n, ast.Name):
                    self.shadow[-1].add(n.id)
            ifs = [self.visit(i) for i in g.ifs]
            new_gens.append(ast.comprehension(target=g.target, iter=it, ifs=ifs, is_async=g.is_async))
        kw = {f: self.visit(getattr(node, f)) for f in fields}
        self.shadow.pop()
        return type(node)(generators=new_gens, **kw)

    def visit_ListComp(self, node):
        return self._comp(node, ["elt"])

    def visit_SetComp(self, node):
        return self._comp(node, ["elt"])

    def visit_GeneratorExp(self, node):
        return self._comp(node, ["elt"])

    def visit_DictComp(self, node):
        return self._comp(node, ["key", "value"])

    def visit_Lambda(self, node):
        names = {a.arg for a in node.args.args}
        self.shadow.append(names)
        body = self.visit(node.body)
        self.shadow.pop()
        return ast.Lambda(args=node.args, body=body)

    def visit_Call(self, node: ast.Call):
        if isinstance(node.func, ast.Name) and node.func.id in self.localfns and not self._shadowed(
            node.func.id
        ):
            fn, fenv = self.localfns[node.func.id]
            if any(isinstance(n, (ast.Yield, ast.YieldFrom)) for n in ast.walk(fn)):
                return opaque("generator", ast.Constant(value=fn.name))
            bind = dict(fenv)
            params = [a.arg for a in fn.args.args]
            # defaults first (`clip=False`), then positional and keyword arguments; literal flags then decide the body's branches
            for p, d in zip(params[len(params) - len(fn.args.defaults):], fn.args.defaults):
                bind[p] = copy.deepcopy(d)
            for p, a in zip(params, node.args):
                bind[p] = self.visit(a)
            for k in node.keywords:
                if k.arg in params:
                    bind[k.arg] = self.visit(k.value)
            out = self.summarizer._run_top(fn.body, bind, dict(self.localfns))
            try:
                return fold_consts(out)
            except Exception:
                return out
        return self.generic_visit(node)


class _PositivePolarity(ast.NodeTransformer):
    """`a if not t else b` -> `b if t else a` (a flipped condition is the same decision): every conditional of a
    summary tests the POSITIVE form, so rules see one polarity whichever way the source is written."""

    def visit_IfExp(self, node: ast.IfExp):
        self.generic_visit(node)
        while isinstance(node.test, ast.UnaryOp) and isinstance(node.test.op, ast.Not):
            node = ast.IfExp(test=node.test.operand, body=node.orelse, orelse=node.body)
        return node


class Summarizer:
    """Function body -> single expression."""

    def __init__(self):
        self._cache: Dict[Tuple[int, Tuple], ast.expr] = {}

    # public ---------------------------------------------------------------
    def summarize(self, fn: ast.FunctionDef, bind: Optional[Dict[str, ast.expr]] = None) -> ast.expr:
        key = (id(fn), tuple(sorted((k, u(v)) for k, v in (bind or {}).items())))
        if key not in self._cache:
            self._cache[key] = _PositivePolarity().visit(self._run_top(_degenerate(fn), dict(bind or {}), {}))
        return copy.deepcopy(self._cache[key])

    # internals ------------------------------------------------------------
    def _run_top(self, stmts, env, localfns) -> ast.expr:
        return self._run(list(stmts), env, localfns, lambda _env: copy.deepcopy(NONE))

    def _subst(self, e: ast.expr, env, localfns) -> ast.expr:
        return _Subst(env, localfns, self).visit(copy.deepcopy(e))

    @staticmethod
    def _assigned_names(stmts) -> Set[str]:
        out: Set[str] = set()
        for st in stmts:
            for n in ast.walk(st):
                if isinstance(n, ast.Name) and isinstance(n.ctx, ast.Store):
                    out.add(n.id)
        return out

    @staticmethod
    def _has_exit(stmts) -> bool:
        for st in stmts:
            for n in ast.walk(st):
                if isinstance(n, (ast.Return, ast.Raise)):
                    return True
        return False

    def _assign(self, target: ast.expr, value: ast.expr, env):
        if isinstance(target, ast.Name):
            env[target.id] = value
        elif isinstance(target, (ast.Tuple, ast.List)):
            if isinstance(value, (ast.Tuple, ast.List)) and len(value.elts) == len(target.elts):
                for t, v in zip(target.elts, value.elts):
                    self._assign(t, v, env)
            else:
                for i, t in enumerate(target.elts):
                    self._assign(
                        t,
                        ast.Subscript(value=copy.deepcopy(value), slice=ast.Constant(value=i), ctx=ast.Load()),
                        env,
                    )
        elif isinstance(target, (ast.Subscript, ast.Attribute)):
            # a store through a local name makes that name's value state-dependent
            root = target
            while isinstance(root, (ast.Subscript, ast.Attribute)):
                root = root.value
            if isinstance(root, ast.Name) and root.id in env:
                env[root.id] = mk_call("__mutated__", env[root.id])

    def _mark_mutated(self, call: ast.Call, env, why="__mutated__"):
        root = call.func.value
        while isinstance(root, (ast.Attribute, ast.Subscript)):
            root = root.value
        if isinstance(root, ast.Name) and root.id in env and not is_call_to(env[root.id], "__opaque__"):
            env[root.id] = mk_call(why, env[root.id])

    def _run(self, stmts: List[ast.stmt], env, localfns, k) -> ast.expr:
        """Evaluate `stmts`; on fall-through call continuation `k(env)`."""
        for i, st in enumerate(stmts):
            rest = stmts[i + 1 :]
            if isinstance(st, ast.Return):
                return self._subst(st.value, env, localfns) if st.value is not None else copy.deepcopy(NONE)
            if isinstance(st, ast.Raise):
                exc = self._subst(st.exc, env, localfns) if st.exc is not None else ast.Constant(value="reraise")
                return mk_call("__raise__", exc)
            if isinstance(st, ast.Expr):
                if isinstance(st.value, ast.Constant):
                    continue  # docstring
                v = st.value
                if isinstance(v, ast.Call) and isinstance(v.func, ast.Attribute):
                    self._mark_mutated(v, env)
                continue
            if isinstance(st, ast.Assign):
                val = self._subst(st.value, env, localfns)
                for t in st.targets:
                    self._assign(t, val, env)
                continue
            if isinstance(st, ast.AnnAssign):
                if st.value is not None:
                    self._assign(st.target, self._subst(st.value, env, localfns), env)
                continue
            if isinstance(st, ast.AugAssign):
                if isinstance(st.target, ast.Name):
                    cur = env.get(st.target.id, ast.Name(id=st.target.id, ctx=ast.Load()))
                    new = ast.BinOp(left=copy.deepcopy(cur), op=st.op, right=self._subst(st.value, env, localfns))
                    # `x = self.a.b; x *= 2`: x is an ALIAS of an object reachable from self, and an augmented
                    # assignment updates that object in place (ndarray, list): the value is `x * 2` AND the
                    # shared object has changed.
                    root = cur
                    while isinstance(root, (ast.Attribute, ast.Subscript)):
                        root = root.value
                    if isinstance(cur, (ast.Attribute, ast.Subscript)) and isinstance(root, ast.Name) and root.id == "self":
                        new = mk_call("__inplace_on_shared__", new)
                    env[st.target.id] = new
                else:
                    self._assign(st.target, NONE, env)
                continue
            if isinstance(st, ast.FunctionDef):
                localfns[st.name] = (st, dict(env))
                continue
            if isinstance(st, (ast.Pass, ast.Import, ast.ImportFrom, ast.Assert, ast.Global, ast.Nonlocal)):
                continue
            if isinstance(st, ast.With):
                return self._run(list(st.body) + list(rest), env, localfns, k)
            if isinstance(st, ast.If):
                test = self._subst(st.test, env, localfns)
                if not self._has_exit([st]):
                    # assignment-only conditional: merge environments (no path blow-up)
                    env_b, env_e = dict(env), dict(env)
                    self._run(list(st.body), env_b, dict(localfns), lambda _e: copy.deepcopy(NONE))
                    self._run(list(st.orelse), env_e, dict(localfns), lambda _e: copy.deepcopy(NONE))
                    for key in set(env_b) | set(env_e):
                        vb, ve = env_b.get(key), env_e.get(key)
                        if vb is None or ve is None:
                            env[key] = ast.IfExp(
                                test=copy.deepcopy(test),
                                body=vb if vb is not None else opaque("unbound", ast.Constant(value=key)),
                                orelse=ve if ve is not None else opaque("unbound", ast.Constant(value=key)),
                            )
                        elif u(vb) != u(ve):
                            env[key] = ast.IfExp(test=copy.deepcopy(test), body=vb, orelse=ve)
                        else:
                            env[key] = vb
                    continue
                k2 = lambda e, rest=rest, lf=localfns: self._run(list(rest), e, dict(lf), k)
                rb = self._run(list(st.body), dict(env), dict(localfns), k2)
                re_ = self._run(list(st.orelse), dict(env), dict(localfns), k2)
                return ast.IfExp(test=test, body=rb, orelse=re_)
            if isinstance(st, ast.Try):
                # fall-through of the protected body continues OUTSIDE the try:
                # marked with __endtry__(...) so handlers do not cover it.
                k_after = lambda e, rest=rest, lf=localfns: self._run(list(st.finalbody) + list(rest), e, dict(lf), k)
                # values assigned in the protected body are EVALUATED there (an exception they raise is the handlers'
                # business) although their expression is substituted into the continuation: they ride along as extra
                # arguments of the marker and are evaluated before the try is left
                assigned_in_body = sorted(self._assigned_names(st.body))

                def k_body(e, assigned_in_body=assigned_in_body, outer=env):
                    forced = [copy.deepcopy(e[n]) for n in assigned_in_body if n in e and (n not in outer or u(e[n]) != u(outer[n])) and any(isinstance(x, ast.Call) for x in ast.walk(e[n]))]
                    return mk_call("__endtry__", k_after(e), *forced)

                rb = self._run(list(st.body) + list(st.orelse), dict(env), dict(localfns), k_body)
                handlers = []
                for h in st.handlers:
                    env_h = dict(env)
                    # names assigned in the body before the exception are unknown here
                    for name in self._assigned_names(st.body):
                        if name in env_h or True:
                            env_h[name] = opaque("assigned-in-try", ast.Constant(value=name)) if name not in env else env[name]
                    if h.name:
                        env_h[h.name] = ast.Name(id="__exc__", ctx=ast.Load())
                    rh = self._run(list(h.body), env_h, dict(localfns), k_after)
                    typ = copy.deepcopy(h.type) if h.type is not None else ast.Name(id="BaseException", ctx=ast.Load())
                    handlers.append(ast.Tuple(elts=[typ, rh], ctx=ast.Load()))
                return mk_call("__try__", rb, *handlers)
            if isinstance(st, ast.For):
                acc = self._accumulate_loop(st, env, localfns)
                if acc is not None:
                    name, value = acc
                    env[name] = value
                    continue
                # a SEARCH loop over a literal sequence (`for m in (a, b): if m is not None: return m`): unrolled - one copy of
                # the body per item, the loop variable bound to the item - when the sequence is a display of at most 8 items
                # once the locals are substituted and constants folded (`xs if True else xs[::-1]`)
                if not st.orelse and self._has_exit([st]) and not any(isinstance(x, (ast.Break, ast.Continue)) for x in ast.walk(st)):
                    try:
                        it = fold_consts(self._subst(st.iter, env, localfns))
                    except Exception:
                        it = None
                    if isinstance(it, (ast.Tuple, ast.List)) and len(it.elts) <= 8 and not any(isinstance(x, ast.Starred) for x in it.elts):
                        unrolled: List[ast.stmt] = []
                        for item in it.elts:
                            unrolled.append(ast.Assign(targets=[copy.deepcopy(st.target)], value=item, lineno=getattr(st, "lineno", 0)))
                            unrolled += copy.deepcopy(st.body)
                        ast.fix_missing_locations(ast.Module(body=unrolled, type_ignores=[]))
                        return self._run(unrolled + list(rest), env, localfns, k)
                # a search loop that LEAVES by `break` (`for name in names: value = f(name); if value is not None: break`), its
                # last statement being `if TEST: break` and no other break / continue: iteration k+1 runs under `not TEST_k`
                body_ = list(st.body)
                last = body_[-1] if body_ else None
                if (isinstance(last, ast.If) and len(last.body) == 1 and isinstance(last.body[0], ast.Break) and not last.orelse and not self._has_exit([st])
                        and sum(isinstance(x, (ast.Break, ast.Continue)) for x in ast.walk(st)) == 1):
                    try:
                        it = fold_consts(self._subst(st.iter, env, localfns))
                    except Exception:
                        it = None
                    if isinstance(it, (ast.Tuple, ast.List)) and 0 < len(it.elts) <= 8 and not any(isinstance(x, ast.Starred) for x in it.elts):
                        def nest(items):
                            head = [ast.Assign(targets=[copy.deepcopy(st.target)], value=items[0], lineno=getattr(st, "lineno", 0))] + copy.deepcopy(body_[:-1])
                            if len(items) == 1:
                                # after the last item the loop ends either way (the `else` clause runs only without a break)
                                if st.orelse:
                                    head.append(ast.If(test=ast.UnaryOp(op=ast.Not(), operand=copy.deepcopy(last.test)), body=copy.deepcopy(st.orelse), orelse=[]))
                                return head
                            head.append(ast.If(test=ast.UnaryOp(op=ast.Not(), operand=copy.deepcopy(last.test)), body=nest(items[1:]), orelse=[]))
                            return head

                        unrolled = nest(list(it.elts))
                        ast.fix_missing_locations(ast.Module(body=unrolled, type_ignores=[]))
                        return self._run(unrolled + list(rest), env, localfns, k)
            if isinstance(st, (ast.For, ast.While)):
                for name in self._assigned_names([st]):
                    env[name] = opaque("loop-assigned", ast.Constant(value=name))
                for n in ast.walk(st):
                    if isinstance(n, ast.Call) and isinstance(n.func, ast.Attribute):
                        self._mark_mutated(n, env)
                if self._has_exit([st]):
                    # a return inside a loop: result is not expressible
                    return opaque("return-in-loop")
                continue
            # anything else (Delete, Match ...) : unknown statement
            for name in self._assigned_names([st]):
                env[name] = opaque("stmt", ast.Constant(value=type(st).__name__))
        return k(env)


    # ------------------------------------------------------------------ accumulate loops
    @staticmethod
    def _empty_container(e: ast.expr) -> Optional[str]:
        if isinstance(e, ast.List) and not e.elts:
            return "list"
        if isinstance(e, ast.Dict) and not e.keys:
            return "dict"
        if isinstance(e, ast.Call) and not e.args and not e.keywords:
            f = u(e.func)
            if f == "list":
                return "list"
            if f in ("dict", "collections.OrderedDict", "OrderedDict"):
                return "dict"
            if f == "set":
                return "set"
        return None

    def _accumulate_loop(self, st: ast.For, env, localfns):
        """`out = []; for x in it: [if c: continue] [t = e] out.append(f(x))` is the comprehension
        `[f(x) for x in it if not c]` (likewise set.add, dict stores / setdefault, an if/else of two appends, a
        filtering `if c: out.append(..)`); a second such loop on the same list concatenates.  Returns
        (container name, comprehension) or None when the loop is anything else."""
        if st.orelse:
            return None
        body = list(st.body)
        conds: List[ast.expr] = []
        lenv = dict(env)
        # loop targets shadow outer bindings
        for n in ast.walk(st.target):
            if isinstance(n, ast.Name):
                lenv.pop(n.id, None)

        def sub(e):
            return self._subst(e, lenv, localfns)

        def action(s: ast.stmt):
            """-> (container, kind, elt | (key, value)) for an accumulate statement"""
            if isinstance(s, ast.Expr) and isinstance(s.value, ast.Call) and isinstance(s.value.func, ast.Attribute) and isinstance(s.value.func.value, ast.Name):
                c, meth, args = s.value.func.value.id, s.value.func.attr, s.value.args
                if meth == "append" and len(args) == 1:
                    return c, "list", sub(args[0])
                if meth == "add" and len(args) == 1:
                    return c, "set", sub(args[0])
                if meth == "setdefault" and len(args) in (1, 2):
                    return c, "dict", (sub(args[0]), sub(args[1]) if len(args) == 2 else copy.deepcopy(NONE))
            if isinstance(s, ast.Assign) and len(s.targets) == 1 and isinstance(s.targets[0], ast.Subscript) and isinstance(s.targets[0].value, ast.Name) and not isinstance(s.targets[0].slice, ast.Slice):
                return s.targets[0].value.id, "dict", (sub(s.targets[0].slice), sub(s.value))
            return None

        i = 0
        while i < len(body) - 1:
            s = body[i]
            if isinstance(s, ast.If) and not s.orelse and len(s.body) == 1 and isinstance(s.body[0], ast.Continue):
                conds.append(ast.UnaryOp(op=ast.Not(), operand=sub(s.test)))
            elif isinstance(s, ast.Assign) and len(s.targets) == 1 and isinstance(s.targets[0], ast.Name):
                lenv[s.targets[0].id] = sub(s.value)
            elif isinstance(s, ast.Expr) and isinstance(s.value, ast.Constant):
                pass
            else:
                return None
            i += 1
        last = body[-1]
        elt = None
        if isinstance(last, ast.If) and len(last.body) == 1 and len(last.orelse) <= 1:
            a1 = action(last.body[0])
            if a1 is None:
                return None
            if last.orelse:
                a2 = action(last.orelse[0])
                if a2 is None or a2[0] != a1[0] or a2[1] != a1[1] or a1[1] == "dict":
                    return None
                cont, kind, elt = a1[0], a1[1], ast.IfExp(test=sub(last.test), body=a1[2], orelse=a2[2])
            else:
                conds.append(sub(last.test))
                cont, kind, elt = a1
        else:
            a = action(last)
            if a is None:
                return None
            cont, kind, elt = a
        cur = env.get(cont)
        if cur is None:
            return None
        base_kind = self._empty_container(cur)
        prev = None
        if base_kind is None:
            # a list that an earlier accumulate loop already filled
            if kind == "list" and isinstance(cur, (ast.ListComp, ast.BinOp)):
                prev = cur
            else:
                return None
        elif base_kind != kind:
            return None
        # the container must not be used inside its own loop other than by the accumulate statement
        uses = sum(1 for n in ast.walk(st) if isinstance(n, ast.Name) and n.id == cont)
        if uses != (2 if isinstance(last, ast.If) and last.orelse else 1):
            return None
        gen = ast.comprehension(target=copy.deepcopy(st.target), iter=self._subst(st.iter, env, localfns), ifs=conds, is_async=0)
        if kind == "list":
            comp = ast.ListComp(elt=elt, generators=[gen])
            return cont, (ast.BinOp(left=prev, op=ast.Add(), right=comp) if prev is not None else comp)
        if kind == "set":
            return cont, ast.SetComp(elt=elt, generators=[gen])
        return cont, ast.DictComp(key=elt[0], value=elt[1], generators=[gen])


def _degenerate(fn: ast.FunctionDef) -> List[ast.stmt]:
    """A generator function as the function returning the list of what it yields: `yield e` -> `__gen__.append(e)`,
    `yield from X` -> a loop of appends, `__gen__ = []` first and `return __gen__` last.  Only when every yield is a
    statement of the function itself (not of a nested def) and the function has no `return <value>`."""
    own = []

    def walk(n):
        for c in ast.iter_child_nodes(n):
            if isinstance(c, (ast.FunctionDef, ast.AsyncFunctionDef, ast.Lambda)):
                continue
            own.append(c)
            walk(c)

    walk(fn)
    yields = [n for n in own if isinstance(n, (ast.Yield, ast.YieldFrom))]
    if not yields:
        return fn.body
    stmt_yields = [n for n in own if isinstance(n, ast.Expr) and isinstance(n.value, (ast.Yield, ast.YieldFrom))]
    if len(stmt_yields) != len(yields) or any(isinstance(n, ast.Return) and n.value is not None for n in own):
        return fn.body

    class T(ast.NodeTransformer):
        def visit_FunctionDef(self, n):
            return n

        def visit_Expr(self, n):
            if isinstance(n.value, ast.Yield):
                v = n.value.value if n.value.value is not None else ast.Constant(value=None)
                return ast.Expr(value=ast.Call(func=ast.Attribute(value=ast.Name(id="__gen__", ctx=ast.Load()), attr="append", ctx=ast.Load()), args=[v], keywords=[]))
            if isinstance(n.value, ast.YieldFrom):
                app = ast.Expr(value=ast.Call(func=ast.Attribute(value=ast.Name(id="__gen__", ctx=ast.Load()), attr="append", ctx=ast.Load()), args=[ast.Name(id="__y__", ctx=ast.Load())], keywords=[]))
                return ast.For(target=ast.Name(id="__y__", ctx=ast.Store()), iter=n.value.value, body=[app], orelse=[])
            return n

    body = [T().visit(copy.deepcopy(st)) for st in fn.body]
    init = ast.Assign(targets=[ast.Name(id="__gen__", ctx=ast.Store())], value=ast.List(elts=[], ctx=ast.Load()))
    ret = ast.Return(value=ast.Name(id="__gen__", ctx=ast.Load()))
    out = [init] + body + [ret]
    for st in out:
        ast.fix_missing_locations(st)
    return out


SUMMARIZER = Summarizer()


class _SubstName(ast.NodeTransformer):
    def __init__(self, name: str, value: ast.expr):
        self.name, self.value = name, value

    def visit_Name(self, node: ast.Name):
        if node.id == self.name and isinstance(node.ctx, ast.Load):
            return copy.deepcopy(self.value)
        return node


def _literal_iter(it: ast.expr) -> Optional[List[ast.expr]]:
    if isinstance(it, (ast.Tuple, ast.List)) and len(it.elts) <= 8 and all(isinstance(x, ast.Constant) for x in it.elts):
        return list(it.elts)
    if isinstance(it, ast.Call) and isinstance(it.func, ast.Name) and it.func.id == "range" and len(it.args) == 1 and not it.keywords:
        a = it.args[0]
        if isinstance(a, ast.Constant) and isinstance(a.value, int) and 0 <= a.value <= 8:
            return [ast.Constant(value=k) for k in range(a.value)]
    return None


class _Fold(ast.NodeTransformer):
    """Constant folding of literal container indexing: [a, b][0] -> a; and unrolling of a list
    comprehension over a literal index set: [f(i) for i in (0, 1)] -> [f(0), f(1)]."""

    def visit_JoinedStr(self, node: ast.JoinedStr):
        # f"{'row'}_proportion_variances" (a class constant already substituted) is the literal 'row_proportion_variances'
        self.generic_visit(node)
        parts = []
        for v in node.values:
            if isinstance(v, ast.Constant) and isinstance(v.value, str):
                parts.append(v.value)
            elif isinstance(v, ast.FormattedValue) and v.conversion == -1 and v.format_spec is None and isinstance(v.value, ast.Constant) and isinstance(v.value.value, (str, int)):
                parts.append(str(v.value.value))
            else:
                return node
        return ast.Constant(value="".join(parts))

    def visit_Call(self, node: ast.Call):
        self.generic_visit(node)
        # getattr(x, "name") with a literal name is the attribute read x.name
        if isinstance(node.func, ast.Name) and node.func.id == "getattr" and len(node.args) == 2 and not node.keywords:
            nm = node.args[1]
            if isinstance(nm, ast.Constant) and isinstance(nm.value, str) and nm.value.isidentifier():
                return ast.Attribute(value=node.args[0], attr=nm.value, ctx=ast.Load())
        return node

    @staticmethod
    def _block_elems(it: ast.expr) -> Optional[List[ast.expr]]:
        """A measure's `.blocks` (or SumSubtotals.blocks(...)) is a 2 x 2 nested list: iterating it yields its two rows,
        iterating a row its two blocks."""
        def is_blocks(b):
            if isinstance(b, ast.Attribute) and b.attr in ("blocks", "_blocks"):
                return True
            return isinstance(b, ast.Call) and isinstance(b.func, ast.Attribute) and b.func.attr == "blocks"

        if is_blocks(it):
            return [ast.Subscript(value=copy.deepcopy(it), slice=ast.Constant(value=k), ctx=ast.Load()) for k in (0, 1)]
        if isinstance(it, ast.Subscript) and isinstance(it.slice, ast.Constant) and it.slice.value in (0, 1) and is_blocks(it.value):
            return [ast.Subscript(value=copy.deepcopy(it), slice=ast.Constant(value=k), ctx=ast.Load()) for k in (0, 1)]
        return None

    def _zip_elems(self, it: ast.expr) -> Optional[List[List[ast.expr]]]:
        """zip(A, B, ..) over 2 x 2 block lists / literal lists of equal length -> [[a0, b0, ..], [a1, b1, ..]]"""
        if not (isinstance(it, ast.Call) and isinstance(it.func, ast.Name) and it.func.id == "zip" and it.args and not it.keywords):
            return None
        cols = []
        for a in it.args:
            a = self.visit(copy.deepcopy(a))
            el = self._block_elems(a)
            if el is None and isinstance(a, (ast.List, ast.Tuple)) and not any(isinstance(x, ast.Starred) for x in a.elts):
                el = list(a.elts)
            if el is None:
                return None
            cols.append(el)
        if len({len(c) for c in cols}) != 1:
            return None
        return [list(t) for t in zip(*cols)]

    def visit_ListComp(self, node: ast.ListComp):
        # [f(a, b) for a, b in zip(X.blocks, Y.blocks)] -> [f(X.blocks[0], Y.blocks[0]), f(X.blocks[1], Y.blocks[1])]
        if len(node.generators) == 1 and isinstance(node.generators[0].target, ast.Tuple) and not node.generators[0].ifs and all(isinstance(t, ast.Name) for t in node.generators[0].target.elts):
            g0 = node.generators[0]
            rows = self._zip_elems(g0.iter)
            if rows is not None and all(len(r) == len(g0.target.elts) for r in rows):
                out = []
                for r in rows:
                    elt = copy.deepcopy(node.elt)
                    for t, v in zip(g0.target.elts, r):
                        elt = _SubstName(t.id, v).visit(elt)
                    out.append(self.visit(elt))
                return ast.List(elts=out, ctx=ast.Load())
        # outer generators first, so that an inner `for block in block_row` sees the substituted row
        if len(node.generators) == 1 and isinstance(node.generators[0].target, ast.Name) and not node.generators[0].ifs:
            g0 = node.generators[0]
            it0 = self.visit(copy.deepcopy(g0.iter))
            elems = self._block_elems(it0)
            if elems is not None:
                return ast.List(elts=[self.visit(_SubstName(g0.target.id, v).visit(copy.deepcopy(node.elt))) for v in elems], ctx=ast.Load())
        self.generic_visit(node)
        if len(node.generators) == 1:
            g = node.generators[0]
            vals = _literal_iter(g.iter)
            if vals is not None and isinstance(g.target, ast.Name) and not g.ifs and not g.is_async:
                elts = [self.visit(_SubstName(g.target.id, v).visit(copy.deepcopy(node.elt))) for v in vals]
                return ast.List(elts=elts, ctx=ast.Load())
            # [f(i, j) for i, j in ((0, 0), (1, 0))]: a literal sequence of literal tuples, unpacked into plain names
            if (isinstance(g.iter, (ast.Tuple, ast.List)) and 0 < len(g.iter.elts) <= 8 and isinstance(g.target, (ast.Tuple, ast.List)) and not g.ifs and not g.is_async
                    and all(isinstance(t, ast.Name) for t in g.target.elts)
                    and all(isinstance(x, (ast.Tuple, ast.List)) and len(x.elts) == len(g.target.elts) and not any(isinstance(y, ast.Starred) for y in x.elts) for x in g.iter.elts)):
                out = []
                for x in g.iter.elts:
                    elt = copy.deepcopy(node.elt)
                    for t, v in zip(g.target.elts, x.elts):
                        elt = _SubstName(t.id, copy.deepcopy(v)).visit(elt)
                    out.append(self.visit(elt))
                return ast.List(elts=out, ctx=ast.Load())
        return node

    def visit_Subscript(self, node: ast.Subscript):
        self.generic_visit(node)
        if isinstance(node.value, (ast.List, ast.Tuple)) and isinstance(node.slice, ast.Constant) and isinstance(node.slice.value, int):
            k = node.slice.value
            elts = node.value.elts
            if -len(elts) <= k < len(elts) and not any(isinstance(x, ast.Starred) for x in elts):
                return elts[k]
        return node


def fold(e: ast.expr) -> ast.expr:
    return _Fold().visit(e)


class _FoldConsts(ast.NodeTransformer):
    """Arithmetic / comparisons of integer literals, conditionals on a literal truth value, `slice(None)` -> `:` - what is
    left after a helper taking an axis number (`dim_idx=0`) has been inlined into each of its two callers."""

    @staticmethod
    def _int(n):
        return isinstance(n, ast.Constant) and isinstance(n.value, int) and not isinstance(n.value, bool)

    def visit_BinOp(self, node):
        self.generic_visit(node)
        if self._int(node.left) and self._int(node.right):
            a, b = node.left.value, node.right.value
            if isinstance(node.op, ast.Add):
                return ast.Constant(value=a + b)
            if isinstance(node.op, ast.Sub):
                return ast.Constant(value=a - b)
            if isinstance(node.op, ast.Mult):
                return ast.Constant(value=a * b)
        return node

    def visit_Compare(self, node):
        self.generic_visit(node)
        # members of one enumeration: MO.ROWS == MO.ROWS / MO.ROWS == MO.COLUMNS
        if len(node.ops) == 1 and isinstance(node.ops[0], (ast.Eq, ast.NotEq, ast.Is, ast.IsNot)):
            a, b = node.left, node.comparators[0]
            if (isinstance(a, ast.Attribute) and isinstance(b, ast.Attribute) and isinstance(a.value, ast.Name) and isinstance(b.value, ast.Name)
                    and a.value.id == b.value.id and a.value.id.isupper() and a.attr.isupper() and b.attr.isupper()):
                same = a.attr == b.attr
                return ast.Constant(value=same if isinstance(node.ops[0], (ast.Eq, ast.Is)) else not same)
        # two literals of any kind: `None == 0`, `'rows' == 'rows'`
        if (len(node.ops) == 1 and isinstance(node.left, ast.Constant) and isinstance(node.comparators[0], ast.Constant)
                and isinstance(node.ops[0], (ast.Eq, ast.NotEq, ast.Is, ast.IsNot)) and not (self._int(node.left) and self._int(node.comparators[0]))):
            a, b = node.left.value, node.comparators[0].value
            same = (a is b) if isinstance(node.ops[0], (ast.Is, ast.IsNot)) and (a is None or b is None) else (type(a) is type(b) and a == b)
            return ast.Constant(value=same if isinstance(node.ops[0], (ast.Eq, ast.Is)) else not same)
        if len(node.ops) == 1 and self._int(node.left) and self._int(node.comparators[0]):
            a, b = node.left.value, node.comparators[0].value
            table = {ast.Eq: a == b, ast.NotEq: a != b, ast.Lt: a < b, ast.LtE: a <= b, ast.Gt: a > b, ast.GtE: a >= b}
            if type(node.ops[0]) in table:
                return ast.Constant(value=table[type(node.ops[0])])
        return node

    def visit_UnaryOp(self, node):
        self.generic_visit(node)
        if isinstance(node.op, ast.Not) and isinstance(node.operand, ast.Constant) and isinstance(node.operand.value, bool):
            return ast.Constant(value=not node.operand.value)
        return node

    def visit_BoolOp(self, node):
        self.generic_visit(node)
        # literal booleans among the operands: `True and x` -> x, `False and x` -> False, `x or True` stays (x is evaluated first)
        vals = []
        for v in node.values:
            if isinstance(v, ast.Constant) and isinstance(v.value, bool):
                if isinstance(node.op, ast.And):
                    if v.value:
                        continue  # neutral element
                    if not vals:
                        return ast.Constant(value=False)
                    vals.append(v)
                    break
                else:
                    if not v.value:
                        continue
                    if not vals:
                        return ast.Constant(value=True)
                    vals.append(v)
                    break
            else:
                vals.append(v)
        if not vals:
            return ast.Constant(value=isinstance(node.op, ast.And))
        if len(vals) == 1:
            return vals[0]
        node.values = vals
        return node

    def visit_IfExp(self, node):
        self.generic_visit(node)
        if isinstance(node.test, ast.Constant) and isinstance(node.test.value, bool):
            return node.body if node.test.value else node.orelse
        return node

    def visit_Call(self, node):
        self.generic_visit(node)
        if isinstance(node.func, ast.Name) and node.func.id == "slice" and len(node.args) == 1 and isinstance(node.args[0], ast.Constant) and node.args[0].value is None:
            return ast.Slice()
        # getattr(obj, "name") with a literal name IS the attribute; {..literal dispatch..}.get(key) with a literal key
        if isinstance(node.func, ast.Name) and node.func.id == "getattr" and len(node.args) == 2 and not node.keywords and isinstance(node.args[1], ast.Constant) and isinstance(node.args[1].value, str) and node.args[1].value.isidentifier():
            return ast.Attribute(value=node.args[0], attr=node.args[1].value, ctx=ast.Load())
        return node

    @staticmethod
    def _key(e):
        """a literal dispatch key: a constant, or an enumeration member (MO.ROWS)"""
        if isinstance(e, ast.Constant):
            return ("c", repr(e.value))
        if isinstance(e, ast.Attribute) and isinstance(e.value, ast.Name) and e.value.id.isupper() and e.attr.isupper():
            return ("m", e.value.id, e.attr)
        return None

    def visit_Subscript(self, node):
        self.generic_visit(node)
        # a literal dispatch table subscripted by one of its literal keys: {MO.ROWS: a, MO.COLUMNS: b}[MO.ROWS] -> a
        if isinstance(node.value, ast.Dict) and not isinstance(node.slice, ast.Slice):
            k = self._key(node.slice)
            keys = [self._key(x) if x is not None else None for x in node.value.keys]
            if k is not None and all(x is not None for x in keys) and keys.count(k) == 1:
                return node.value.values[keys.index(k)]
        # a literal tuple / list reversed or sliced by literal bounds: (a, b)[::-1] -> (b, a)
        if isinstance(node.value, (ast.Tuple, ast.List)) and isinstance(node.slice, ast.Slice) and not any(isinstance(x, ast.Starred) for x in node.value.elts):
            def lit(x):
                if x is None:
                    return True, None
                if self._int(x):
                    return True, x.value
                if isinstance(x, ast.UnaryOp) and isinstance(x.op, ast.USub) and self._int(x.operand):
                    return True, -x.operand.value
                return False, None
            oks = [lit(node.slice.lower), lit(node.slice.upper), lit(node.slice.step)]
            if all(o for o, _v in oks):
                elts = node.value.elts[slice(oks[0][1], oks[1][1], oks[2][1])]
                return type(node.value)(elts=list(elts), ctx=ast.Load())
        # a literal tuple / list subscripted by a literal index: (a, b)[0] -> a
        if isinstance(node.value, (ast.Tuple, ast.List)) and self._int(node.slice) and not any(isinstance(x, ast.Starred) for x in node.value.elts):
            i = node.slice.value
            if -len(node.value.elts) <= i < len(node.value.elts):
                return node.value.elts[i]
        return node


def fold_consts(e: ast.expr) -> ast.expr:
    return ast.fix_missing_locations(_FoldConsts().visit(copy.deepcopy(e)))


class Expander(ast.NodeTransformer):
    """Expand `self.X` / `super(..).X` / `self.m(args)` through the MRO of `ctx`.

    `stop(member)` -> True keeps the reference symbolic.  Only members defined in
    the package are expanded; fields assigned in __init__ stay as `self._f`.
    """

    def __init__(
        self,
        repo: Repo,
        ctx: ClassInfo,
        stop: Optional[Callable[[Member], bool]] = None,
        max_depth: int = 12,
        self_name: str = "self",
    ):
        self.repo = repo
        self.ctx = ctx
        self.stop = stop or (lambda m: False)
        self.max_depth = max_depth
        self.self_name = self_name
        self.stack: List[Tuple[str, str]] = []
        self.expanded: List[Member] = []

    def expand_member(self, m: Member, bind: Optional[Dict[str, ast.expr]] = None) -> ast.expr:
        key = (m.cls.qual, m.name)
        if key in self.stack or len(self.stack) >= self.max_depth:
            return opaque("recursion", ast.Constant(value=m.qual))
        self.stack.append(key)
        self.expanded.append(m)
        try:
            body = SUMMARIZER.summarize(m.node, bind)
            return fold(self.visit(body))
        finally:
            self.stack.pop()

    def _is_self(self, e: ast.AST) -> bool:
        return isinstance(e, ast.Name) and e.id == self.self_name

    def _super_after(self, e: ast.AST) -> Optional[ClassInfo]:
        if isinstance(e, ast.Call) and isinstance(e.func, ast.Name) and e.func.id == "super":
            if e.args and isinstance(e.args[0], ast.Name):
                return self.repo.resolve_class(self.ctx.module, e.args[0].id) or self._class_by_name(e.args[0].id)
            # zero-arg super(): the class whose member is on top of the stack
            if self.stack:
                q = self.stack[-1][0]
                for c in self.ctx.mro:
                    if c.qual == q:
                        return c
        return None

    def _class_by_name(self, name: str) -> Optional[ClassInfo]:
        for c in self.ctx.mro:
            if c.name == name:
                return c
        return None

    def visit_Attribute(self, node: ast.Attribute):
        if self._is_self(node.value):
            m = self.repo.lookup(self.ctx, node.attr)
            if m is None:
                # a class-level literal constant (`_share_axis = 0` on the subclass): its value for THIS class
                c = self.repo.const_lookup(self.ctx, node.attr)
                if (isinstance(c, ast.Constant) or (isinstance(c, ast.UnaryOp) and isinstance(c.operand, ast.Constant))) and not self._instance_assigned(node.attr):
                    return copy.deepcopy(c)
            if m is not None and m.kind in ("lazyproperty", "property") and not self.stop(m):
                return self.expand_member(m)
            return node  # (pure aliases are reconciled with the specified names in Ctx.check_expr, which knows both sides)
        after = self._super_after(node.value)
        if after is not None:
            m = self.repo.lookup_after(self.ctx, after, node.attr)
            if m is not None and m.kind in ("lazyproperty", "property") and not self.stop(m):
                return self.expand_member(m)
            return node
        return self.generic_visit(node)

    def visit_Call(self, node: ast.Call):
        f = node.func
        if isinstance(f, ast.Attribute) and (self._is_self(f.value) or (isinstance(f.value, ast.Name) and f.value.id == "cls")):
            m = self.repo.lookup(self.ctx, f.attr)
            if m is not None and m.kind in ("method", "staticmethod", "classmethod") and not self.stop(m):
                args = [self.visit(a) for a in node.args]
                kws = {k.arg: self.visit(k.value) for k in node.keywords if k.arg}
                bind = self._bind(m, args, kws)
                if bind is not None:
                    return self.expand_member(m, bind)
        if isinstance(f, ast.Name):
            # a private helper FUNCTION of the module the calling member lives in (`_nan_skipping_total(values, axis)`):
            # its summary with the arguments bound, like a private helper method
            fm = self._module_function(f.id)
            if fm is not None and not self.stop(fm):
                args = [self.visit(a) for a in node.args]
                kws = {k.arg: self.visit(k.value) for k in node.keywords if k.arg}
                bind = self._bind(fm, args, kws)
                if bind is not None:
                    return self.expand_member(fm, bind)
        return self.generic_visit(node)

    def _module_function(self, name: str) -> Optional[Member]:
        if not name.startswith("_") or name.startswith("__"):
            return None
        owner = self.ctx
        if self.stack:
            q = self.stack[-1][0]
            owner = next((c for c in self.ctx.mro if c.qual == q), self.ctx)
        fn = owner.module.functions.get(name)
        if fn is None or fn.args.vararg or fn.args.kwarg or any(isinstance(n, (ast.Yield, ast.YieldFrom)) for n in ast.walk(fn)):
            return None
        return Member(name=name, cls=owner, node=fn, kind="staticmethod")

    def _instance_assigned(self, attr: str) -> bool:
        """True when some method of the class (or a base) assigns `self.<attr>`: the class-level value is only a default"""
        for c in self.ctx.mro:
            for n in ast.walk(c.node):
                if isinstance(n, (ast.Assign, ast.AnnAssign, ast.AugAssign)):
                    targets = n.targets if isinstance(n, ast.Assign) else [n.target]
                    for t in targets:
                        for x in (t.elts if isinstance(t, (ast.Tuple, ast.List)) else [t]):
                            if isinstance(x, ast.Attribute) and x.attr == attr and isinstance(x.value, ast.Name) and x.value.id == "self":
                                return True
        return False

    @staticmethod
    def _pure_alias(m) -> Optional[str]:
        """name X when the member's whole body is `return self.X` (docstring aside)"""
        body = [st for st in getattr(m.node, "body", []) if not (isinstance(st, ast.Expr) and isinstance(st.value, ast.Constant))]
        if len(body) == 1 and isinstance(body[0], ast.Return) and isinstance(body[0].value, ast.Attribute) and isinstance(body[0].value.value, ast.Name) and body[0].value.value.id == "self":
            return body[0].value.attr
        return None

    @staticmethod
    def _bind(m: Member, args: Sequence[ast.expr], kws: Dict[str, ast.expr]) -> Optional[Dict[str, ast.expr]]:
        params = m.params
        a = m.node.args
        if a.vararg or a.kwarg:
            return None
        bind: Dict[str, ast.expr] = {}
        if len(args) > len(params):
            return None
        for p, v in zip(params, args):
            bind[p] = v
        for k, v in kws.items():
            if k not in params:
                return None
            bind[k] = v
        # defaults
        all_params = [x.arg for x in a.posonlyargs + a.args]
        defaults = dict(zip(all_params[len(all_params) - len(a.defaults) :], a.defaults))
        for p in params:
            if p not in bind:
                if p in defaults:
                    bind[p] = copy.deepcopy(defaults[p])
                else:
                    return None
        return bind


def expand(repo: Repo, ctx: ClassInfo, member_name: str, stop=None, bind=None, max_depth: int = 12) -> ast.expr:
    m = repo.lookup(ctx, member_name)
    if m is None:
        from .loader import AnalysisError

        raise AnalysisError(f"member vanished: {ctx.qual}.{member_name}")
    return Expander(repo, ctx, stop, max_depth).expand_member(m, bind)


class _DistributeAttr(ast.NodeTransformer):
    """`(a if t else b).x` -> `a.x if t else b.x` (also through nested conditionals): the leaves of a selection keep the
    attribute that was applied to the selection as a whole."""

    def visit_Attribute(self, node: ast.Attribute):
        self.generic_visit(node)
        v = node.value
        if isinstance(v, ast.IfExp):
            return self.visit(ast.IfExp(test=v.test, body=ast.Attribute(value=v.body, attr=node.attr, ctx=node.ctx), orelse=ast.Attribute(value=v.orelse, attr=node.attr, ctx=node.ctx)))
        return node


    def visit_Subscript(self, node: ast.Subscript):
        self.generic_visit(node)
        v = node.value
        if isinstance(v, ast.IfExp):
            import copy as _c

            return self.visit(ast.IfExp(test=v.test, body=ast.Subscript(value=v.body, slice=node.slice, ctx=node.ctx), orelse=ast.Subscript(value=v.orelse, slice=_c.deepcopy(node.slice), ctx=node.ctx)))
        return node

    def visit_Call(self, node: ast.Call):
        self.generic_visit(node)
        f = node.func
        if isinstance(f, ast.IfExp):  # (a if t else b).method(args), after the attribute was distributed
            import copy as _c

            return self.visit(ast.IfExp(test=f.test, body=ast.Call(func=f.body, args=node.args, keywords=node.keywords), orelse=ast.Call(func=f.orelse, args=_c.deepcopy(node.args), keywords=_c.deepcopy(node.keywords))))
        return node


def distribute_attr(e: ast.expr) -> ast.expr:
    import copy as _copy

    return _DistributeAttr().visit(_copy.deepcopy(e))


def strip_ifexp_paths(e: ast.expr) -> List[Tuple[List[Tuple[ast.expr, bool]], ast.expr]]:
    """Flatten nested top-level IfExp into [(guards, leaf)] paths."""
    out: List[Tuple[List[Tuple[ast.expr, bool]], ast.expr]] = []

    def rec(x, guards):
        if isinstance(x, ast.IfExp):
            rec(x.body, guards + [(x.test, True)])
            rec(x.orelse, guards + [(x.test, False)])
        else:
            out.append((guards, x))

    rec(e, [])
    return out


def _is_sentinel_leaf(l: ast.expr) -> bool:
    return is_call_to(l, "__raise__") or (isinstance(l, ast.Constant) and l.value is None)


def main_path(e: ast.expr):
    """(guards, leaf) of the path that computes THE value of a summary: raise / None paths are set aside; of the
    others the largest expression (the formula - guard paths return a parameter, a constant array, ...) is taken.
    Independent of the order in which the source tests its guards."""
    paths = strip_ifexp_paths(e)
    cands = [(gs, l) for gs, l in paths if not _is_sentinel_leaf(l)] or paths
    return max(cands, key=lambda p: sum(1 for _ in ast.walk(p[1])))


def main_leaf(e: ast.expr) -> ast.expr:
    return main_path(e)[1]


def side_paths(e: ast.expr):
    """The paths other than the main one."""
    mp = main_path(e)
    return [p for p in strip_ifexp_paths(e) if p[1] is not mp[1]]


def walk_no_lambda(e: ast.AST):
    yield from ast.walk(e)


def contains_opaque(e: ast.AST) -> Optional[str]:
    for n in ast.walk(e):
        if is_call_to(n, "__opaque__"):
            return u(n)
    return None
