"""Which code computes which property's quantities (for the generic lints: a construct that is wrong wherever it stands
is reported under the properties whose measures it is part of, and only under those)."""
from __future__ import annotations

MEASURE_MODULES = ("matrix/measure.py", "stripe/measure.py", "cubepart.py", "measures/pairwise_significance.py")
WORDS = {
    "C03": ("proportion", "percentage"),
    "C11": ("variance", "standarderror", "stderr", "std_err", "std_dev", "stddev", "moe"),
    "C12": ("zscore", "pval", "residual"),
    "C13": ("pairwise",),
    "C14": ("scale", "scaled"),
    "C15": ("share",),
    "C16": ("columnindex", "column_index", "unconditional"),
    "C17": ("population",),
    "C20": ("smooth",),
}


def in_scope(prop: str, short: str, cls: str, member: str) -> bool:
    tag = f"{cls}.{member}".lower()
    if prop in WORDS:
        if prop == "C20" and short == "smoothing.py":
            return True
        if prop == "C16" and short in ("matrix/cubemeasure.py", "cube.py") and ("unconditional" in tag or "counts_with_missings" in tag):
            return True
        if prop == "C11" and "scale" in tag:
            return False  # the scale-mean standard deviation / error are C14's
        if prop == "C11" and short in ("matrix/subtotals.py", "stripe/insertion.py") and ("positiveterm" in tag or "negativeterm" in tag):
            return True  # Np and Nn of the three-term variance
        return short in MEASURE_MODULES + ("matrix/cubemeasure.py", "stripe/cubemeasure.py", "matrix/subtotals.py", "stripe/insertion.py", "cube.py") and any(w in tag for w in WORDS[prop])
    if prop == "C01":
        return short in ("cube.py", "matrix/cubemeasure.py", "stripe/cubemeasure.py") and "unconditional" not in tag
    if prop == "C02":
        return (short in ("matrix/cubemeasure.py", "stripe/cubemeasure.py", "min_base_size_mask.py") and ("base" in tag or "margin" in tag or "mask" in tag)) or (short in MEASURE_MODULES and ("base" in tag or "margin" in tag) and "squared" not in tag)
    if prop == "C04":
        return short in ("matrix/subtotals.py", "stripe/insertion.py") or (short == "dimension.py" and "subtotal" in tag)
    if prop == "C05":
        return short in ("matrix/assembler.py", "stripe/assembler.py", "collator.py") or (short == "cubepart.py" and ("assemble" in tag or "order" in tag or "label" in tag or "_idxs" in tag))
    if prop == "C06":
        return (short == "cube.py" and ("partition" in tag or "cubeset" in tag or "slice" in tag or "inflate" in tag or "augment" in tag)) or (short == "cubepart.py" and "factory" in tag) or (short in ("matrix/cubemeasure.py", "stripe/cubemeasure.py") and ("factory" in tag or "slice_idx" in tag or tag.startswith("cubemeasures.")))
    if prop == "C07":
        return short == "collator.py" and "sortbyvalue" not in tag or (short == "dimension.py" and ("anchor" in tag or "subtotals." in tag or "_orderspec" in tag))
    if prop in ("C08", "C19") and short == "dimension.py" and "_orderspec" in tag:
        return True  # which sort is carried out, and by which (referenced) opposing vector, is read off the order spec
    if prop == "C08":
        return (short == "collator.py" and "sortbyvalue" in tag) or (short in ("matrix/assembler.py", "stripe/assembler.py") and ("sort" in tag or "orderhelper" in tag or "measure" in tag))
    if prop == "C09":
        if short == "cube.py" and "augment" in tag:
            return True  # the padding of a filter cube rewrites the UNWEIGHTED counts the pruning of that cube is decided from
        return (short == "collator.py" and ("hidden" in tag or "display_order" in tag)) or (short in ("matrix/assembler.py", "stripe/assembler.py") and ("prun" in tag or "empty" in tag or "display_order" in tag)) or (short in ("matrix/cubemeasure.py", "stripe/cubemeasure.py") and "prun" in tag) or (short == "dimension.py" and ("hidden" in tag or "prune" in tag or "hide" in tag))
    if prop == "C19":
        return (short == "dimension.py" and ("elementidshim" in tag or "translate" in tag or "_build_element_id" in tag)) or (short in ("matrix/assembler.py", "stripe/assembler.py") and ("_idx" in tag or "orderhelper" in tag))
    if prop == "C18":
        return True
    return False
