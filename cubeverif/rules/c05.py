"""C05 - display transforms only select and reorder; every output stays aligned."""
from __future__ import annotations

import ast
import re
from typing import Dict, List, Optional, Set, Tuple

from ..core import Ctx
from ..symex import SUMMARIZER, expand, strip_ifexp_paths, u
from .common import measure_blocks_reads, slice_measures_obj, strand_measures_obj, transform_reads

CP = "cubepart.py"
ROW_ORD, COL_ORD = "self._row_order_signed_indexes", "self._column_order_signed_indexes"
ASSEMBLERS = ("self._assemble_matrix", "self._assemble_marginal", "self._assemble_vector")
# computations whose result depends on the ORDER of their operand's entries (neighbours / prefixes): applied to a display
# value they see the display neighbours, not the payload ones
ORDER_SENSITIVE = ("np.convolve", "np.cumsum", "np.nancumsum", "np.diff", "np.ediff1d", "np.correlate")
REDUCERS = {"np.sum", "np.nansum", "np.median", "np.mean", "np.nanmean", "np.max", "np.min", "np.prod", "sum", "max", "min", "np.all", "np.any"}


def run(ctx: Ctx):
    ctx.explanation = (
        "Every output of a partition is ONE re-index of pre-assembly blocks by the reported order vectors: the assembly "
        "functions are a single np.ix_/fancy re-index; FLOW non-interference: no blocks/value of any measure object can "
        "depend on hide / prune / order state; coordinate-system typing in cubepart.py: assembly and measure calls take "
        "payload operands only (no double assembly), scalar statistics are not reductions of assembled arrays, payload "
        "sequences are never paired position-wise with display sequences; label/code/alias/fill lists are built from the "
        "dimension of the same orientation as the order vector that indexes them, subtotals after elements; the order "
        "is duplicate-free; insertion-id rendering is the last step."
    )
    ctx.not_decided = ["value equality between two concrete runs"]
    assembly(ctx)
    assemble_vector_table(ctx)
    non_interference(ctx)
    coordinate_typing(ctx)
    order_inputs_payload(ctx)
    # computing an ORDER changes no value: the ordering layer (order helpers, collators) works on the cached blocks of the
    # measures it sorts by and writes to nothing it did not create - a NaN stamped into the sort basis is a NaN in that
    # measure (and in every measure that shares its blocks) for the rest of the partition's life
    from .common import no_shared_writes

    no_shared_writes(ctx, "ordering-writes-nothing", shorts=("matrix/assembler.py", "stripe/assembler.py", "collator.py"))
    display_reductions(ctx)
    pairing(ctx)
    index_space_zip(ctx)
    display_translation(ctx)
    duplicates(ctx)
    from ..orderkit import explicit_order_facts
    from . import c07

    _m = ctx.repo.lookup(ctx.repo.cls("collator.py", "ExplicitOrderCollator"), "_element_order_descriptors")
    if _m is not None:
        _f = explicit_order_facts(_m.node)
        c07.explicit_order_model(ctx, _m, "collator.py::ExplicitOrderCollator._element_order_descriptors", recognised=bool(_f["listed_loop"] and _f["listed_pop_guarded"] and _f["leftovers"]))
    rendering_typestate(ctx)
    shape(ctx)
    from .common import index_space_lints

    index_space_lints(ctx, "index-space.positions", ['cubepart.py', 'collator.py', 'matrix/assembler.py', 'stripe/assembler.py'], words=None)
    from .common import order_index_sign_tests

    order_index_sign_tests(ctx, "order-index-sign")
    from .common import generic_lints

    generic_lints(ctx)
    from .common import position_param_truthiness

    position_param_truthiness(ctx)
    from .common import id_truthiness

    id_truthiness(ctx)
    from .common import transform_pairing_table

    transform_pairing_table(ctx)


# --------------------------------------------------------------------------- 1
def assembly(ctx: Ctx):
    sl = ctx.repo.cls(CP, "_Slice")
    st = ctx.repo.cls(CP, "_Strand")
    b = {"blocks": ast.Name(id="blocks", ctx=ast.Load())}
    e = expand(ctx.repo, sl, "_assemble_matrix", bind=b, stop=lambda m: True)
    ctx.check_expr("single-reindex", f"{CP}::_Slice._assemble_matrix", e, f"np.block(blocks)[np.ix_({ROW_ORD}, {COL_ORD})]", "one re-index of the four blocks by (row order, column order)")
    e = expand(ctx.repo, sl, "_assemble_marginal", bind={"marginal": ast.Name(id="marginal", ctx=ast.Load())}, stop=lambda m: True)
    ctx.check_expr(
        "single-reindex",
        f"{CP}::_Slice._assemble_marginal",
        e,
        f"None if not marginal.is_defined else np.hstack(marginal.blocks)[{ROW_ORD} if marginal.orientation == MO.ROWS else {COL_ORD}]",
        "a ROWS marginal is re-indexed by the row order, a COLUMNS marginal by the column order",
    )
    e = expand(ctx.repo, st, "_assemble_vector", bind=b, stop=lambda m: True)
    ctx.check_expr("single-reindex", f"{CP}::_Strand._assemble_vector", e, f"np.concatenate(blocks)[{ROW_ORD}]")
    for cname, prop, want in (
        ("_Slice", "_row_order_signed_indexes", "_BaseOrderHelper.row_display_order(self._dimensions, self._measures, format=ORDER_FORMAT.SIGNED_INDEXES)"),
        ("_Slice", "_column_order_signed_indexes", "_BaseOrderHelper.column_display_order(self._dimensions, self._measures, format=ORDER_FORMAT.SIGNED_INDEXES)"),
        ("_Strand", "_row_order_signed_indexes", "np.array(stripe_BaseOrderHelper.display_order(self._rows_dimension, self._measures, format=ORDER_FORMAT.SIGNED_INDEXES), dtype=int)"),
    ):
        e = expand(ctx.repo, ctx.repo.cls(CP, cname), prop, stop=lambda m: True)
        ctx.check_expr("order-source", f"{CP}::{cname}.{prop}", e, want, "the order is computed once from the dimension(s) and the measures")
    for cname, meth in (("_Slice", "row_order"), ("_Slice", "column_order"), ("_Strand", "row_order")):
        ci = ctx.repo.cls(CP, cname)
        m = ctx.repo.lookup(ci, meth)
        body = SUMMARIZER.summarize(m.node)
        d = "row" if meth == "row_order" else "column"
        if cname == "_Slice":
            want = f"_BaseOrderHelper.{d}_display_order(self._dimensions, self._measures, format=ORDER_FORMAT.BOGUS_IDS) if format == ORDER_FORMAT.BOGUS_IDS else self._{d}_order_signed_indexes"
        else:
            want = "self._row_order_bogus_ids if format == ORDER_FORMAT.BOGUS_IDS else self._row_order_signed_indexes"
        ctx.check_expr("order-source", f"{CP}::{cname}.{meth}", body, want, "the reported order is the vector every output is indexed with")


def assemble_vector_table(ctx: Ctx):
    """`_Strand._assemble_vector(blocks)` evaluated (DECTAB, vectors as tuples) on model strands: it must return
    concatenate(blocks)[order] for EVERY order - identity, a proper prefix (trailing rows hidden), a permutation, with and
    without inserted rows.  Decides any fast path exactly: one that is taken only when nothing changes holds, one that is
    also taken for a prefix of the payload order returns the hidden rows."""
    from ..dectab import DTop, IndexInterp, Raises

    st = ctx.repo.cls(CP, "_Strand")
    m = ctx.repo.lookup(st, "_assemble_vector")
    where = f"{CP}::_Strand._assemble_vector [table]"
    body = SUMMARIZER.summarize(m.node, {"blocks": ast.Name(id="blocks", ctx=ast.Load())})

    class _V(IndexInterp):
        def ev(self, e):
            if isinstance(e, ast.Subscript) and not isinstance(e.slice, (ast.Slice, ast.Tuple)):
                base = self.ev(e.value)
                idx = self.ev(e.slice)
                if isinstance(base, tuple) and isinstance(idx, (tuple, list)) and all(isinstance(i, int) for i in idx):
                    try:
                        return tuple(base[i] for i in idx)
                    except IndexError:
                        raise Raises("IndexError", u(e)[:60])
            return super().ev(e)

        def _call(self, c, it):
            f = u(c.func)
            if f in ("np.concatenate", "np.hstack"):
                parts = self.ev(c.args[0])
                out = ()
                for p_ in parts:
                    out += tuple(p_)
                return out
            if f == "np.array_equal":
                return tuple(self.ev(c.args[0])) == tuple(self.ev(c.args[1]))
            if f in ("np.array", "np.asarray", "tuple", "list") and c.args:
                return tuple(self.ev(c.args[0]))
            return super()._call(c, it)

    base = (10, 11, 12, 13)
    models = [((), (0, 1, 2, 3)), ((), (0, 1, 2)), ((), (0,)), ((), ()), ((), (3, 2, 1, 0)), ((), (1, 0, 2, 3)), ((), (1, 2, 3)), ((20,), (0, 1, 2, 3, -1)), ((20,), (-1, 0, 1, 2, 3)), ((20,), (0, 1, 2, 3)), ((20, 21), (0, -2, 1, 2, -1, 3))]
    bad, n = [], 0
    try:
        for subs, order in models:
            def atoms(x, subs=subs, order=order):
                t = u(x)
                if t == "blocks":
                    return (base, subs)
                if t in (ROW_ORD, "self._row_order_signed_indexes"):
                    return order
                raise KeyError

            want = tuple((base + subs)[i] for i in order)
            n += 1
            try:
                got = tuple(_V(atoms).ev(body))
            except Raises as r:
                bad.append(f"subtotals {subs} order {order}: raises {r.etype}")
                continue
            if got != want:
                bad.append(f"subtotals {subs} order {order}: {got}, specified {want}")
    except DTop as t:
        ctx.undecided("single-reindex.table", where, "DECTAB: " + str(t), "concatenate(blocks)[order] on model strands")
        return
    ctx.count("assemble-vector models", n)
    ctx.ob("single-reindex.table", where, bad[:3] or f"{n} (subtotals, order) models", "concatenate(blocks)[order] for every order", not bad,
           "rows hidden / pruned at the END of the payload order stay in every value output while the reported order and shape drop them")
    ctx.require_min("assemble-vector models", 11)


# --------------------------------------------------------------------------- 2
def non_interference(ctx: Ctx):
    n = 0
    for coll_obj, label, short in ((slice_measures_obj(ctx), "SecondOrderMeasures", "matrix/measure.py"), (strand_measures_obj(ctx), "StripeMeasures", "stripe/measure.py")):
        for name, m in sorted(coll_obj.cls.members.items()):
            if name.startswith("__"):
                continue
            args = None
            if m.kind == "method":
                from ..flow import BOT

                args = {p: BOT for p in m.params}
            elif m.kind not in ("lazyproperty", "property"):
                continue
            v = ctx.flow.member_val(coll_obj, name, args)
            reads = set(v.reads)
            for o in v.objs:
                for attr in ("blocks", "value", "is_defined", "scale_mean", "scale_median", "scale_stddev", "scale_stderr", "table_base_range", "table_margin_range", "baseline"):
                    if ctx.repo.lookup(o.cls, attr) is not None:
                        reads |= ctx.flow.member_val(o, attr).reads
            tr = transform_reads(reads)
            ctx.ob(
                "non-interference",
                f"{short}::{label}.{name}",
                sorted(tr),
                "[]",
                not tr,
                "a pre-assembly value may not depend on hide / prune / order state: hidden and pruned elements still count in every base and margin",
            )
            n += 1
    ctx.count("measure nodes checked for non-interference", n)
    ctx.require_min("measure nodes checked for non-interference", 85)


# --------------------------------------------------------------------------- 3
def _display_props(ctx: Ctx, ci) -> Set[str]:
    """Names of members of `ci` whose value is in DISPLAY index space (assembled / order-derived)."""
    disp: Set[str] = set()
    changed = True
    members = {n: m for c in reversed(ci.mro) for n, m in c.members.items() if m.kind in ("lazyproperty", "property")}  # the most derived definition wins
    bodies = {n: SUMMARIZER.summarize(m.node) for n, m in members.items()}
    seeds = {"_row_order_signed_indexes", "_column_order_signed_indexes", "_row_order_bogus_ids"}
    disp |= seeds & set(members)
    # plain helper METHODS that hand back an assembled value (`_columns_vector_or_cell_bases(marginal, name)` returning
    # `self._assemble_marginal(marginal)`): a call of one is an assembler call
    methods = {n: m for c in reversed(ci.mro) for n, m in c.members.items() if m.kind in ("method", "staticmethod", "classmethod") and n.startswith("_") and n not in ("_assemble_matrix", "_assemble_vector", "_assemble_marginal")}
    asm_methods: Set[str] = set()
    grew = True
    while grew:
        grew = False
        for n, m in methods.items():
            if n in asm_methods:
                continue
            t = ast.unparse(m.node)
            if any(a + "(" in t for a in ASSEMBLERS) or any(f"self.{x}(" in t for x in asm_methods):
                asm_methods.add(n)
                grew = True
    assemblers_ext = tuple(ASSEMBLERS) + tuple(f"self.{x}" for x in sorted(asm_methods))
    # the public order METHODS hand out the same vectors
    disp |= {n for c in ci.mro for n, m in c.members.items() if n in ("row_order", "column_order") and m.kind == "method"}
    while changed:
        changed = False
        for n, body in bodies.items():
            if n in disp:
                continue
            t = u(body)
            hit = any(a + "(" in t for a in assemblers_ext) or any(f"self.{d}" in _self_reads(body) for d in disp)
            if hit:
                disp.add(n)
                changed = True
    return disp


def _self_reads(e: ast.AST) -> Set[str]:
    return {f"self.{n.attr}" for n in ast.walk(e) if isinstance(n, ast.Attribute) and isinstance(n.value, ast.Name) and n.value.id == "self"}


_SEEN = set()


def coordinate_typing(ctx: Ctx):
    _SEEN.clear()
    for cname in ("_Slice", "_Strand"):
        ci = ctx.repo.cls(CP, cname)
        disp = _display_props(ctx, ci)
        ctx.count("display-typed properties", len(disp))
        n_sites = 0
        all_members = sorted(((n, m) for c in ci.mro for n, m in c.members.items()), key=lambda x: x[0])
        # a private helper METHOD's parameters stand for what its call sites hand it (`_margin_proportion_matrix(self.rows_margin)`):
        # a parameter bound to a display-typed property at a call site is that property inside the helper
        call_args: Dict[str, Dict[str, ast.expr]] = {}
        for _n, cm in all_members:
            for call in ast.walk(cm.node):
                if isinstance(call, ast.Call) and isinstance(call.func, ast.Attribute) and isinstance(call.func.value, ast.Name) and call.func.value.id == "self":
                    hm = ctx.repo.lookup(ci, call.func.attr)
                    if hm is None or hm.kind != "method" or not call.func.attr.startswith("_") or call.func.attr in ("_assemble_matrix", "_assemble_vector", "_assemble_marginal"):
                        continue
                    bound = list(zip(hm.params, call.args)) + [(k.arg, k.value) for k in call.keywords if k.arg]
                    for p_, a in bound:
                        if isinstance(a, ast.Attribute) and isinstance(a.value, ast.Name) and a.value.id == "self" and a.attr in disp:
                            call_args.setdefault(call.func.attr, {}).setdefault(p_, a)
        for name, m in all_members:
            body = SUMMARIZER.summarize(m.node, dict(call_args[name])) if name in call_args else SUMMARIZER.summarize(m.node)
            # (a) payload-only operands of assembly / block construction / measure calls
            for node in ast.walk(body):
                if not isinstance(node, ast.Call):
                    continue
                f = u(node.func)
                payload_ctx = f in ASSEMBLERS or f in ("np.block", "np.hstack", "np.concatenate") and False or f.startswith("SumSubtotals.") or f.startswith("self._measures.") or f.endswith(".smooth") or f in ORDER_SENSITIVE
                if not payload_ctx:
                    continue
                n_sites += 1
                bad = sorted(r for a in list(node.args) + [k.value for k in node.keywords] for r in _self_reads(a) if r[5:] in disp and r not in (ROW_ORD, COL_ORD) or (r in (ROW_ORD, COL_ORD) and f.startswith("SumSubtotals.")))
                # the sanctioned conversion: order[display_idx] -> signed payload index
                bad = [r for r in bad if not _only_as_order_lookup(node, r)]
                # keyed by class, callee and the KIND of assembled operands (rows_/columns_ twins and a shared helper they are
                # moved into are one construct): the known finding D10 stays recognised when the code is relocated
                kinds = sorted({re.sub(r"^self\.(rows_|columns_|row_|column_)", "self.", r) for r in bad})
                where = f"{CP}::{cname} [{f} <- assembled {', '.join(kinds)}]"
                if bad:
                    ctx.violated(
                        "no-double-assembly",
                        where,
                        f"display-space operand(s) {bad} passed to {f}",
                        "assembly, block construction and measure calls take pre-assembly (payload) operands only",
                        "an already ordered/hidden array is assembled or subtotalled again: the result is not the untransformed output re-indexed by the display order",
                    )
            # (b) scalar statistics must not be reductions of assembled arrays
            if m.kind in ("lazyproperty", "property") and not name.startswith("__"):
                for node in ast.walk(body):
                    if isinstance(node, ast.Call) and u(node.func) in REDUCERS:
                        axis = [k for k in node.keywords if k.arg == "axis"]
                        if axis:
                            continue
                        reads = {r for a in node.args for r in _self_reads(a) if r[5:] in disp}
                        key = ("scalar", cname, name)
                        if reads and _is_scalar_property(body, node) and key not in _SEEN:
                            _SEEN.add(key)
                            ctx.violated(
                                "scalar-from-assembled",
                                f"{CP}::{cname}.{name}",
                                f"{u(node.func)}(...) over display-space value(s) {sorted(reads)}",
                                "a scalar statistic is computed from pre-assembly values (it must not change when elements are hidden, pruned or reordered)",
                                "a full reduction of an assembled array drops hidden/pruned elements from the statistic",
                            )
            # (c) elementwise arithmetic never mixes a DISPLAY-ordered array with a PAYLOAD-ordered dimension sequence
            for node in ast.walk(body):
                if isinstance(node, ast.BinOp) and isinstance(node.op, (ast.Mult, ast.Add, ast.Sub, ast.Div)):
                    sl_, sr_ = _array_space(node.left, disp), _array_space(node.right, disp)
                    key = ("mix", cname, name)
                    if {sl_, sr_} == {"D", "P"} and key not in _SEEN:
                        _SEEN.add(key)
                        ctx.violated(
                            "display-payload-arithmetic",
                            f"{CP}::{cname}.{name}",
                            f"{u(node.left)[:70]} [{sl_}]  {type(node.op).__name__}  {u(node.right)[:70]} [{sr_}]",
                            "both operands in one index space (payload sequences are converted by X[display order])",
                            "a payload-ordered dimension sequence is combined element by element with a display-ordered (assembled) array: correct only while the display order is the payload order",
                        )
        ctx.count("payload-context call sites", n_sites)
    ctx.require_min("payload-context call sites", 80)
    ctx.require_min("display-typed properties", 100)


def order_inputs_payload(ctx: Ctx, rule: str = "order-inputs"):
    """What a partition hands to a collator / order helper (empty element positions, values to sort by) is in PAYLOAD
    index space: positions found in an assembled (public) vector are display positions - reordered, with subtotals
    interleaved and hidden / pruned elements already gone - and name other elements."""
    n = 0
    for cname in ("_Slice", "_Strand"):
        ci = ctx.repo.cls(CP, cname)
        disp = _display_props(ctx, ci)
        for name, m in sorted(((n_, m_) for c in ci.mro for n_, m_ in c.members.items()), key=lambda x: x[0]):
            body = SUMMARIZER.summarize(m.node)
            for node in ast.walk(body):
                if not isinstance(node, ast.Call):
                    continue
                f = u(node.func)
                if not ("Collator" in f or "OrderHelper" in f):
                    continue
                n += 1
                bad = sorted({r for a in list(node.args) + [k.value for k in node.keywords] for r in _self_reads(a) if r[5:] in disp})
                where = f"{CP}::{cname}.{name} [{f}]"
                if bad:
                    ctx.violated(rule, where, f"display-space operand(s) {bad} passed to {f}", "payload-space operands (cube-measure / measure values before assembly)",
                                 "positions taken from an assembled vector are display positions: after reordering, hiding, pruning or with subtotals they name other elements")
                else:
                    ctx.held(rule, where, "payload-space operands only", "")
    ctx.count("collator / order-helper call sites in the partition classes", n)
    ctx.require_min("collator / order-helper call sites in the partition classes", 4)


METHOD_REDUCERS = {"sum", "mean", "prod", "max", "min", "cumsum"}


def display_reductions(ctx: Ctx, only=None):
    """A sum / mean / extreme taken over an ASSEMBLED array ranges over the displayed elements only: hidden and pruned ones
    are missing from it and every inserted subtotal is counted on top of its addends.  Applies to the partition classes
    (`self.X`) and to the classes that compute from a partition (`self._slice.X`, also through a local alias)."""
    from ..stmts import resolver

    sl = ctx.repo.cls(CP, "_Slice")
    st = ctx.repo.cls(CP, "_Strand")
    disp_slice = _display_props(ctx, sl)
    targets = []  # (where, fn node, prefix, disp)
    for ci, disp in ((sl, disp_slice), (st, _display_props(ctx, st))):
        for c in ci.mro:
            for name, m in c.members.items():
                targets.append((f"{CP}::{ci.name}.{name}", m.node, "self.", disp))
    PW = "measures/pairwise_significance.py"
    for ci in ctx.repo.module(PW).classes.values():
        for name, m in ci.members.items():
            targets.append((f"{PW}::{ci.name}.{name}", m.node, "self._slice.", disp_slice))
    n, seen = 0, set()
    for where, fn, prefix, disp in targets:
        if not isinstance(fn, (ast.FunctionDef,)):
            continue
        if only is not None and not only(where):
            continue
        res = resolver(fn, multi=True)
        for node in ast.walk(fn):
            if not isinstance(node, ast.Call):
                continue
            f = u(node.func)
            operands = None
            if f in REDUCERS and node.args:
                operands = [node.args[0]]
            elif isinstance(node.func, ast.Attribute) and node.func.attr in METHOD_REDUCERS and not f.startswith("np."):
                operands = [node.func.value]
            if operands is None:
                continue
            # `sum(1 for ...)` counts, it does not add values up
            if isinstance(operands[0], (ast.GeneratorExp, ast.ListComp)) and isinstance(operands[0].elt, ast.Constant):
                continue
            n += 1
            reads = set()
            for a in operands:
              for t in res(a):
                for x in ast.walk(t):
                    if isinstance(x, ast.Attribute) and u(x.value) + "." == prefix and x.attr in disp and x.attr not in ("_row_order_signed_indexes", "_column_order_signed_indexes", "_row_order_bogus_ids"):
                        reads.add(prefix + x.attr)
                    # `slice_ = self._slice` handed over as a parameter-free alias is resolved by `res`; a bare parameter named
                    # slice_ (classmethod helpers) is the partition too
                    if prefix != "self." and isinstance(x, ast.Attribute) and isinstance(x.value, ast.Name) and x.value.id == "slice_" and x.attr in disp:
                        reads.add("slice_." + x.attr)
            if reads and (where, tuple(sorted(reads))) not in seen:
                seen.add((where, tuple(sorted(reads))))
                ctx.violated(
                    "display-reduction",
                    where,
                    f"{f}(...) over assembled value(s) {sorted(reads)}",
                    "totals, counts and moments are taken from the base (pre-assembly) values",
                    "a reduction over displayed elements leaves out hidden / pruned ones and counts inserted subtotals twice: the result changes when an element is hidden",
                )
    ctx.count("reduction sites in partition / pairwise code", n)
    if not seen:
        ctx.held("display-reduction", f"{CP} + {PW}: every sum / mean / extreme", f"{n} reduction sites, none ranges over an assembled array", "")


def _array_space(e: ast.AST, disp: Set[str]) -> Optional[str]:
    """'D' display-ordered (assembled / order-derived), 'P' payload-ordered dimension sequence, None scalar / unknown."""
    if isinstance(e, ast.Attribute):
        if isinstance(e.value, ast.Name) and e.value.id == "self":
            return "D" if e.attr in disp else None
        if e.attr == "T":
            return _array_space(e.value, disp)
        t = u(e)
        if (t.startswith(("self._rows_dimension.", "self._columns_dimension.", "self._dimensions[")) or "_dimension." in t) and e.attr in PAYLOAD_SEQ_ATTRS:
            return "P"
        return None
    if isinstance(e, ast.Subscript):
        base = _array_space(e.value, disp)
        idx_t = u(e.slice)
        if base == "P":
            # the sanctioned conversion payload -> display is a subscript BY the display order itself
            if idx_t in (ROW_ORD, COL_ORD) or idx_t.replace(" ", "") in (f"({ROW_ORD},)", f"({COL_ORD},)"):
                return "D"
            return "P"
        return base
    if isinstance(e, ast.Call):
        f = u(e.func)
        if f in ("np.array", "np.asarray", "np.broadcast_to", "pow", "np.power", "np.abs", "abs", "np.sqrt", "np.nan_to_num") and e.args:
            return _array_space(e.args[0], disp)
        if isinstance(e.func, ast.Attribute) and e.func.attr in ("reshape", "astype", "copy", "flatten", "ravel") :
            return _array_space(e.func.value, disp)
        return None
    if isinstance(e, ast.BinOp):
        a, b = _array_space(e.left, disp), _array_space(e.right, disp)
        if a and b and a != b:
            return a  # the conflict is reported where it arises (inner node)
        return a or b
    if isinstance(e, ast.UnaryOp):
        return _array_space(e.operand, disp)
    return None


def _only_as_order_lookup(call: ast.Call, read: str) -> bool:
    """True if `read` occurs in the call only as `<order>[x]` (display idx -> payload idx conversion)."""
    if read not in (ROW_ORD, COL_ORD):
        return False
    parents = {}
    for n in ast.walk(call):
        for c in ast.iter_child_nodes(n):
            parents[id(c)] = n
    for n in ast.walk(call):
        if isinstance(n, ast.Attribute) and u(n) == read:
            p = parents.get(id(n))
            if not (isinstance(p, ast.Subscript) and p.value is n):
                return False
    return True


def _is_scalar_property(body: ast.expr, red: ast.Call) -> bool:
    """The reduction (without axis) feeds the returned value (not merely a guard)."""
    for _g, leaf in strip_ifexp_paths(body):
        for n in ast.walk(leaf):
            if n is red:
                return True
    return False


# --------------------------------------------------------------------------- 4
def pairing(ctx: Ctx):
    sl = ctx.repo.cls(CP, "_Slice")
    st = ctx.repo.cls(CP, "_Strand")
    specs = [
        ("row_labels", "np.array(self._dimensions[0].element_labels + self._dimensions[0].subtotal_labels)[{R}]"),
        ("row_codes", "np.array(self._dimensions[0].element_ids + self._dimensions[0].insertion_ids)[{R}]"),
        ("row_aliases", "np.array(self._dimensions[0].element_aliases + self._dimensions[0].subtotal_aliases)[{R}]"),
        ("column_labels", "np.array(self._dimensions[1].element_labels + self._dimensions[1].subtotal_labels)[{C}]"),
        ("column_codes", "np.array(self._dimensions[1].element_ids + self._dimensions[1].insertion_ids)[{C}]"),
        ("column_aliases", "np.array(self._dimensions[1].element_aliases + self._dimensions[1].subtotal_aliases)[{C}]"),
    ]
    for prop, want in specs:
        e = expand(ctx.repo, sl, prop, stop=lambda m: True)
        ctx.check_expr("pairing", f"{CP}::_Slice.{prop}", e, want.format(R=ROW_ORD, C=COL_ORD), "elements then subtotals of the dimension of the SAME orientation as the order vector that indexes the list")
        ctx.count("label/code pairings")
    for prop, a, b in (("row_labels", "element_labels", "subtotal_labels"), ("row_codes", "element_ids", "insertion_ids"), ("row_aliases", "element_aliases", "subtotal_aliases")):
        e = expand(ctx.repo, st, prop, stop=lambda m: True)
        ctx.check_expr("pairing", f"{CP}::_Strand.{prop}", e, f"np.array(self._rows_dimension.{a} + self._rows_dimension.{b})[{ROW_ORD}]")
        ctx.count("label/code pairings")
    e = expand(ctx.repo, sl, "_rows_dimension", stop=lambda m: True)
    ctx.check_expr("pairing", f"{CP}::_Slice._rows_dimension", e, "self._dimensions[0]")
    for prop, dim, order in (("_rows_dimension_numeric_values", "self._rows_dimension", ROW_ORD), ("_columns_dimension_numeric_values", "self._dimensions[1]", COL_ORD)):
        e = expand(ctx.repo, sl, prop, stop=lambda m: True)
        ctx.check_expr("pairing", f"{CP}::_Slice.{prop}", e, f"np.array([{dim}.valid_elements[idx].numeric_value if idx >= 0 else np.nan for idx in {order}])")
        ctx.count("label/code pairings")
    e = expand(ctx.repo, sl, "rows_dimension_fills", stop=lambda m: True)
    ctx.check_expr(
        "pairing",
        f"{CP}::_Slice.rows_dimension_fills",
        e,
        f"tuple((self._rows_dimension.valid_elements[idx].fill if idx >= 0 else self._rows_dimension.subtotals[idx + len(self._rows_dimension.subtotals)].fill for idx in {ROW_ORD}))",
        "negative idx k refers to subtotal k + n_subtotals of the same dimension",
    )
    e = expand(ctx.repo, st, "rows_dimension_fills", stop=lambda m: True)
    ctx.check_expr(
        "pairing",
        f"{CP}::_Strand.rows_dimension_fills",
        e,
        f"tuple((tuple((e.fill for e in self._rows_dimension.valid_elements))[idx] if idx > -1 else tuple((st.fill for st in self._rows_dimension.subtotals))[idx + len(tuple((st.fill for st in self._rows_dimension.subtotals)))] for idx in {ROW_ORD}))",
    )
    for prop, dim, order in (("inserted_row_idxs", None, ROW_ORD), ("inserted_column_idxs", None, COL_ORD)):
        e = expand(ctx.repo, sl, prop, stop=lambda m: True)
        v = "row_idx" if "row" in prop else "col_idx"
        ctx.check_expr("pairing", f"{CP}::_Slice.{prop}", e, f"tuple((i for i, {v} in enumerate({order}) if {v} < 0))", "display positions whose signed index is negative")
    e = expand(ctx.repo, st, "inserted_row_idxs", stop=lambda m: True)
    ctx.check_expr("pairing", f"{CP}::_Strand.inserted_row_idxs", e, f"tuple((i for i, row_idx in enumerate({ROW_ORD}) if row_idx < 0))")
    from .common import positional_args

    helpers_found = {}
    for prop, kind, dim, order in (
        ("derived_row_idxs", "derived", "self._rows_dimension", ROW_ORD),
        ("derived_column_idxs", "derived", "self._dimensions[1]", COL_ORD),
        ("diff_row_idxs", "diff", "self._rows_dimension", ROW_ORD),
        ("diff_column_idxs", "diff", "self._dimensions[1]", COL_ORD),
    ):
        e = expand(ctx.repo, sl, prop, stop=lambda m: True)
        where = f"{CP}::_Slice.{prop}"
        ctx.count("label/code pairings")
        # `self.<private helper>(<dimension>, <order>)`, whatever the helper and its parameters are called, keywords bound
        callee = ctx.repo.lookup(sl, e.func.attr) if isinstance(e, ast.Call) and isinstance(e.func, ast.Attribute) and u(e.func.value) == "self" else None
        args = positional_args(ctx, e, callee) if callee is not None else None
        if args is None or len(args) != 2:
            ctx.undecided("pairing", where, u(e)[:120], f"self.<helper>({dim}, {order})")
            continue
        got = [u(a_) for a_ in args]
        ctx.ob("pairing", where, got, [dim, order], got == [dim, order], "dimension and order vector of the same orientation")
        helpers_found.setdefault(kind, callee)
    specs = {
        "diff": ["tuple(np.where(np.array([False] * len(dimension.valid_elements) + [e.is_difference for e in dimension.subtotals])[order])[0])"],
        "derived": [
            "tuple(np.where(np.array([e.derived for e in dimension.valid_elements] + [False] * len(dimension.valid_elements))[order])[0])",
            "tuple(np.where(np.array([e.derived for e in dimension.valid_elements] + [False] * len(dimension.subtotals))[order])[0])",
        ],
    }
    for kind, m in helpers_found.items():
        params = [p_ for p_ in m.params if p_ not in ("self", "cls")]
        b = {params[0]: ast.Name(id="dimension", ctx=ast.Load()), params[1]: ast.Name(id="order", ctx=ast.Load())}
        body = SUMMARIZER.summarize(m.node, b)
        ctx.check_expr("position-renumbering", f"{CP}::_Slice.{m.name}", body, specs[kind],
                       "position-valued outputs are the payload flags (elements, then subtotals) re-indexed by the display order (for derived elements the tail extent is immaterial: a dimension with derived elements has no subtotals)")
    for prop, want in (
        ("derived_row_idxs", f"tuple(np.where(np.array([e.derived for e in self._rows_dimension.valid_elements] + [False] * len(self._rows_dimension.subtotals))[{ROW_ORD}])[0])"),
        ("diff_row_idxs", f"tuple(np.where(np.array([False] * len(self._rows_dimension.valid_elements) + [e.is_difference for e in self._rows_dimension.subtotals])[{ROW_ORD}])[0])"),
    ):
        e = expand(ctx.repo, st, prop, stop=lambda m: True)
        ctx.check_expr("position-renumbering", f"{CP}::_Strand.{prop}", e, want)
    ctx.require_min("label/code pairings", 15)
    # every rows_* public marginal consumes a ROWS marginal, columns_* a COLUMNS one
    som = ctx.repo.cls("matrix/measure.py", "SecondOrderMeasures")
    n = 0
    for name, m in som.members.items():
        body = SUMMARIZER.summarize(m.node)
        if isinstance(body, ast.Call) and len(body.args) >= 4 and u(body.args[3]) in ("MO.ROWS", "MO.COLUMNS"):
            want = "MO.ROWS" if name.startswith("rows_") else "MO.COLUMNS" if (name.startswith("columns_") or name.startswith("smoothed_columns_")) else None
            if want:
                n += 1
                ctx.ob("pairing.orientation", f"matrix/measure.py::SecondOrderMeasures.{name}", u(body.args[3]), want, u(body.args[3]) == want, "a rows_* marginal is constructed with the ROWS orientation")
    ctx.count("marginal orientations", n)
    ctx.require_min("marginal orientations", 16)


# --------------------------------------------------------------------------- 5
PAYLOAD_SEQ_ATTRS = {"subtotals", "valid_elements", "element_ids", "element_labels", "element_aliases", "subtotal_labels", "subtotal_aliases", "insertion_ids", "numeric_values", "all_elements"}


# public outputs that are tuples of DISPLAY positions
DISPLAY_POSITION_ATTRS = {"inserted_row_idxs", "inserted_column_idxs", "diff_row_idxs", "diff_column_idxs", "derived_row_idxs", "derived_column_idxs"}


def index_space_zip(ctx: Ctx, only=None):
    """A sequence of display positions (or a display-ordered sequence) may not be paired position-wise
    (zip) with a payload-ordered dimension sequence, nor subscript one."""
    n = 0
    for cname in ("_Slice", "_Strand"):
        ci = ctx.repo.cls(CP, cname)
        for name, m in sorted(ci.members.items()):
            if only is not None and name not in only:
                continue
            env: Dict[str, str] = {}
            # parameters of a private helper take the space of the arguments at its call sites in the class
            if name.startswith("_") and isinstance(m.node, (ast.FunctionDef,)):
                params = [a.arg for a in m.node.args.args if a.arg not in ("self", "cls")]
                for other in ci.members.values():
                    for c in ast.walk(other.node):
                        if isinstance(c, ast.Call) and isinstance(c.func, ast.Attribute) and c.func.attr == name and isinstance(c.func.value, ast.Name) and c.func.value.id in ("self", "cls"):
                            for p_, a in zip(params, c.args):
                                sp = _space(a, {})
                                if sp:
                                    env[p_] = sp
            # local assignments: name -> space
            for st in ast.walk(m.node):
                if isinstance(st, ast.Assign) and len(st.targets) == 1 and isinstance(st.targets[0], ast.Name):
                    sp = _space(st.value, env)
                    if sp:
                        env[st.targets[0].id] = sp
            for node in ast.walk(m.node):
                if isinstance(node, ast.Call) and isinstance(node.func, ast.Name) and node.func.id == "zip" and len(node.args) >= 2:
                    n += 1
                    spaces = [_space(a, env) for a in node.args]
                    if "D" in spaces and "P" in spaces:
                        ctx.violated(
                            "index-space",
                            f"{CP}::{cname}.{name} [zip]",
                            f"zip({', '.join(u(a)[:50] for a in node.args)}) pairs spaces {spaces}",
                            "position-wise pairing only within one index space (payload OR display); the conversion is X[order]",
                            "a display-ordered sequence is paired with a payload-ordered dimension sequence: correct only while subtotals/elements display in definition order",
                        )
    ctx.count("zip sites in cubepart", n)
    ctx.held("index-space", f"{CP}::_Slice/_Strand zip sites", f"{n} zip call(s), none mixes payload and display sequences", "single index space per zip")


def _space(e: ast.AST, env: Dict[str, str]) -> Optional[str]:
    if isinstance(e, ast.Name):
        if e.id == "order":
            return "D"
        return env.get(e.id)
    if isinstance(e, ast.Attribute):
        t = u(e)
        if t in (ROW_ORD, COL_ORD):
            return "D"
        if t.startswith("self.") and e.attr in DISPLAY_POSITION_ATTRS:
            return "D"
        if e.attr in PAYLOAD_SEQ_ATTRS:
            return "P"
        return None
    if isinstance(e, (ast.GeneratorExp, ast.ListComp)):
        g = e.generators[0]
        it = g.iter
        if isinstance(it, ast.Call) and isinstance(it.func, ast.Name) and it.func.id == "enumerate" and it.args:
            return _space(it.args[0], env)
        return _space(it, env)
    if isinstance(e, ast.Call) and isinstance(e.func, ast.Name) and e.func.id in ("tuple", "list", "enumerate", "iter", "sorted") and e.args:
        return _space(e.args[0], env)
    if isinstance(e, ast.Subscript):
        # X[order] converts payload -> display
        if _space(e.slice, env) == "D":
            return "D"
        return _space(e.value, env) if isinstance(e.slice, ast.Slice) else None
    if isinstance(e, ast.BinOp) and isinstance(e.op, ast.Add):
        a, b = _space(e.left, env), _space(e.right, env)
        return a or b
    return None


def display_translation(ctx: Ctx):
    """A display column index selects a column of UNASSEMBLED blocks only after order[display_idx]."""
    from . import c13

    c13.translation(ctx)


# --------------------------------------------------------------------------- 6
def duplicates(ctx: Ctx):
    ex = ctx.repo.cls("collator.py", "ExplicitOrderCollator")
    m = ctx.repo.lookup(ex, "_element_order_descriptors")
    from ..orderkit import dedupe_idioms, explicit_order_facts

    f = explicit_order_facts(m.node)
    where = "collator.py::ExplicitOrderCollator._element_order_descriptors"
    if f["lookup_without_consumption"]:
        ctx.violated("duplicate-free", where, f["lookup_without_consumption"], "listed ids are consumed from the remaining map", "a repeated id would be listed once per mention")
    else:
        ok = True if (f["listed_pop_guarded"] and f["map_excludes_derived"] and f["leftovers"]) else None
        ctx.ob("duplicate-free", where, {k: v for k, v in f.items() if k in ("map", "listed_pop_guarded", "map_excludes_derived", "leftovers")}, "listed ids are consumed from the remaining map (first mention wins), leftovers follow; derived elements are placed separately", ok)
    # derived (inserted MR) items are positioned by `_derived_element_orderings`; the base descriptors must not emit them
    # as well - at ANY of their emission sites (listed ids AND leftovers)
    from ..orderkit import base_descriptor_emissions

    ems = base_descriptor_emissions(m.node)
    leaks = [e for e in ems if not e["guarded"] and not (e["maps"] and all(v is True for v in e["maps"].values()))]
    definite = [e for e in leaks if e["maps"] and all(v is False for v in e["maps"].values())]
    if definite:
        ctx.violated("duplicate-free.derived", where, [f"{e['emits']} via {e['maps']}" for e in definite], "every emitted (idx, id) comes from the non-derived elements",
                     "a derived item named in the explicit order is emitted as a base element AND positioned as a derived element: it is listed twice")
    else:
        ctx.ob("duplicate-free.derived", where, [f"{e['emits']}: guarded={e['guarded']} maps={e['maps']}" for e in ems][:4], "every emitted (idx, id) comes from the non-derived elements", True if ems and not leaks else None)
    m = ctx.repo.lookup(ex, "_derived_element_orderings")
    body = SUMMARIZER.summarize(m.node)
    from ..exprdiff import alpha

    # bound variables renamed to their binding depth: the filter is `<own element>.derived`, whatever the element is called
    filters = [u(i) for n in ast.walk(alpha(body)) if isinstance(n, ast.comprehension) for i in n.ifs]
    ok = True if any(re.fullmatch(r"_b\d+\.derived", f) for f in filters) else (False if any(re.fullmatch(r"not _b\d+\.derived", f) for f in filters) else None)
    ctx.ob("duplicate-free", "collator.py::ExplicitOrderCollator._derived_element_orderings", ok, True, ok, "exactly the derived elements (those excluded from the base descriptors)")
    po = ctx.repo.cls("collator.py", "PayloadOrderCollator")
    e = expand(ctx.repo, po, "_element_order_descriptors", stop=lambda mm: True)
    ctx.check_expr("duplicate-free", "collator.py::PayloadOrderCollator._element_order_descriptors", e, "tuple(((idx, idx, element_id) for idx, element_id in enumerate(self._element_ids)))", "each element once, at its payload position")
    base = ctx.repo.cls("collator.py", "_BaseAnchoredCollator")
    e = expand(ctx.repo, base, "_derived_element_orderings", stop=lambda mm: True)
    ctx.check_expr("duplicate-free", "collator.py::_BaseAnchoredCollator._derived_element_orderings", e, "tuple()")
    # sort-by-value: fixed lists come from the user (may repeat / overlap): a dedupe idiom is required
    sv = ctx.repo.cls("collator.py", "SortByValueCollator")
    m = ctx.repo.lookup(sv, "_display_order")
    idioms = dedupe_idioms(m.node)
    # a dict / set keyed by the idx itself (a dict used as an ordered set) lists each idx once by construction
    if any(isinstance(n, (ast.DictComp, ast.SetComp)) for n in ast.walk(SUMMARIZER.summarize(m.node))):
        idioms = sorted(set(idioms) | {"keyed-collection"})
    it = ctx.repo.lookup(sv, "_iter_fixed_idxs")
    iter_idioms = dedupe_idioms(it.node) if it is not None else []
    bottom_m = ctx.repo.lookup(sv, "_bottom_fixed_idxs")
    bottom_excl = bottom_m is not None and "_top_fixed_idxs" in ast.unparse(bottom_m.node)
    ok = bool(idioms) or (bool(iter_idioms) and bottom_excl)
    # a violation needs positive evidence: the order is a PLAIN concatenation of the five groups (the fixed lists come
    # from the user and may repeat / overlap) and no de-duplicating idiom is in sight; anything else is undecided
    value = SUMMARIZER.summarize(m.node)
    plain = all(isinstance(n, (ast.BinOp, ast.Attribute, ast.Name, ast.Call, ast.IfExp, ast.Tuple, ast.GeneratorExp, ast.comprehension, ast.Compare, ast.Subscript, ast.Constant, ast.Load, ast.Store, ast.operator, ast.cmpop, ast.expr_context, ast.boolop, ast.unaryop, ast.UnaryOp, ast.BoolOp, ast.keyword, ast.ListComp, ast.List)) for n in ast.walk(value)) and "_top_fixed_idxs" in u(value) and "_bottom_fixed_idxs" in u(value) and "__opaque__" not in u(value)
    ctx.ob(
        "duplicate-free",
        "collator.py::SortByValueCollator._display_order",
        f"de-duplicating idioms on the concatenation: {idioms}; in _iter_fixed_idxs: {iter_idioms}; bottom excludes top: {bottom_excl}",
        "the concatenation top-subtotals + top-fixed + body + bottom-fixed + bottom-subtotals lists every idx at most once even when the fixed lists repeat or overlap",
        True if ok else (False if plain else None),
        "user supplied fixed lists are MaybeDup until consumed through a de-duplicating idiom",
    )
    body_m = ctx.repo.lookup(sv, "_body_idxs")
    from ..stmts import match_any, resolver

    res = resolver(body_m.node)
    filt = [v for n in ast.walk(body_m.node) if isinstance(n, ast.Compare) and len(n.ops) == 1 and isinstance(n.ops[0], (ast.NotIn, ast.In)) for v in res(n)]
    ok, why = match_any(filt, ["i not in frozenset(self._top_fixed_idxs + self._bottom_fixed_idxs)", "i not in set(self._top_fixed_idxs + self._bottom_fixed_idxs)", "i not in self._top_fixed_idxs + self._bottom_fixed_idxs"])
    if ok is False:
        # a membership test over something else is only a violation when it is the same test with one group missing
        ok = False if any(("_top_fixed_idxs" in u(x)) != ("_bottom_fixed_idxs" in u(x)) for x in filt) else None
    ctx.ob("duplicate-free", "collator.py::SortByValueCollator._body_idxs", [u(x)[:90] for x in filt][:3], "i not in frozenset(top fixed + bottom fixed)", ok, why or "the sorted body excludes every fixed element")


# --------------------------------------------------------------------------- 7
def rendering_typestate(ctx: Ctx):
    """Signed -> bogus-id rendering must be the LAST step: after it only tuple/array/return."""
    base = ctx.repo.cls("matrix/assembler.py", "_BaseOrderHelper")
    m = ctx.repo.lookup(base, "_display_order")
    body = SUMMARIZER.summarize(m.node)
    # `self._order` is produced by the collators with `self._format` (possibly BOGUS): comparing its items with 0 is a
    # use after rendering
    def conjuncts(c: ast.expr):
        """Ordered conjuncts of a filter: `a and b` -> [a, b]; `not (a or b)` -> [not a, not b] (short-circuit order kept)."""
        if isinstance(c, ast.BoolOp) and isinstance(c.op, ast.And):
            return [x for v in c.values for x in conjuncts(v)]
        if isinstance(c, ast.UnaryOp) and isinstance(c.op, ast.Not) and isinstance(c.operand, ast.BoolOp) and isinstance(c.operand.op, ast.Or):
            return [x for v in c.operand.values for x in conjuncts(ast.UnaryOp(op=ast.Not(), operand=v))]
        return [c]

    cmp_after = []
    for comp in (n for n in ast.walk(body) if isinstance(n, ast.comprehension)):
        for cond in comp.ifs:
            type_checked = False
            for part in conjuncts(cond):
                t = u(part)
                if t in ("not isinstance(idx, str)", "isinstance(idx, int)", "not isinstance(idx, (str,))"):
                    type_checked = True
                    continue
                cmps = [u(n) for n in ast.walk(part) if isinstance(n, ast.Compare) and u(n.left) == "idx" and any(isinstance(c, ast.Constant) and c.value == 0 for c in n.comparators)]
                if cmps and not type_checked:
                    cmp_after += cmps
    order_fmt = _order_uses_format(ctx)
    where = "matrix/assembler.py::_BaseOrderHelper._display_order"
    if cmp_after and order_fmt:
        ctx.violated(
            "rendering-last",
            where,
            f"items of self._order (rendered with self._format by the collator) are compared: {cmp_after}",
            "the hidden / subtotal filters run on signed indexes; insertion-id rendering is the last step",
            "with ORDER_FORMAT.BOGUS_IDS the items are 'ins_N' strings: `idx >= 0` raises TypeError when subtotals are pruned",
        )
    else:
        ctx.held("rendering-last", where, "no comparison on rendered items", "rendering is the last step")
    for cname in ("_BaseAnchoredCollator", "SortByValueCollator"):
        ci = ctx.repo.cls("collator.py", cname)
        e = expand(ctx.repo, ci, "_display_order", stop=lambda mm: True)
        where = f"collator.py::{cname}._display_order"
        verdict, why = None, "the value is not a conditional on self._format"
        if isinstance(e, ast.IfExp) and "self._format" in u(e.test) and "BOGUS_IDS" in u(e.test):
            neg = isinstance(e.test, ast.Compare) and isinstance(e.test.ops[0], ast.NotEq) or (isinstance(e.test, ast.UnaryOp) and isinstance(e.test.op, ast.Not))
            rendered, signed = (e.orelse, e.body) if neg else (e.body, e.orelse)
            r = rendered
            while isinstance(r, ast.Call) and u(r.func) in ("tuple", "list") and len(r.args) == 1:
                r = r.args[0]
            if isinstance(r, (ast.GeneratorExp, ast.ListComp)) and len(r.generators) == 1:
                g = r.generators[0]
                same_iter = u(g.iter) == u(signed) or u(g.iter) == f"tuple({u(signed)})" or f"tuple({u(g.iter)})" == u(signed)
                if g.ifs:
                    verdict, why = False, f"items are filtered AFTER rendering: {[u(c) for c in g.ifs]}"
                elif same_iter:
                    verdict, why = True, ""
                else:
                    verdict, why = None, "the rendering iterates something other than the signed order of the other branch"
            else:
                verdict, why = None, "the rendered branch is not an elementwise map"
        ctx.ob("rendering-last", where, u(e)[:200], "rendered = elementwise map of the finished signed order", verdict, why or "the id rendering is an elementwise map of the finished (filtered, de-duplicated) signed order - nothing is filtered or reordered after it")


def _order_uses_format(ctx: Ctx) -> bool:
    for cname in ("_RowOrderHelper", "_ColumnOrderHelper", "_BaseSortRowsByValueHelper", "_BaseSortColumnsByValueHelper"):
        ci = ctx.repo.cls("matrix/assembler.py", cname)
        m = ctx.repo.lookup(ci, "_order")
        if "self._format" in ast.unparse(m.node):
            return True
    return False


# --------------------------------------------------------------------------- 8
def shape(ctx: Ctx):
    sl = ctx.repo.cls(CP, "_Slice")
    e = expand(ctx.repo, sl, "shape", stop=lambda m: True)
    ctx.check_expr("shape", f"{CP}::_Slice.shape", e, "self.counts.shape", "extent of an assembled array")
    st = ctx.repo.cls(CP, "_Strand")
    e = expand(ctx.repo, st, "shape", stop=lambda m: m.name != "row_count")
    ctx.check_expr("shape", f"{CP}::_Strand.shape", e, f"(len({ROW_ORD}),)")
    # must-pass-through: the reported extent is READ OFF the display order (or an assembled output), never computed a second
    # time from hidden / pruned counts - two computations agree only while no element is both hidden and pruned, no
    # subtotal is pruned, ...
    for ci in (sl, st):
        disp = _display_props(ctx, ci)
        for name in ("shape", "row_count", "is_empty"):
            if ctx.repo.lookup(ci, name) is None:
                continue
            ctx.ob("shape.from-display", f"{CP}::{ci.name}.{name}", "derived from the display order / an assembled output" if name in disp else "computed apart from the display order",
                   "derived from the display order / an assembled output", name in disp, "each output's extent matches the partition's reported shape")
