"""C02 - bases and margins count exactly the respondents eligible for the denominator."""
from __future__ import annotations

import ast
from typing import Dict, List

from ..axes import source
from ..core import Ctx
from ..specs import layout as L
from ..symex import expand, strip_ifexp_paths, u
from . import layouts as LY
from .blockaxis import derive_block
from .common import (
    DATA_READS,
    U_READS,
    W_READS,
    Q_READS,
    data_labels,
    slice_measures_obj,
    strand_measures_obj,
    measure_blocks_reads,
)

MM = "matrix/measure.py"
PAIRS = [(a, b) for a in L.KINDS for b in L.KINDS]


def run(ctx: Ctx):
    ctx.explanation = (
        "AXIS derives, for every count class chosen by the factories for each of the 9 row x column kind "
        "pairs (and the 3 stripe kinds), the normal form of row/column/table bases and of the 1-D collapsed "
        "forms and compares it with the single eligibility rule written from the property statement; BLOCKS/"
        "AXIS derive the four blocks of every 2-D base measure; FLOW checks weighted/unweighted provenance "
        "of every base, margin, range and mask for all paths through the object graph."
    )
    ctx.not_decided = ["numeric agreement of a base with a respondent-level tabulation of real data"]
    ctx.assumptions = [
        "counts are non-negative",
        "the raw tensor layout of a slice is R[,Rsel],C[,Csel] with sel index 0 = selected (C01 checks the constant that defines it)",
    ]
    from . import c16

    # the unweighted bases count RESPONDENTS: the unweighted counts they are summed from are never a weighted measure
    c16.count_cascade(ctx, "provenance.count-source", "unweighted_counts", ["unweighted_valid_counts", "unweighted_counts"],
                      "unweighted valid counts, else the response's unweighted counts (never a weighted measure)",
                      "an unweighted base is a number of respondents")
    # which data slot a category's respondents are read from: Element.index is the position in the DATA order (a typedef
    # "order" re-arranges the categories first) - else the bases count respondents of other, possibly missing, categories
    from . import c01

    c01.element_index_provenance(ctx)
    layouts_matrix(ctx)
    layouts_stripe(ctx)
    base_blocks(ctx)
    marginals(ctx)
    slice_fallbacks(ctx)
    provenance(ctx)
    mask(ctx)
    ranges(ctx)
    from .common import generic_lints

    generic_lints(ctx)
    from .common import value_any_lint

    # "has subtrahends" is a question about the LENGTH of the index collection: any() / np.any() ask whether some offset is
    # non-zero, and the difference that subtracts the FIRST element alone (offsets [0]) reads as "no subtrahends"
    value_any_lint(ctx, "collection-any", shorts=("matrix/subtotals.py", "stripe/insertion.py"))
    from .common import dependency_footprints

    dependency_footprints(ctx)
    range_collapse(ctx)
    nub_table_base(ctx)
    from .common import rebuild_forwards_settings

    rebuild_forwards_settings(ctx, "rebuild-settings", "cube.py", "Cube", ("mask_size",))
    from .common import lazyproperty_call_form

    # a base / margin attribute built by a property FACTORY shares its cache slot with its siblings (weighted <-> unweighted)
    lazyproperty_call_form(ctx, "cache-key", shorts=("matrix/measure.py", "stripe/measure.py", "matrix/cubemeasure.py", "stripe/cubemeasure.py"))


# --------------------------------------------------------------------------- layouts
def layouts_matrix(ctx: Ctx):
    disp = LY.factory_dispatch(ctx, LY.MCM, "_BaseCubeCounts", PAIRS, lambda t: t == "cube.dimension_types[-2:]")
    for pair in PAIRS:
        picked = disp.get(pair)
        if picked is None:
            ctx.undecided("dispatch", f"{LY.MCM}::_BaseCubeCounts.factory[{pair}]", "no class derived for this kind pair", "a count class for every kind pair")
            continue
        ci, _leaf = picked
        ctx.count("count classes (matrix)")
        leaves = {"self._counts": source("_counts", L.src_roles(*pair))}
        why = f"kind pair rows={pair[0]} cols={pair[1]}: base = respondents eligible for the denominator (uniform eligibility rule)"
        for member, fn in (
            ("row_bases", L.row_bases),
            ("column_bases", L.column_bases),
            ("table_bases", L.table_bases),
            ("rows_base", L.rows_base),
            ("columns_base", L.columns_base),
            ("rows_table_base", L.rows_table_base),
            ("columns_table_base", L.columns_table_base),
            ("table_base", L.table_base),
        ):
            LY.check_layout(ctx, "layout", ci, member, leaves, fn(*pair), why)
            ctx.count("layout obligations")
    ctx.require_min("count classes (matrix)", 9)
    ctx.require_min("layout obligations", 72)


def stripe_dispatch(ctx: Ctx):
    kinds = [("CAT",), ("MR",), ("NUM",)]
    return LY.factory_dispatch(ctx, LY.SCM, "_BaseCubeCounts", kinds, lambda t: False)


def layouts_stripe(ctx: Ctx):
    disp = stripe_dispatch(ctx)
    for (k,), picked in disp.items():
        if picked is None:
            ctx.undecided("dispatch", f"{LY.SCM}::_BaseCubeCounts.factory[{k}]", "no class derived for this kind", "a count class per stripe kind")
            continue
        ci, _ = picked
        ctx.count("count classes (stripe)")
        kind = "ARR" if k == "NUM" else k
        leaves = {"self._counts": source("_counts", L.stripe_roles(kind))}
        for member in ("bases", "table_base"):
            LY.check_layout(ctx, "layout-stripe", ci, member, leaves, L.stripe(kind, member), f"stripe kind {k}")
    ctx.require_min("count classes (stripe)", 3)


# --------------------------------------------------------------------------- base blocks
def _base_block_spec(direction: str, h: str) -> Dict[str, List[str]]:
    if direction == "row":
        b = f"{h}.row_bases"
        sub = f"SumSubRows[out=(R,C) src={b} R:K C:K; diff_rows_nan=T]"
        return {
            "_base_values": [f"out=(R,C) src={b} R:K C:K"],
            "_subtotal_rows": [f"out=(Rins,C) src={sub} Rins:K C:K"],
            "_subtotal_columns": [f"out=(R,Cins) src={b} R:K C:F0", f"out=(R,Cins) src={h}.rows_base R:K"],
            "_intersections": [f"out=(Rins,Cins) src={sub} Rins:K C:F0"],
        }
    if direction == "column":
        b = f"{h}.column_bases"
        sub = f"SumSubCols[out=(R,C) src={b} R:K C:K; diff_cols_nan=T]"
        return {
            "_base_values": [f"out=(R,C) src={b} R:K C:K"],
            "_subtotal_columns": [f"out=(R,Cins) src={sub} R:K Cins:K"],
            "_subtotal_rows": [f"out=(Rins,C) src={b} R:F0 C:K", f"out=(Rins,C) src={h}.columns_base C:K"],
            "_intersections": [f"out=(Rins,Cins) src={sub} R:F0 Cins:K"],
        }
    b = f"{h}.table_bases"
    return {
        "_base_values": [f"out=(R,C) src={b} R:K C:K"],
        "_subtotal_columns": [f"out=(R,Cins) src={b} R:K C:F0"],
        "_subtotal_rows": [f"out=(Rins,C) src={b} R:F0 C:K"],
        "_intersections": [f"out=(Rins,Cins) src={b} R:F0 C:F0"],
    }


BASE_CLASSES = [
    ("_RowWeightedBases", "row", "W"),
    ("_RowUnweightedBases", "row", "U"),
    ("_ColumnWeightedBases", "column", "W"),
    ("_ColumnUnweightedBases", "column", "U"),
    ("_ColumnSquaredBases", "column", "Q"),
    ("_TableWeightedBases", "table", "W"),
    ("_TableUnweightedBases", "table", "U"),
]


def base_blocks(ctx: Ctx):
    for cname, direction, h in BASE_CLASSES:
        ci = ctx.repo.cls(MM, cname)
        spec = _base_block_spec(direction, h)
        # the class must assemble blocks from the four positional members
        e = expand(ctx.repo, ci, "blocks", stop=lambda m: m.name in spec)
        want = "[[self._base_values, self._subtotal_columns], [self._subtotal_rows, self._intersections]]"
        ctx.check_expr("base-blocks.grid", f"{MM}::{cname}.blocks", e, want, "blocks = [[base, inserted columns],[inserted rows, intersections]]")
        for member, accepted in spec.items():
            kind, text = derive_block(ctx, ci, member)
            where = f"{MM}::{cname}.{member}"
            why = (
                f"{direction}-direction base with subtotals: own-direction subtotal block = SumSubtotals of the base with "
                "the own-direction difference flag; opposing-direction block = broadcast of the base vector; "
                "intersections = broadcast of the own-direction subtotal vector"
            )
            ctx.count("base block obligations")
            if kind == "nf":
                norm = text.replace(" (+empty short-cut)", "")
                ctx.ob("base-blocks", where, norm, " | ".join(accepted), norm in accepted, why)
            elif kind == "clash":
                ctx.violated("base-blocks", where, "role clash: " + text, " | ".join(accepted), why)
            else:
                ctx.undecided("base-blocks", where, "AXIS: " + text, " | ".join(accepted))
    ctx.require_min("base block obligations", 28)


# --------------------------------------------------------------------------- 1-D marginals
def _paths(e):
    return [(" and ".join(("" if pol else "not ") + u(g) for g, pol in gs), u(leaf)) for gs, leaf in strip_ifexp_paths(e)]


def marginals(ctx: Ctx):
    SOM = "self._second_order_measures"
    # _MarginWeightedBase / _MarginUnweightedBase: row 0 / column 0 of the matching 2-D base by orientation
    for cname, fam in (("_MarginWeightedBase", "weighted"), ("_MarginUnweightedBase", "unweighted")):
        ci = ctx.repo.cls(MM, cname)
        e = expand(ctx.repo, ci, "blocks", stop=lambda m: m.name in ("is_defined",))
        # strip the `raise if not defined` guard, keep the orientation table
        for gs, leaf in strip_ifexp_paths(e):
            pass
        body = e
        while isinstance(body, ast.IfExp) and (u(body.body).startswith("__raise__") or u(body.orelse).startswith("__raise__")):
            body = body.orelse if u(body.body).startswith("__raise__") else body.body
        want = (
            f"[{SOM}.row_{fam}_bases.blocks[0][0][:, 0], {SOM}.row_{fam}_bases.blocks[1][0][:, 0]] "
            f"if self._orientation == MO.ROWS else "
            f"[{SOM}.column_{fam}_bases.blocks[0][0][0, :], {SOM}.column_{fam}_bases.blocks[0][1][0, :]]"
        )
        ctx.check_expr(
            "marginal-pairing",
            f"{MM}::{cname}.blocks",
            body,
            want,
            "1-D margin = first column (ROWS) / first row (COLUMNS) of the 2-D base of the same direction and weighting; subtotal block from the own-direction inserted block",
        )
        for _o in (0, 1):
            ctx.count("marginal pairings")
    # _MarginSquaredBase (columns only)
    ci = ctx.repo.cls(MM, "_MarginSquaredBase")
    e = expand(ctx.repo, ci, "blocks")
    want = f"[{SOM}.column_squared_bases.blocks[0][0][0, :], {SOM}.column_squared_bases.blocks[0][1][0, :]]"
    ctx.check_expr("marginal-pairing", f"{MM}::_MarginSquaredBase.blocks", e, want)
    # definedness: is_defined of the weighted margin <=> cube base vector exists; unweighted <=> comparable counts defined
    ci = ctx.repo.cls(MM, "_MarginWeightedBase")
    e = expand(ctx.repo, ci, "is_defined")
    want = (
        "(self._cube_measures.weighted_cube_counts.rows_base if self._orientation == MO.ROWS else "
        "self._cube_measures.weighted_cube_counts.columns_base) is not None"
    )
    ctx.check_expr("definedness", f"{MM}::_MarginWeightedBase.is_defined", e, want, "weighted 1-D margin defined iff the cube-level base vector of that orientation exists (layout rule: opposing dimension CAT)")
    for cname, own in (("_ColumnComparableCounts", 1), ("_RowComparableCounts", 0)):
        ci = ctx.repo.cls(MM, cname)
        e = expand(ctx.repo, ci, "is_defined")
        want = f"self._dimensions[{own}].dimension_type not in DT.ARRAY_TYPES"
        ctx.check_expr("definedness", f"{MM}::{cname}.is_defined", e, want,
            "counts are comparable along a direction iff the dimension summed over is not an array")
        # the same clause as a decision table over every dimension type (independent of the spelling)
        from ..typetab import SPEC_ARRAY_TYPES, check_type_predicate

        check_type_predicate(ctx, "definedness.table", f"{MM}::{cname}.is_defined", ci.module, e, f"self._dimensions[{own}].dimension_type",
                             lambda mem: mem not in SPEC_ARRAY_TYPES, "a 1-D margin over the items of ANY array dimension (CA sub-variables, MR, numeric array) is undefined: each item has its own base")
    ci = ctx.repo.cls(MM, "_BaseMarginal")
    e = expand(ctx.repo, ci, "_counts_are_defined")
    want = f"{SOM}.column_comparable_counts.is_defined if self._orientation == MO.ROWS else {SOM}.row_comparable_counts.is_defined"
    ctx.check_expr("definedness", f"{MM}::_BaseMarginal._counts_are_defined", e, want)
    # _MarginTableBase: base values by orientation; subtotals repeat the first value
    ci = ctx.repo.cls(MM, "_MarginTableBase")
    e = expand(ctx.repo, ci, "_base_values")
    want = "self._cube_counts.rows_table_base if self._orientation == MO.ROWS else self._cube_counts.columns_table_base"
    ctx.check_expr("marginal-pairing", f"{MM}::_MarginTableBase._base_values", e, want)
    e = expand(ctx.repo, ci, "_subtotal_shape")
    want = "len(self._dimensions[0].subtotals) if self._orientation == MO.ROWS else len(self._dimensions[1].subtotals)"
    ctx.check_expr("marginal-pairing", f"{MM}::_MarginTableBase._subtotal_shape", e, want, "number of subtotals of the marginal's own dimension")
    ci = ctx.repo.cls(MM, "_TableBase")
    e = expand(ctx.repo, ci, "value", stop=lambda m: m.name == "is_defined")
    ok = any(u(leaf) == "self._cube_counts.table_base" for _g, leaf in strip_ifexp_paths(e))
    ctx.ob("marginal-pairing", f"{MM}::_TableBase.value", u(e), "... self._cube_counts.table_base", ok)
    e = expand(ctx.repo, ci, "is_defined")
    ctx.check_expr("definedness", f"{MM}::_TableBase.is_defined", e, "self._cube_counts.table_base is not None")
    ctx.require_min("marginal pairings", 4)


# --------------------------------------------------------------------------- _Slice fallbacks
def slice_fallbacks(ctx: Ctx):
    ci = ctx.repo.cls("cubepart.py", "_Slice")
    M = "self._measures"
    table = {
        "rows_base": ("rows_unweighted_base", "self.row_unweighted_bases"),
        "columns_base": ("columns_unweighted_base", "self.column_unweighted_bases"),
        "rows_margin": ("rows_weighted_base", "self.row_weighted_bases"),
        "columns_margin": ("columns_weighted_base", "self.column_weighted_bases"),
    }
    stop = lambda m: True
    for prop, (marg, fallback) in table.items():
        e = expand(ctx.repo, ci, prop, stop=stop)
        want = f"{fallback} if not {M}.{marg}.is_defined else self._assemble_marginal({M}.{marg})"
        ctx.check_expr("slice-fallback", f"cubepart.py::_Slice.{prop}", e, want,
            "1-D margin when defined, else the 2-D base of the same direction and weighting")
        ctx.count("slice fallbacks")
    for prop, fam, final in (("table_base", "unweighted", "self.table_unweighted_bases"), ("table_margin", "weighted", "self.table_weighted_bases")):
        e = expand(ctx.repo, ci, prop, stop=stop)
        want = (
            f"{M}.table_{fam}_base.value if {M}.table_{fam}_base.is_defined else "
            f"self._assemble_marginal({M}.columns_table_{fam}_base) if {M}.columns_table_{fam}_base.is_defined else "
            f"self._assemble_marginal({M}.rows_table_{fam}_base) if {M}.rows_table_{fam}_base.is_defined else {final}"
        )
        ctx.check_expr("slice-fallback", f"cubepart.py::_Slice.{prop}", e, want, "scalar, else 1-D, else 2-D table base of the same weighting")
        ctx.count("slice fallbacks")
    for prop, m in (("table_base_range", "table_unweighted_bases_range"), ("table_margin_range", "table_weighted_bases_range")):
        e = expand(ctx.repo, ci, prop, stop=stop)
        ctx.check_expr("slice-fallback", f"cubepart.py::_Slice.{prop}", e, f"{M}.{m}.value")
    ctx.require_min("slice fallbacks", 6)


# --------------------------------------------------------------------------- provenance
def provenance(ctx: Ctx):
    som = slice_measures_obj(ctx)
    exp = {
        "row_unweighted_bases": "U",
        "column_unweighted_bases": "U",
        "table_unweighted_bases": "U",
        "rows_unweighted_base": "U",
        "columns_unweighted_base": "U",
        "rows_table_unweighted_base": "U",
        "columns_table_unweighted_base": "U",
        "table_unweighted_base": "U",
        "table_unweighted_bases_range": "U",
        "unweighted_counts": "U",
        "row_weighted_bases": "W",
        "column_weighted_bases": "W",
        "table_weighted_bases": "W",
        "rows_weighted_base": "W",
        "columns_weighted_base": "W",
        "rows_table_weighted_base": "W",
        "columns_table_weighted_base": "W",
        "table_weighted_base": "W",
        "table_weighted_bases_range": "W",
        "weighted_counts": "W",
        "column_squared_bases": "Q",
        "columns_squared_base": "Q",
    }
    for name, lab in exp.items():
        reads = measure_blocks_reads(ctx, som, name)
        labels = data_labels(reads)
        ctx.ob(
            "provenance",
            f"{MM}::SecondOrderMeasures.{name}",
            "{" + ",".join(sorted(labels)) + "}",
            "{" + lab + "}",
            (labels == {lab}) if labels else None,
            "every data read reachable from this base/margin (through all collaborators and construction sites) must carry this weighting",
        )
        ctx.count("provenance obligations")
    sm = strand_measures_obj(ctx)
    for name, lab in {"unweighted_bases": "U", "unweighted_counts": "U", "weighted_bases": "W", "weighted_counts": "W", "pruning_base": "U"}.items():
        reads = measure_blocks_reads(ctx, sm, name)
        labels = data_labels(reads)
        ctx.ob("provenance", f"stripe/measure.py::StripeMeasures.{name}", "{" + ",".join(sorted(labels)) + "}", "{" + lab + "}", (labels == {lab}) if labels else None)
        ctx.count("provenance obligations")
    ctx.require_min("provenance obligations", 27)


# --------------------------------------------------------------------------- mask
def mask(ctx: Ctx):
    ci = ctx.repo.cls("min_base_size_mask.py", "MinBaseSizeMask")
    for d in ("row", "column", "table"):
        e = expand(ctx.repo, ci, f"{d}_mask")
        want = f"self._slice.{d}_unweighted_bases < self._size"
        alt = f"self._size > self._slice.{d}_unweighted_bases"
        ctx.check_expr("mask", f"min_base_size_mask.py::MinBaseSizeMask.{d}_mask", e, [want], "mask true exactly where the unweighted base of that direction is below the threshold")
        ctx.count("mask obligations")
        # the comparand, whatever the spelling: the threshold is compared with the PER-CELL unweighted bases of that
        # direction (2-D, already assembled with their subtotal blocks).  A collapsed base (a scalar / 1-D margin)
        # has lost its orientation - broadcasting it back is a guess -, a weighted base is a different quantity.
        from ..stmts import reachable_functions, resolver

        per_cell = f"self._slice.{d}_unweighted_bases"
        known_wrong = {f"self._slice.{x}" for x in ("table_base", "rows_base", "columns_base", "table_margin", "rows_margin", "columns_margin", "row_weighted_bases", "column_weighted_bases", "table_weighted_bases")}
        known_wrong |= {f"self._slice.{o}_unweighted_bases" for o in ("row", "column", "table") if o != d}
        cmp_ok, wrong = None, []
        for fn in reachable_functions(ctx.repo, ci, f"{d}_mask"):
            res = resolver(fn, multi=True)
            for n in ast.walk(fn):
                if isinstance(n, ast.Compare) and len(n.ops) == 1 and isinstance(n.ops[0], (ast.Lt, ast.Gt, ast.LtE, ast.GtE)) and "self._size" in (u(n.left), u(n.comparators[0])):
                    other = n.comparators[0] if u(n.left) == "self._size" else n.left
                    for v in res(other):
                        srcs = {u(x) for x in ast.walk(v) if isinstance(x, ast.Attribute) and u(x).startswith("self._slice.")}
                        if per_cell in srcs:
                            cmp_ok = True
                        bad = sorted(s_ for s_ in srcs if s_ in known_wrong)
                        if bad:
                            wrong += bad
        where = f"min_base_size_mask.py::MinBaseSizeMask.{d}_mask [comparand]"
        if wrong:
            ctx.violated("mask.comparand", where, sorted(set(wrong)), per_cell, "the mask must be true exactly where the per-cell unweighted base of that direction is below the threshold")
        else:
            ctx.ob("mask.comparand", where, per_cell if cmp_ok else "no comparison of a slice base with the threshold recognised", per_cell, cmp_ok)
    sl = ctx.repo.cls("cubepart.py", "_Slice")
    e = expand(ctx.repo, sl, "min_base_size_mask", stop=lambda m: True)
    ctx.check_expr("mask", "cubepart.py::_Slice.min_base_size_mask", e, "MinBaseSizeMask(self, self._mask_size)")
    st = ctx.repo.cls("cubepart.py", "_Strand")
    e = expand(ctx.repo, st, "min_base_size_mask", stop=lambda m: True)
    ctx.check_expr("mask", "cubepart.py::_Strand.min_base_size_mask", e, "self.unweighted_bases < self._mask_size")
    # the cube passes min_base as mask_size
    ctx.require_min("mask obligations", 3)


# --------------------------------------------------------------------------- ranges
def ranges(ctx: Ctx):
    ci = ctx.repo.cls(MM, "_TableBasesRange")
    e = expand(ctx.repo, ci, "value")
    want = "np.array([np.min(self._cube_counts.table_bases), np.max(self._cube_counts.table_bases)])"
    ctx.check_expr("range", f"{MM}::_TableBasesRange.value", e, want, "[min, max] of the cube-level (pre-assembly, unpruned) table bases")
    for cname, prop in (("_UnweightedBases", "table_base_range"), ("_WeightedBases", "table_margin_range")):
        ci = ctx.repo.cls("stripe/measure.py", cname)
        e = expand(ctx.repo, ci, prop)
        h = "unweighted" if cname == "_UnweightedBases" else "weighted"
        want = f"np.array([np.min(self._cube_measures.{h}_cube_counts.bases), np.max(self._cube_measures.{h}_cube_counts.bases)])"
        ctx.check_expr("range", f"stripe/measure.py::{cname}.{prop}", e, want)


def range_collapse(ctx: Ctx):
    """`table_base_range` / `table_margin_range` (and the matrix *_bases_range) are the EXACT minimum and maximum of the
    per-row (per-cell) bases: the reduction runs over the bases themselves.  A boolean filter applied first (`bases[bases
    > 0]`, `bases[~np.isnan(bases)]`) reports the range of a subset - an item nobody was asked has base 0 and is part
    of the collapse."""
    from ..stmts import reachable_functions, resolver

    targets = [("stripe/measure.py", "_UnweightedBases", "table_base_range"), ("stripe/measure.py", "_WeightedBases", "table_margin_range"),
               ("matrix/measure.py", "_TableBasesRange", "value")]
    n = 0
    for short, cname, member in targets:
        try:
            ci = ctx.repo.cls(short, cname)
        except Exception:
            continue
        if ctx.repo.lookup(ci, member) is None:
            continue
        where = f"{short}::{cname}.{member}"
        filtered, reductions = [], 0
        for fn in reachable_functions(ctx.repo, ci, member):
            res = resolver(fn, multi=True)
            for c in ast.walk(fn):
                if isinstance(c, ast.Call) and u(c.func) in ("np.min", "np.max", "np.nanmin", "np.nanmax", "min", "max") and c.args:
                    reductions += 1
                    for v in res(c.args[0]):
                        for sub in ast.walk(v):
                            if isinstance(sub, ast.Subscript) and any(isinstance(x, (ast.Compare,)) or (isinstance(x, ast.UnaryOp) and isinstance(x.op, ast.Invert)) for x in ast.walk(sub.slice)):
                                filtered.append(u(sub)[:70])
        n += 1
        if filtered:
            ctx.violated("range.exact", where, sorted(set(filtered)), "min / max over ALL the bases", "the range of a filtered subset is not the collapse of the per-row bases")
        else:
            ctx.ob("range.exact", where, f"{reductions} min/max reductions, none over a filtered subset", "min / max over all the bases", True if reductions else None)
    ctx.count("base ranges checked", n)


def nub_table_base(ctx: Ctx):
    """The 0-D partition of a numeric-measure response (a mean and nothing else) reports a table base as well: the number of
    respondents behind the mean (the response's unweighted count), not the mean."""
    ci = ctx.repo.cls("scalar.py", "MeansScalar")
    where = "scalar.py::MeansScalar.table_base"
    if ctx.repo.lookup(ci, "table_base") is None:
        ctx.undecided("nub-table-base", where, "member not found", "the unweighted count")
        return
    e = expand(ctx.repo, ci, "table_base")
    reads = sorted({n.attr for n in ast.walk(e) if isinstance(n, ast.Attribute) and isinstance(n.value, ast.Name) and n.value.id == "self"})
    if "_means" in reads and "_unweighted_counts" not in reads:
        ctx.violated("nub-table-base", where, f"{u(e)}: the table base of the 0-D partition IS the mean", "derived from self._unweighted_counts",
                     "table_base of a 0-D mean cube is 49.095 (the mean) where 1000 respondents were counted")
    elif "_unweighted_counts" in reads and "_means" not in reads:
        ctx.held("nub-table-base", where, u(e), "derived from the unweighted count")
    else:
        ctx.undecided("nub-table-base", where, u(e)[:100], "derived from self._unweighted_counts")
