"""C01 - cell values are faithful tabulations of the survey behind the response."""
from __future__ import annotations

import ast
from typing import List

from ..axes import source
from ..core import Ctx
from ..loader import AnalysisError
from ..specs import layout as L
from ..symex import SUMMARIZER, expand, strip_ifexp_paths, u
from . import layouts as LY
from .common import data_labels, measure_blocks_reads, slice_measures_obj, strand_measures_obj

PAIRS = [(a, b) for a in L.KINDS for b in L.KINDS]
MRPAIRS = [("CAT", "CAT"), ("CAT", "MR"), ("MR", "CAT"), ("MR", "MR")]

ARRAY_ACCESSORS = [
    "counts", "covariance", "means", "medians", "overlaps", "stddev", "sums", "unweighted_counts",
    "unweighted_valid_counts", "valid_counts_summary_range", "valid_overlaps", "weighted_counts",
    "weighted_valid_counts", "weighted_squared_counts",
]


def run(ctx: Ctx):
    ctx.explanation = (
        "Must-pass-through of the valid-element index grid on every array accessor of Cube; sibling agreement of "
        "the {'?':..}->NaN conversion over all numeric measure classes; AXIS derivation of the selected-plane "
        "extraction of every count / mean / median / std-dev / sum class chosen by the factories for every kind "
        "pair (2-D and 1-D); FLOW provenance of the public count and numeric measures."
    )
    ctx.not_decided = ["equality of the server's tensor with a respondent-level tabulation (the response is taken as given)"]
    ctx.assumptions = ["element ids are distinct within a dimension"]
    valid_index_selection(ctx)
    valid_idxs_table(ctx)
    valid_idxs_single_mesh(ctx)
    count_sources(ctx)
    exact_measure_selection(ctx)
    response_edits(ctx)
    valid_elements_chain(ctx)
    nan_mapping(ctx)
    measure_presence(ctx)
    reshape(ctx)
    axis_order(ctx)
    extraction(ctx)
    wiring(ctx)
    from .common import generic_lints

    generic_lints(ctx)
    from .common import shared_cache_slots

    shared_cache_slots(ctx, "public-alias.cache-slot", "cubepart.py", "_Slice", ("weighted_counts", "counts", "unweighted_counts", "means", "sums"))
    from .common import dependency_footprints

    dependency_footprints(ctx)
    from .common import float64_extractors

    float64_extractors(ctx)
    from .common import no_shared_writes

    # the payload arrays (Cube.counts / .means / ...) are cached and handed out by reference: the layers that receive them
    # - the cube-measure classes and the smoother - write to nothing they did not create ("Owned" = the response copy
    # that Cube itself made and pads before anything is read from it)
    no_shared_writes(ctx, "payload-not-written", shorts=("cube.py", "matrix/cubemeasure.py", "stripe/cubemeasure.py", "smoothing.py"), accept=("Fresh", "Self", "Owned"))
    # ... and the layers above them write to nothing that COMES FROM the cube-measure layer or the cube: those arrays are
    # the payload arrays themselves or views of them (`sums[:, 0]`), cached for every later reader
    from .common import MEASURE_CODE

    no_shared_writes(ctx, "payload-not-written.upper-layers", shorts=tuple(MEASURE_CODE) + ("cubepart.py", "min_base_size_mask.py", "measures/pairwise_significance.py", "scalar.py"),
                     accept=("Fresh", "Self", "Owned"), origin_words=("_cube_measures.", "self._cube.", "cube_measures.", "cube."))
    # the 0-D partition hands out the mean as it is: no truth test of the stored values (a mean of exactly 0.0 is a mean)
    from .common import data_field_truthiness

    data_field_truthiness(ctx, "value-truthiness", "scalar.py", "MeansScalar")
    data_field_truthiness(ctx, "value-truthiness", "cubepart.py", "_Nub", value_exprs=("self._cube.means", "self._scalar.means", "self._cube.unweighted_counts", "self._scalar.table_base"))


# --------------------------------------------------------------------------- 1
def valid_index_selection(ctx: Ctx):
    cube = ctx.repo.cls("cube.py", "Cube")
    n_ok = 0
    for name in ARRAY_ACCESSORS:
        m = ctx.repo.lookup(cube, name)
        if m is None:
            raise AnalysisError(f"Cube accessor vanished: {name}")
        body = SUMMARIZER.summarize(m.node)
        raws = []
        parents = {}
        for n in ast.walk(body):
            for c in ast.iter_child_nodes(n):
                parents[id(c)] = n
        for n in ast.walk(body):
            if (isinstance(n, ast.Attribute) and n.attr == "raw_cube_array") or u(n) == "self.counts_with_missings":
                raws.append(n)
        bad = []
        for r in raws:
            p = parents.get(id(r))
            if isinstance(p, ast.Subscript) and p.value is r and u(p.slice) == "self._valid_idxs":
                continue
            # `X.raw_cube_array is None` style tests do not deliver data
            if isinstance(p, ast.Compare):
                continue
            bad.append(u(p) if p is not None else u(r))
        where = f"cube.py::Cube.{name}"
        if not raws:
            ctx.undecided("valid-idxs", where, "no raw array read found in accessor", "raw_cube_array[self._valid_idxs]")
            continue
        ctx.ob(
            "valid-idxs",
            where,
            "; ".join(bad) if bad else f"{len(raws)} raw read(s), each indexed by self._valid_idxs",
            "every raw measure array is indexed by the valid-element grid before it is returned",
            not bad,
            "categories flagged missing never appear and never contribute",
        )
        n_ok += 1
        ctx.count("Cube accessors indexing with _valid_idxs")
    ctx.require_min("Cube accessors indexing with _valid_idxs", 14)
    # the one exemption
    from ..symex import distribute_attr

    # private helper properties of Cube that merely SELECT the measure object are inlined (`self._counts_measure.raw_cube_array`)
    e = distribute_attr(expand(ctx.repo, cube, "counts_with_missings", stop=lambda m: not (m.name.startswith("_") and m.name not in ("_measures", "_valid_idxs", "_all_dimensions", "_cube_response"))))
    leaves = [u(l) for _g, l in strip_ifexp_paths(e)]
    # positive evidence only: a leaf that passes the valid-element grid has lost the missing elements
    ok = True if leaves and all(l.endswith(".raw_cube_array") for l in leaves) else (False if any("_valid_idxs" in l for l in leaves) else None)
    ctx.ob("valid-idxs.exempt", "cube.py::Cube.counts_with_missings", leaves, "raw arrays only (the single accessor that keeps missing elements, needed by C16)", ok)
    # _valid_idxs itself
    e = expand(ctx.repo, cube, "_valid_idxs", stop=lambda m: True)
    ctx.check_expr(
        "valid-idxs.grid",
        "cube.py::Cube._valid_idxs",
        e,
        "tuple((np.ix_(*tuple((d.valid_elements.element_idxs for d in self._all_dimensions)))[i] for i in self._all_dimensions.dimension_order))",
        "np.ix_ grid over the valid element offsets of ALL dimensions, permuted by dimension_order",
    )
    dims = ctx.repo.cls("dimension.py", "Dimensions")
    e = expand(ctx.repo, dims, "shape", stop=lambda m: True)
    ctx.check_expr(
        "valid-idxs.shape-agreement",
        "dimension.py::Dimensions.shape",
        e,
        "tuple((d.shape for d in [self[i] for i in self.dimension_order]))",
        "the reshape of the flat data uses the same dimension_order as the index grid (writer/reader agreement)",
    )


def response_edits(ctx: Ctx):
    """The two methods of Cube that EDIT a response (pad a single-column filter cube, give a numeric summary a rows
    dimension) must keep every count with its row and keep the weighted and the unweighted counts apart:
    * a payload list that is stored back (`result.counts`, `measures.count.data`) is derived from ITS OWN previous content -
      a store of `measures.count.data` in a function that never reads it replaces the weighted counts by something else;
    * no zip pairs a FILTERED sequence with a whole payload list (positions of the non-missing rows with all the counts)."""
    from .. import indexspace as IS
    from ..stmts import reachable_functions

    if IS.zip_self_check() != (1, 0):
        raise AnalysisError("zip-filter lint: the positive control is no longer recognised")
    ctl = ast.parse("def f(els, vs, cs, n):\n    m = {i['value']: i['id'] for i in els}\n    data = [0] * n\n    for v, c in zip(vs, cs):\n        data[m[v]] = c\n    return data\ndef g(els, vs, cs, n):\n    m = {i['value']: k for k, i in enumerate(els)}\n    data = [0] * n\n    for v, c in zip(vs, cs):\n        data[m[v]] = c\n    return data\n")
    if len(_ids_used_as_positions([ctl.body[0]])) != 1 or _ids_used_as_positions([ctl.body[1]]):
        raise AnalysisError("response-edit.positions: the controls are no longer recognised")
    cube = ctx.repo.cls("cube.py", "Cube")
    for meth in ("augment_response", "inflate"):
        if ctx.repo.lookup(cube, meth) is None:
            continue
        fns = reachable_functions(ctx.repo, cube, meth)
        where = f"cube.py::Cube.{meth}"
        stores, loads = set(), set()
        for fn in fns:
            for n in ast.walk(fn):
                if isinstance(n, ast.Subscript) and isinstance(n.slice, ast.Constant) and n.slice.value in ("counts", "data"):
                    key = u(n)[u(n).index("["):] if "[" in u(n) else u(n)
                    key = key[key.index("['result']"):] if "['result']" in key else key
                    (stores if isinstance(n.ctx, ast.Store) else loads).add(key)
        lost = sorted(k for k in stores if k not in loads)
        ctx.ob("response-edit.sources", where, lost or f"stored payload lists {sorted(stores)} are each read in the same edit", "every payload list stored back is derived from its own content", not lost,
               "a filter cube's WEIGHTED counts (measures.count.data) overwritten by the padded unweighted counts: the weighted partition reports unweighted numbers")
        # the slot a count is written to is a POSITION in the payload: taken from the enumeration of the elements, never an
        # element's "id" (ids are names - a missing element carries -1 wherever it stands, categories carry arbitrary codes)
        ids_as_pos = _ids_used_as_positions(fns)
        ctx.ob("response-edit.positions", where, ids_as_pos[:2] or "no list slot addressed by an element id", "payload slots are addressed by position (enumeration of the elements)", not ids_as_pos,
               "an element whose id differs from its position (a missing element with id -1 in the middle) shifts every later count onto another row")
        hits = [t for fn in fns for _l, t in IS.zip_filter_mismatch(fn)]
        ctx.ob("response-edit.pairing", where, hits or "no zip of a filtered sequence with a whole payload list", "each count is paired with the element it belongs to", not hits,
               "a missing element that is not the last one shifts every later count onto another row")


def _is_id_read(e: ast.AST) -> bool:
    return (isinstance(e, ast.Subscript) and isinstance(e.slice, ast.Constant) and e.slice.value == "id") or (
        isinstance(e, ast.Call) and isinstance(e.func, ast.Attribute) and e.func.attr == "get" and e.args and isinstance(e.args[0], ast.Constant) and e.args[0].value == "id")


def _ids_used_as_positions(fns) -> list:
    """Stores `lst[<index>] = ...` into a LIST (a name bound to `[x] * n` / a list display / list(...)) whose index is, or
    is looked up in a mapping whose values are, an element's "id"."""
    out = []
    # mappings {key: item["id"] ...} and lists, by name, over all the functions of the edit (closures see the outer names)
    id_maps, lists = set(), set()
    for fn in fns:
        for n in ast.walk(fn):
            if isinstance(n, ast.Assign) and len(n.targets) == 1 and isinstance(n.targets[0], ast.Name):
                v, name = n.value, n.targets[0].id
                if isinstance(v, ast.DictComp) and _is_id_read(v.value):
                    id_maps.add(name)
                if isinstance(v, ast.Dict) and v.values and all(_is_id_read(x) for x in v.values):
                    id_maps.add(name)
                if (isinstance(v, ast.BinOp) and isinstance(v.op, ast.Mult) and isinstance(v.left, ast.List)) or isinstance(v, (ast.List, ast.ListComp)) or (isinstance(v, ast.Call) and u(v.func) == "list"):
                    lists.add(name)
    for fn in fns:
        for n in ast.walk(fn):
            if isinstance(n, ast.Subscript) and isinstance(n.ctx, ast.Store) and isinstance(n.value, ast.Name) and n.value.id in lists:
                idx = n.slice
                via_map = isinstance(idx, ast.Subscript) and isinstance(idx.value, ast.Name) and idx.value.id in id_maps
                via_get = isinstance(idx, ast.Call) and isinstance(idx.func, ast.Attribute) and idx.func.attr == "get" and isinstance(idx.func.value, ast.Name) and idx.func.value.id in id_maps
                if _is_id_read(idx) or via_map or via_get:
                    out.append(f"{u(n)[:70]} (slot taken from an element id)")
    return out


def count_sources(ctx: Ctx):
    """Which count measure each Cube accessor hands out, decided over the measures the response carries: the UNWEIGHTED counts
    are the unweighted valid counts when present, else `result.counts` - never a weighted measure, whatever helper picks
    it; the (weighted) counts follow weighted valid > unweighted valid > weighted > unweighted."""
    from . import c16

    c16.count_cascade(ctx, "count-source", "unweighted_counts", ["unweighted_valid_counts", "unweighted_counts"],
                      "unweighted valid counts, else the response's unweighted counts (never a weighted measure)",
                      "the unweighted count of a cell is the NUMBER of respondents in it")
    c16.count_cascade(ctx, "count-source", "counts_with_missings", ["weighted_valid_counts", "unweighted_valid_counts", "weighted_counts", "unweighted_counts"],
                      "weighted valid > unweighted valid > weighted > unweighted counts", "the counts a cube reports are its weighted counts when it is weighted")


def valid_idxs_single_mesh(ctx: Ctx):
    """The valid-element selection is ONE open mesh over ALL dimensions (`np.ix_` of every dimension's offsets): every item of
    the index tuple is then an index array, and numpy keeps the axes where they are.  An index tuple that mixes BASIC SLICES
    with index arrays follows another rule: index arrays separated by a slice are broadcast together and their axes are
    moved to the FRONT of the result - a 3-D cube whose table and columns dimensions need an array while the rows
    dimension gets a slice comes out as (table, columns, rows)."""
    from ..stmts import reachable_functions

    cube = ctx.repo.cls("cube.py", "Cube")
    where = "cube.py::Cube._valid_idxs [index tuple]"
    if ctx.repo.lookup(cube, "_valid_idxs") is None:
        raise AnalysisError("Cube._valid_idxs vanished")
    slices, meshes = [], 0
    for fn in reachable_functions(ctx.repo, cube, "_valid_idxs"):
        for n in ast.walk(fn):
            if isinstance(n, ast.Call) and u(n.func) == "slice":
                slices.append(u(n)[:40])
            elif isinstance(n, ast.Subscript) and u(n.value) in ("np.s_", "np.index_exp"):
                slices.append(u(n)[:40])
            elif isinstance(n, ast.Call) and u(n.func) == "np.ix_":
                meshes += 1
    if slices and meshes:
        ctx.violated("valid-idxs.single-mesh", where, f"basic slices {sorted(set(slices))} next to {meshes} np.ix_ mesh(es)", "one open mesh over all dimensions (index arrays only)",
                     "index arrays separated by a basic slice are moved to the front of the result: the filtered measure array is no longer (table, rows, columns)")
    elif meshes:
        ctx.held("valid-idxs.single-mesh", where, f"{meshes} np.ix_ mesh(es), no basic slice in the index tuple", "index arrays only")
    else:
        ctx.undecided("valid-idxs.single-mesh", where, "no np.ix_ mesh found", "one open mesh over all dimensions")


def valid_idxs_table(ctx: Ctx):
    """`Cube._valid_idxs` evaluated (DECTAB, open-mesh model) on cube shapes: with / without missing elements, payload
    order equal to / different from the dimension order (numeric array).  On every model the raw axis of dimension i must
    be restricted to that dimension's valid offsets AND land on output axis i."""
    from ..dectab import DTop, IndexInterp, Raises, selection_with_axes

    cube = ctx.repo.cls("cube.py", "Cube")
    m = ctx.repo.lookup(cube, "_valid_idxs")
    where = "cube.py::Cube._valid_idxs [table]"
    body = SUMMARIZER.summarize(m.node)
    # (valid offsets per dimension, extent per dimension, dimension_order)
    models = [
        (((0, 1, 2), (0, 1, 2)), (3, 3), (0, 1)),
        (((0, 1, 2), (0, 1, 2)), (3, 3), (1, 0)),
        (((0, 1), (0, 1, 2)), (2, 3), (1, 0)),
        (((0, 1), (0, 2)), (3, 3), (0, 1)),
        (((1, 2), (0, 1, 2)), (3, 3), (1, 0)),
        (((0, 1, 2),), (3,), (0,)),
        (((0, 2),), (4,), (0,)),
        (((0, 1), (0, 1, 2), (0, 1)), (2, 3, 2), (0, 1, 2)),
        (((0, 1), (0, 1, 2), (0, 1)), (2, 3, 2), (0, 2, 1)),
    ]
    bad, n = [], 0
    try:
        for valids, extents, order in models:
            dims = [{".valid_elements": {".element_idxs": v}, ".shape": e, ".all_elements": tuple(range(e))} for v, e in zip(valids, extents)]

            def atoms(x, dims=dims, order=order):
                t = u(x)
                if t == "self._all_dimensions":
                    return dims
                if t == "self._all_dimensions.dimension_order":
                    return order
                if t == "self._all_dimensions.shape":
                    return tuple(dims[i][".shape"] for i in order)
                raise KeyError

            n += 1
            raw_extents = tuple(extents[i] for i in order)
            want_pos = tuple(valids[i] for i in order)
            want_axes = tuple(order)
            try:
                got_pos, got_axes = selection_with_axes(IndexInterp(atoms).ev(body), raw_extents)
            except Raises as r:
                bad.append(f"extents {extents} order {order}: raises {r.etype}")
                continue
            if tuple(map(tuple, got_pos)) != want_pos or tuple(got_axes) != want_axes:
                bad.append(f"valid {valids} order {order}: raw axes select {got_pos} onto output axes {got_axes}; specified {want_pos} onto {want_axes}")
    except DTop as t:
        ctx.undecided("valid-idxs.table", where, "DECTAB: " + str(t), "open-mesh model over cube shapes")
        return
    ctx.count("valid-idxs models", n)
    ctx.ob("valid-idxs.table", where, bad[:3] or f"{n} cube shapes: each raw axis restricted to its dimension's valid offsets and moved to that dimension's axis",
           "valid offsets of dimension i on the raw axis that holds it, delivered on axis i", not bad,
           "a numeric-array cube stores (category, subvariable): without the permutation every measure is transposed")
    ctx.require_min("valid-idxs models", 9)


def valid_elements_chain(ctx: Ctx):
    els = ctx.repo.cls("dimension.py", "Elements")
    e = expand(ctx.repo, els, "valid_elements", stop=lambda m: True)
    ctx.check_expr("valid-elements", "dimension.py::Elements.valid_elements", e, "Elements((element for element in self if not element.missing))", "valid = not missing (polarity)")
    e = expand(ctx.repo, els, "element_idxs", stop=lambda m: True)
    ctx.check_expr("valid-elements", "dimension.py::Elements.element_idxs", e, "tuple((element.index for element in self))")
    el = ctx.repo.cls("dimension.py", "Element")
    e = expand(ctx.repo, el, "missing", stop=lambda m: True)
    ctx.check_expr("valid-elements", "dimension.py::Element.missing", e, "bool(self._element_dict.get('missing'))")
    e = expand(ctx.repo, el, "index", stop=lambda m: True)
    ctx.check_expr("valid-elements", "dimension.py::Element.index", e, "self._index")
    dim = ctx.repo.cls("dimension.py", "Dimension")
    e = expand(ctx.repo, dim, "valid_elements", stop=lambda m: True)
    ctx.check_expr("valid-elements", "dimension.py::Dimension.valid_elements", e, "self.all_elements.valid_elements")
    element_index_provenance(ctx)


# positional provenance in Elements.from_typedef -------------------------------------------------
class _Seq:
    def __init__(self, ver):
        self.ver = ver


class _Pairs:
    def __init__(self, order_ver, idx_ver):
        self.order_ver, self.idx_ver = order_ver, idx_ver


class _Map:
    def __init__(self, idx_ver=None):
        self.idx_ver = idx_ver  # None: id -> element ; else id -> (idx, element) with idx of that version


class _Unknown(Exception):
    pass


def _prov_eval(e: ast.expr, env, fresh):
    """Abstract value of an expression over tracked sequences (None = untracked)."""
    if isinstance(e, ast.Name):
        return env.get(e.id)
    if isinstance(e, ast.IfExp):
        a, b = _prov_eval(e.body, env, fresh), _prov_eval(e.orelse, env, fresh)
        if isinstance(a, _Seq) or isinstance(b, _Seq):
            return _Seq(0)
        return None
    if isinstance(e, ast.Subscript) and u(e.value) == "typedef":
        return _Seq(0)
    if isinstance(e, ast.Call) and isinstance(e.func, ast.Name) and e.func.id in ("list", "tuple") and len(e.args) == 1:
        return _prov_eval(e.args[0], env, fresh)
    if isinstance(e, ast.Call) and isinstance(e.func, ast.Name) and e.func.id == "enumerate" and e.args:
        s = _prov_eval(e.args[0], env, fresh)
        if isinstance(s, _Seq):
            return _Pairs(s.ver, s.ver)
        if s is None:
            return None
        raise _Unknown("enumerate of " + type(s).__name__)
    if isinstance(e, ast.DictComp) and len(e.generators) == 1:
        it = _prov_eval(e.generators[0].iter, env, fresh)
        if isinstance(it, _Seq):
            return _Map(None)
        if isinstance(it, _Pairs):
            # value (idx, edef) or edef ?
            if isinstance(e.value, ast.Tuple):
                return _Map(it.idx_ver)
            return _Map(None)
        return None
    if isinstance(e, ast.ListComp) and len(e.generators) == 1:
        g = e.generators[0]
        it = _prov_eval(g.iter, env, fresh)
        # [codemap[code] for code in order if ...]  -> a re-arrangement: new order version
        if isinstance(e.elt, ast.Subscript) and isinstance(e.elt.value, ast.Name) and isinstance(env.get(e.elt.value.id), _Map):
            m = env[e.elt.value.id]
            v = fresh()
            return _Seq(v) if m.idx_ver is None else _Pairs(v, m.idx_ver)
        if isinstance(it, _Pairs):
            # [edef for _, edef in pairs] keeps the order
            if isinstance(e.elt, ast.Name):
                return _Seq(it.order_ver)
            if isinstance(e.elt, ast.Tuple):
                return _Pairs(it.order_ver, it.idx_ver)
        if isinstance(it, _Seq):
            return _Seq(it.ver) if isinstance(e.elt, ast.Name) else None
        return None
    return None


def element_index_provenance(ctx: Ctx):
    """Element(element_dict, idx, ...): idx must be the position of the element in the sequence the Elements
    tuple is built from, on every path (with and without a typedef `order`)."""
    els = ctx.repo.cls("dimension.py", "Elements")
    m = ctx.repo.lookup(els, "from_typedef")
    if m is None:
        raise AnalysisError("Elements.from_typedef vanished")
    where = "dimension.py::Elements.from_typedef"
    counter = [0]

    def fresh():
        counter[0] += 1
        return counter[0]

    results = []

    def run(stmts, env):
        for i, st in enumerate(stmts):
            if isinstance(st, ast.Assign) and len(st.targets) == 1 and isinstance(st.targets[0], ast.Name):
                v = _prov_eval(st.value, env, fresh)
                if v is not None or st.targets[0].id in env:
                    env[st.targets[0].id] = v
            elif isinstance(st, ast.If):
                tracked = {n.id for n in ast.walk(st) if isinstance(n, ast.Name) and isinstance(n.ctx, ast.Store)} & (set(env) | {"element_defs"})
                if tracked or any(isinstance(x, ast.For) for x in ast.walk(st)):
                    e1, e2 = dict(env), dict(env)
                    run(list(st.body) + list(stmts[i + 1:]), e1)
                    run(list(st.orelse) + list(stmts[i + 1:]), e2)
                    return
            elif isinstance(st, ast.For):
                it = _prov_eval(st.iter, env, fresh)
                ctor = [n for n in ast.walk(st) if isinstance(n, ast.Call) and isinstance(n.func, ast.Name) and n.func.id == "Element" and len(n.args) >= 2]
                if not ctor:
                    continue
                if not isinstance(it, _Pairs) or not isinstance(st.target, ast.Tuple) or len(st.target.elts) != 2:
                    raise _Unknown("loop constructing Element(...) does not iterate (idx, element) pairs: " + u(st.iter))
                idx_name = st.target.elts[0].id if isinstance(st.target.elts[0], ast.Name) else None
                el_name = st.target.elts[1].id if isinstance(st.target.elts[1], ast.Name) else None
                for c in ctor:
                    if u(c.args[0]) != el_name or u(c.args[1]) != idx_name:
                        raise _Unknown("Element(...) arguments are not the loop variables")
                results.append((it.order_ver, it.idx_ver))

    try:
        run(list(m.node.body), {})
    except _Unknown as ex:
        ctx.undecided("element-index", where, f"positional provenance: {ex}", "Element.index = position in the final element sequence")
        return
    if not results:
        ctx.undecided("element-index", where, "no Element(...) construction loop found", "Element.index = position in the final element sequence")
        return
    bad = [r for r in results if r[0] != r[1]]
    ctx.ob(
        "element-index",
        where,
        [f"sequence version {o}, index version {i}" for o, i in results],
        "on every path the index passed to Element(...) enumerates the SAME arrangement the elements are emitted in (after the typedef `order` re-arrangement, because the data along the axis is in that order)",
        not bad and len(results) >= 2,
        "an index taken before the re-arrangement pairs each label with another element's data plane",
    )


# --------------------------------------------------------------------------- 2
def nan_mapping(ctx: Ctx):
    measures = ctx.repo.cls("cube.py", "_Measures")
    numeric_members = ["covariance", "means", "medians", "overlaps", "stddev", "sums", "valid_overlaps"]
    classes = []
    for name in numeric_members:
        m = ctx.repo.lookup(measures, name)
        if m is None:
            raise AnalysisError(f"_Measures.{name} vanished")
        ts = ctx.types.member_type(m, measures)
        for t in ts:
            if t not in classes:
                classes.append(t)
    for ci in classes:
        fv = ctx.repo.lookup(ci, "_flat_values")
        where = f"cube.py::{ci.name}._flat_values" + (f" (inherited from {fv.cls.name})" if fv and fv.cls is not ci else "")
        if fv is None:
            ctx.undecided("nan-mapping", where, "no _flat_values", "dict -> np.nan")
            continue
        # the extractor together with the helpers it calls (a shared `_nan_filled_flat_values(payload)` of the base class)
        from ..stmts import reachable_functions as _reach

        bodies = [SUMMARIZER.summarize(f) for f in _reach(ctx.repo, ci, "_flat_values")]
        body = ast.Tuple(elts=bodies, ctx=ast.Load())
        has_map = False
        wrong = None
        for n in ast.walk(body):
            if isinstance(n, ast.IfExp) and isinstance(n.test, ast.Call) and u(n.test.func) == "isinstance" and len(n.test.args) == 2 and u(n.test.args[1]) == "dict":
                if u(n.body) == "np.nan" and u(n.orelse) == u(n.test.args[0]):
                    has_map = True
                else:
                    wrong = u(n)
        has_dtype = any(isinstance(n, ast.keyword) and n.arg == "dtype" and u(n.value) == "np.float64" for n in ast.walk(body))
        ok = has_map and has_dtype and wrong is None
        ctx.ob(
            "nan-mapping",
            where,
            wrong or f"dict->nan map: {has_map}, float64: {has_dtype}",
            "np.nan if isinstance(x, dict) else x ... dtype=np.float64",
            ok if (has_map or wrong) else False,
            "a value the response marks unavailable ({'?': code}) surfaces as NaN (all numeric measure classes agree)",
        )
        ctx.count("numeric-measure _flat_values with dict->NaN")
        # the data of a numeric-array measure without grouping is NESTED ("data": [[2.5, 25]]) - which is why the result is
        # flattened.  A marker replaced only at the TOP level of "data" and a flatten() afterwards contradict each other:
        # a marker inside the inner list reaches np.array(..., dtype=float64) and raises TypeError.  (The median flattens first.)
        if ci.name in ("_MeanMeasure", "_SumMeasure", "_StdDevMeasure", "_MediansMeasure") and has_map:
            verdict, seen = None, ""
            for n in ast.walk(body):
                if isinstance(n, (ast.GeneratorExp, ast.ListComp)) and any(isinstance(x, ast.Call) and u(x.func) == "isinstance" and len(x.args) == 2 and u(x.args[1]) == "dict" for x in ast.walk(n.elt)):
                    it = n.generators[0].iter
                    seen = u(it)[:80]
                    flat_first = any(isinstance(c, ast.Call) and isinstance(c.func, ast.Attribute) and c.func.attr in ("flatten", "ravel") for c in ast.walk(it)) or any(isinstance(c, ast.Call) and u(c.func) in ("np.ravel", "itertools.chain.from_iterable", "chain.from_iterable") for c in ast.walk(it))
                    direct = isinstance(it, ast.Subscript) and isinstance(it.slice, ast.Constant) and it.slice.value == "data"
                    verdict = True if flat_first else (False if direct else None)
            ctx.ob("nan-mapping.nested", where, f"markers replaced over {seen}", "markers replaced over the FLATTENED data (a numeric-array measure nests its values)", verdict,
                   "a subvariable without a value inside the nested data ([[2.5, {'?': -1}]]) raises TypeError instead of surfacing as NaN")
    ctx.require_min("numeric-measure _flat_values with dict->NaN", 7)


def measure_presence(ctx: Ctx):
    """Whether a measure is PRESENT is a fact about the response structure (key / list there or not).  A presence test on
    the CONTENT of the values (`values.any()`, `np.sum(values)`, `max(...)`) makes a measure whose values are all 0
    vanish: zeros the response carries would be replaced by a fallback measure."""
    from ..stmts import reachable_functions

    CONTENT = {"any", "all", "sum", "nansum", "max", "min", "count_nonzero", "nonzero", "prod", "mean"}
    base = ctx.repo.cls("cube.py", "_BaseMeasure")
    n = 0
    for ci in [base] + base.all_subclasses():
        for fn in reachable_functions(ctx.repo, ci, "_flat_values"):
            tests = [t.test for t in ast.walk(fn) if isinstance(t, (ast.If, ast.IfExp))]
            n += 1
            for t in tests:
                hits = [u(c)[:60] for c in ast.walk(t) if isinstance(c, ast.Call) and ((isinstance(c.func, ast.Attribute) and c.func.attr in CONTENT) or (isinstance(c.func, ast.Name) and c.func.id in CONTENT))]
                if hits:
                    ctx.violated("measure-presence", f"cube.py::{ci.name}.{fn.name}", hits, "presence decided from the response structure (the data list is there / non-empty)",
                                 "a measure that is present with all-zero values is treated as absent")
    ctx.count("measure value extractors scanned", n)
    ctx.require_min("measure value extractors scanned", 10)
    if not any(o.rule.endswith("measure-presence") and o.status == "violated" for o in ctx.obligations):
        ctx.held("measure-presence", "cube.py: every _flat_values (and helpers)", f"{n} extractors: no presence test on the content of the values", "")


# --------------------------------------------------------------------------- 3
def reshape(ctx: Ctx):
    from ..stmts import atoms, match_any, resolver

    bm = ctx.repo.cls("cube.py", "_BaseMeasure")
    m = ctx.repo.lookup(bm, "raw_cube_array")
    if m is None:
        raise AnalysisError("_BaseMeasure.raw_cube_array vanished")
    where = "cube.py::_BaseMeasure.raw_cube_array"
    res = resolver(m.node)
    # (a) the tensor is the flat payload reshaped to the shape of the dimensions
    calls = [n for n in ast.walk(m.node) if isinstance(n, ast.Call) and isinstance(n.func, ast.Attribute) and n.func.attr == "reshape"]
    cands = [v for c in calls for v in res(c)]
    ok, why = match_any(cands, ["self._flat_values.reshape(self._shape)", "np.reshape(self._flat_values, self._shape)"])
    ctx.ob("reshape", where + " [reshape]", [u(c) for c in cands][:3], "self._flat_values.reshape(self._shape)", ok, why or "flat payload reshaped to the shape of the (re-ordered) dimensions")
    # (b) absent / unreshapeable payload -> None
    tests = [a for n in ast.walk(m.node) if isinstance(n, (ast.If, ast.IfExp)) for a in atoms(n.test)]
    cands = [v for t in tests for v in res(t)]
    for want, why_ in (("self._flat_values is None", "measure absent"), ("len(self._flat_values) != np.prod(self._shape)", "payload cannot be reshaped")):
        ok, why = match_any(cands, [want])
        ctx.ob("reshape.guards", where + f" [{why_}]", [u(c) for c in cands][:4], want, ok, why or f"None when {why_}")
    e = expand(ctx.repo, bm, "_shape", stop=lambda m: True)
    ctx.check_expr("reshape.shape", "cube.py::_BaseMeasure._shape", e, "self._all_dimensions.shape")
    for cname in ("_OverlapMeasure", "_CovarianceMeasure"):
        ci = ctx.repo.cls("cube.py", cname)
        e = expand(ctx.repo, ci, "_shape", stop=lambda m: True)
        ok = u(e).startswith("self._all_dimensions.shape + (")
        ctx.ob("reshape.shape", f"cube.py::{cname}._shape", u(e), "self._all_dimensions.shape + (<n sub-variables>,)", ok)
    # MR_CAT <=> category ids [1, 0, -1]: what makes sel index 0 "selected"
    dims = ctx.repo.cls("dimension.py", "Dimensions")
    m = ctx.repo.lookup(dims, "dimension_type")
    found = None
    for n in ast.walk(m.node):
        if isinstance(n, ast.Compare) and len(n.comparators) == 1 and isinstance(n.comparators[0], ast.List):
            vals = [u(x) for x in n.comparators[0].elts]
            if len(vals) == 3:
                found = vals
    # decision table (DECTAB) over categorical typedefs, with the helper methods of the class inlined: the categories
    # dimension of an array is a SELECTION axis (MR_CAT) exactly when its ids are 1, 0, -1 IN THAT ORDER and one is selected
    from ..dectab import DTop, ModelInterp, Raises, module_constants

    where_d = "dimension.py::Dimensions.dimension_type"
    body_d = expand(ctx.repo, dims, "dimension_type", bind={"dimension_dict": ast.Name(id="dimension_dict", ctx=ast.Load())}, stop=lambda mm: mm.kind in ("lazyproperty", "property"))

    def cats(ids, selected=None, date=False):
        out = []
        for i in ids:
            c = {"id": i}
            if i == selected:
                c["selected"] = True
            if date:
                c["date"] = "2020-01-01"
            out.append(c)
        return out

    cases = []
    for subrefs in (True, False):
        refs = {"subreferences": [{"alias": "a"}]} if subrefs else {}
        for label, cs, logical, dated in (
            ("ids 1,0,-1 with a selected category", cats([1, 0, -1], 1), True, False),
            ("ids 0,1,-1 (other order) with a selected category", cats([0, 1, -1], 1), False, False),
            ("ids 1,0,-1 none selected", cats([1, 0, -1]), False, False),
            ("ids 1,2,3", cats([1, 2, 3]), False, False),
            ("ids 1,2,3 with dates", cats([1, 2, 3], None, True), False, True),
        ):
            want = ("DT.MR_CAT" if logical else "DT.CA_CAT") if subrefs else ("DT.LOGICAL" if logical else ("DT.CAT_DATE" if dated else "DT.CAT"))
            cases.append((f"{label}, {'array' if subrefs else 'stand-alone'}", {"type": {"class": "categorical", "categories": cs}, "references": refs}, want))
    bad, undec = [], None
    for label, dd, want in cases:
        def atoms_d(x, dd=dd):
            if isinstance(x, ast.Name) and x.id == "dimension_dict":
                return dd
            if isinstance(x, ast.Attribute) and isinstance(x.value, ast.Name) and x.value.id == "DT":
                return "DT." + x.attr
            raise KeyError

        try:
            interp = ModelInterp(atoms_d)
            interp.module_consts = module_constants(dims.module.tree)
            got = interp.ev(body_d)
        except Raises as r:
            bad.append(f"{label}: raises {r.etype}")
            continue
        except DTop as t:
            undec = str(t)
            break
        if got != want:
            bad.append(f"{label}: {got}, specified {want}")
    if undec is None:
        ctx.ob("selected-plane-constant", where_d, bad[:3] or f"{len(cases)} categorical typedefs", "MR_CAT / LOGICAL iff the category ids are 1, 0, -1 in that order and one is selected", not bad,
               "an MR selection axis is recognised by category ids [1, 0, -1], which is what puts 'selected' at index 0 of every sel axis")
    else:
        ctx.ob("selected-plane-constant", where_d, found, "['1', '0', '-1']", True if found == ["1", "0", "-1"] else None,
               "an MR selection axis is recognised by category ids [1, 0, -1] (DECTAB not applicable: " + undec[:60] + ")")


# --------------------------------------------------------------------------- 4
def extraction(ctx: Ctx):
    # the variant classes are chosen by the kinds of the slice's OWN rows and columns dimensions
    from . import c06

    c06.dispatch_dimension_uses(ctx)
    disp = LY.factory_dispatch(ctx, LY.MCM, "_BaseCubeCounts", PAIRS, lambda t: t == "cube.dimension_types[-2:]")
    for pair in PAIRS:
        picked = disp.get(pair)
        if picked is None:
            ctx.undecided("dispatch", f"{LY.MCM}::_BaseCubeCounts.factory[{pair}]", "no class derived for this kind (the dispatch is not in a form the table understands)", "total dispatch")
            continue
        ci, leaf = picked
        leaves = {"self._counts": source("_counts", L.src_roles(*pair))}
        LY.check_layout(ctx, "extract.counts", ci, "counts", leaves, L.counts(*pair), f"kind pair {pair}: the cell count is the selected plane of every MR axis, no reduction")
        ctx.count("extractor obligations")
    for base, field_, member in (
        ("_BaseCubeMeans", "_means", "means"),
        ("_BaseCubeMedians", "_medians", "medians"),
        ("_BaseCubeStdDev", "_stddev", "stddev"),
        ("_BaseCubeSums", "_sums", "sums"),
    ):
        d = LY.factory_dispatch(ctx, LY.MCM, base, MRPAIRS, lambda t: t == "cube.dimension_types[-2:]")
        for pair in MRPAIRS:
            picked = d.get(pair)
            if picked is None:
                ctx.undecided("dispatch", f"{LY.MCM}::{base}.factory[{pair}]", "no class derived for this kind (the dispatch is not in a form the table understands)", "total dispatch")
                continue
            ci, leaf = picked
            rmr, cmr = pair[0] == "MR", pair[1] == "MR"
            leaves = {f"self.{field_}": source(field_, L.src_roles(*pair))}
            LY.check_layout(ctx, "extract.numeric", ci, member, leaves, L.numeric_extract(rmr, cmr), f"kind pair {pair}: the value the response carries for the cell")
            ctx.count("extractor obligations")
    # stripe
    sd = LY.factory_dispatch(ctx, LY.SCM, "_BaseCubeCounts", [("CAT",), ("MR",), ("NUM",)], lambda t: False)
    for (k,), picked in sd.items():
        if picked is None:
            ctx.undecided("dispatch", f"{LY.SCM}::_BaseCubeCounts.factory[{k}]", "no class derived for this kind (the dispatch is not in a form the table understands)", "total dispatch")
            continue
        ci, _ = picked
        kind = "ARR" if k == "NUM" else k
        LY.check_layout(ctx, "extract.stripe", ci, "counts", {"self._counts": source("_counts", L.stripe_roles(kind))}, L.stripe(kind, "counts"), f"stripe kind {k}")
        ctx.count("extractor obligations")
    for base, field_, member in (
        ("_BaseCubeMeans", "_means", "means"),
        ("_BaseCubeMedians", "_medians", "medians"),
        ("_BaseCubeStdDev", "_stddev", "stddev"),
        ("_BaseCubeSums", "_sums", "sums"),
    ):
        d = LY.factory_dispatch(ctx, LY.SCM, base, [("CAT",), ("MR",)], lambda t: False)
        for (k,), picked in d.items():
            if picked is None:
                ctx.undecided("dispatch", f"{LY.SCM}::{base}.factory[{k}]", "no class derived for this kind (the dispatch is not in a form the table understands)", "total dispatch")
                continue
            ci, _ = picked
            LY.check_layout(ctx, "extract.stripe", ci, member, {f"self.{field_}": source(field_, L.stripe_roles(k))}, L.stripe(k, "counts"), f"stripe kind {k}")
            ctx.count("extractor obligations")
    ctx.require_min("extractor obligations", 9 + 16 + 3 + 8)


# --------------------------------------------------------------------------- 5
def wiring(ctx: Ctx):
    som = slice_measures_obj(ctx)
    exp = {
        "weighted_counts": {"W"},
        "unweighted_counts": {"U"},
        "means": {"M:means"},
        "medians": {"M:medians"},
        "stddev": {"M:stddev"},
        "sums": {"M:sums"},
    }
    for name, lab in exp.items():
        labels = data_labels(measure_blocks_reads(ctx, som, name))
        ctx.ob("wiring", f"matrix/measure.py::SecondOrderMeasures.{name}", sorted(labels), sorted(lab), (labels == lab) if labels else None, "public measure derives from exactly this response measure")
    sm = strand_measures_obj(ctx)
    for name, lab in exp.items():
        labels = data_labels(measure_blocks_reads(ctx, sm, name))
        ctx.ob("wiring", f"stripe/measure.py::StripeMeasures.{name}", sorted(labels), sorted(lab), (labels == lab) if labels else None)
    sl = ctx.repo.cls("cubepart.py", "_Slice")
    pub = {
        "counts": "weighted_counts", "unweighted_counts": "unweighted_counts", "means": "means",
        "medians": "medians", "stddev": "stddev", "sums": "sums",
    }
    import re as _re

    from ..symex import fold

    def wired(ci, prop, meas, asm):
        # private helper METHODS inlined (`_assemble_means_vector(smoothed=False)`, `_assemble_sum_based_vector("sums")`),
        # getattr with a literal name and constant conditionals folded; positive evidence only: the blocks of ANOTHER measure
        from ..symex import fold_consts

        e = fold_consts(fold(expand(ctx.repo, ci, prop, stop=lambda m: m.kind in ("lazyproperty", "property") or m.name in ("_assemble_matrix", "_assemble_marginal", "_assemble_vector") or not m.name.startswith("_"))))
        text = u(e)
        want = f"self.{asm}(self._measures.{meas}.blocks)"
        others = sorted(set(_re.findall(r"self\._measures\.(\w+)\.blocks", text)) - {meas})
        ok = True if want in text else (False if others else None)
        ctx.ob("wiring.public", f"cubepart.py::{ci.name}.{prop}", text[:140], want, ok, f"assembles the blocks of {others}" if others and not ok else "")

    for prop, meas in pub.items():
        wired(sl, prop, meas, "_assemble_matrix")
    st = ctx.repo.cls("cubepart.py", "_Strand")
    for prop, meas in pub.items():
        wired(st, prop, meas, "_assemble_vector")
    nub = ctx.repo.cls("cubepart.py", "_Nub")
    e = expand(ctx.repo, nub, "unweighted_count", stop=lambda m: True)
    ctx.check_expr("wiring.public", "cubepart.py::_Nub.unweighted_count", e, "self._cube.unweighted_counts")
    e = expand(ctx.repo, nub, "_scalar", stop=lambda m: True)
    ctx.check_expr("wiring.public", "cubepart.py::_Nub._scalar", e, "MeansScalar(self._cube.means, self._cube.unweighted_counts)")
    # valid-count substitution only through CubeMeasures
    cm = ctx.repo.cls("matrix/cubemeasure.py", "CubeMeasures")
    for name, vc, plain in (("unweighted_cube_counts", "unweighted_valid_counts", "unweighted_counts"), ("weighted_cube_counts", "weighted_valid_counts", "counts")):
        m = ctx.repo.lookup(cm, name)
        body = SUMMARIZER.summarize(m.node)
        call = body if isinstance(body, ast.Call) else None
        if call is None or not call.args:
            ctx.undecided("wiring.valid-counts", f"matrix/cubemeasure.py::CubeMeasures.{name}", "factory call not found", "")
            continue
        ctx.check_expr(
            "wiring.valid-counts",
            f"matrix/cubemeasure.py::CubeMeasures.{name}[counts arg]",
            call.args[0],
            f"self._cube.{vc} if self._cube.{vc} is not None else self._cube.{plain}",
            "valid counts replace counts when the response carries them",
        )


# --------------------------------------------------------------------------- axis order of the raw tensor
def axis_order(ctx: Ctx):
    """`Dimensions.dimension_order` says which payload axis belongs to which dimension.  It is a finite decision
    table over (number of dimensions, which dimension types are present): evaluated here on a model of every
    shape of cube with up to four raw dimensions.  A numeric-array dimension is listed FIRST in the dimensions
    but is the LAST axis of the payload, so the order is the rotation (1, .., n-1, 0); every other cube is laid
    out in dimension order.  The two consumers (shape of the reshape, per-axis valid indices) must both index
    through it."""
    from ..dectab import DTop, ModelInterp, Raises

    dims_cls = ctx.repo.cls("dimension.py", "Dimensions")
    m = ctx.repo.lookup(dims_cls, "dimension_order")
    if m is None:
        raise AnalysisError("Dimensions.dimension_order vanished")
    body = SUMMARIZER.summarize(m.node)
    NA, CAT, MRS, MRC, CAS, CAC = "DT.NUM_ARRAY", "DT.CAT", "DT.MR_SUBVAR", "DT.MR_CAT", "DT.CA_SUBVAR", "DT.CA_CAT"
    shapes = [
        [], [CAT], [NA], [MRS, MRC][:1],
        [CAT, CAT], [MRS, MRC], [CAS, CAC], [NA, CAT], [NA, CAS],
        [CAT, CAT, CAT], [CAT, MRS, MRC], [MRS, MRC, CAT], [CAS, CAC, CAT],
        [NA, CAT, CAT], [NA, MRS, MRC], [NA, CAS, CAC], [NA, CAT, CAS],
        # 3-D responses with a multiple-response dimension have FOUR stored dimensions
        [CAT, MRS, MRC, CAT], [MRS, MRC, MRS, MRC][:4], [CAT, CAT, MRS, MRC], [NA, CAT, MRS, MRC], [NA, MRS, MRC, CAT],
    ]
    for types in shapes:
        n = len(types)
        want = tuple(range(1, n)) + (0,) if (n >= 2 and types[0] == NA) else tuple(range(n))
        model = tuple({".dimension_type": t} for t in types)

        def atoms(e, model=model):
            if isinstance(e, ast.Name) and e.id == "self":
                return model
            if isinstance(e, ast.Attribute) and isinstance(e.value, ast.Name) and e.value.id == "DT":
                return "DT." + e.attr
            raise KeyError

        construct = f"dimension.py::Dimensions.dimension_order [{' x '.join(t[3:] for t in types) or '0-D'}]"
        try:
            got = ModelInterp(atoms).ev(body)
            got = tuple(got) if isinstance(got, (list, tuple)) else got
        except (DTop, Raises) as exc:
            ctx.undecided("axis-order", construct, f"not evaluable on the model: {exc}", expected=str(want))
            continue
        ctx.count("axis-order table rows")
        if got == want:
            ctx.held("axis-order", construct, str(got), str(want))
        else:
            ctx.violated("axis-order", construct, str(got), str(want), "payload axes would be attributed to the wrong dimensions")
    ctx.require_min("axis-order table rows", 12)
    # consumers
    shape = ctx.repo.lookup(dims_cls, "shape")
    vidx = ctx.repo.lookup(ctx.repo.cls("cube.py", "Cube"), "_valid_idxs")
    if shape is None or vidx is None:
        raise AnalysisError("consumer of dimension_order vanished (Dimensions.shape / Cube._valid_idxs)")
    ctx.check_expr("axis-order.consumer", "dimension.py::Dimensions.shape", SUMMARIZER.summarize(shape.node),
                   ["tuple((d.shape for d in [self[i] for i in self.dimension_order]))", "tuple((self[i].shape for i in self.dimension_order))"])
    ctx.check_expr("axis-order.consumer", "cube.py::Cube._valid_idxs", SUMMARIZER.summarize(vidx.node),
                   ["tuple((np.ix_(*tuple((d.valid_elements.element_idxs for d in self._all_dimensions)))[i] for i in self._all_dimensions.dimension_order))"])
    ctx.count("axis-order consumers", 2)


TOLERANCE_CALLS = ("np.allclose", "np.isclose", "math.isclose", "np.testing.assert_allclose", "np.array_equiv")


def exact_measure_selection(ctx: Ctx):
    """Which measure a cube REPORTS (weighted counts or the unweighted ones, a valid-count measure or the counts) is decided
    by presence and exact equality of what the response carries.  A tolerance comparison (`np.allclose`, `np.isclose`,
    `math.isclose`) in the code that reads the measures classifies a weighted response whose cells lie within the tolerance
    of the unweighted counts as unweighted: `Cube.counts` then reports the unweighted tabulation."""
    ctl = ast.parse("def f(self):\n    w = self._cube_dict['result']['measures']['count']['data']\n    if np.allclose(w, self._cube_dict['result']['counts']):\n        return None\n    return np.array(w)\n")
    if len([c for c in ast.walk(ctl) if isinstance(c, ast.Call) and u(c.func) in TOLERANCE_CALLS]) != 1:
        raise AnalysisError("exact-selection: the positive control is no longer recognised")
    mod = ctx.repo.module("cube.py")
    n, hits = 0, []
    for ci in mod.classes.values():
        for m in ci.members.values():
            n += 1
            for c in ast.walk(m.node):
                if isinstance(c, ast.Call) and u(c.func) in TOLERANCE_CALLS:
                    hits.append((f"cube.py::{ci.name}.{m.name}", u(c)[:100]))
    ctx.count("cube.py members scanned for tolerance comparisons", n)
    ctx.require_min("cube.py members scanned for tolerance comparisons", 80)
    for where, text in hits:
        ctx.violated("exact-selection", where, text, "presence tests and exact equality (==, np.array_equal) of the payload", "values within the tolerance are taken for equal: a nearly-unit-weighted response is reported unweighted")
    if not hits:
        ctx.held("exact-selection", "cube.py: every member", f"{n} members, no tolerance comparison of payload data", "", "positive control recognised")
