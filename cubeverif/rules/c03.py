"""C03 - proportions are count over base, bounded, and sum to one."""
from __future__ import annotations

import ast

from ..axes import AV, AxisEval, SrcOp, source
from ..blocks import matrix_templates
from ..core import Ctx
from ..normform import equal
from ..specs import layout as L
from ..symex import expand, strip_ifexp_paths, u
from . import layouts as LY
from .gridcheck import SOM, check_divisions, check_grid_formula

MM = "matrix/measure.py"
SM = "stripe/measure.py"
W = "self._cube_measures.weighted_cube_counts"
PAIRS = [(a, b) for a in L.KINDS for b in L.KINDS]


def run(ctx: Ctx):
    ctx.explanation = (
        "BLOCKS+NORM: every block of the row/column/table proportion measures is the weighted count block divided "
        "by the base block of the same direction at the same block position (the wave-difference override is the one "
        "listed exception and is delegated with the matching arguments); x100 forms; AXIS: the source cells of a count "
        "are a subset of those of each base (=> [0,1]) and, over a CAT opposing dimension, the counts partition the "
        "base (=> sums to 1, hidden elements included because the identity is on unassembled arrays); every division "
        "is evaluated under errstate."
    )
    ctx.not_decided = ["floating-point rounding"]
    ctx.assumptions = ["counts are non-negative"]
    table_proportions(ctx)
    directional(ctx)
    stripe(ctx)
    margin_table_proportion(ctx)
    percentages(ctx)
    containment(ctx)
    divisions(ctx)
    from .common import index_space_lints

    index_space_lints(ctx, "index-space", ['matrix/subtotals.py', 'stripe/insertion.py', 'matrix/measure.py', 'stripe/measure.py'], words=('wavediff', 'proportion'))
    from .common import no_shared_writes

    no_shared_writes(ctx, "no-shared-write")
    from .common import generic_lints

    generic_lints(ctx)
    # no subtotal row / column ever exists on an MR / CA dimension: the base blocks broadcast ONE item's base onto an inserted
    # vector, a summed row of overlapping items divided by it is no proportion (1.3)
    from .common import subtotal_free_types

    subtotal_free_types(ctx)
    from .common import subtotal_terms_once

    subtotal_terms_once(ctx)
    from .common import dependency_footprints

    dependency_footprints(ctx)
    from .common import public_values_assembled

    public_values_assembled(ctx, "public-assembled", "_Slice", ("column_proportions", "row_proportions", "table_proportions", "column_percentages", "row_percentages", "table_percentages"))
    public_values_assembled(ctx, "public-assembled", "_Strand", ("table_proportions", "table_percentages"))
    from .common import explicit_nan_criterion

    explicit_nan_criterion(ctx, "proportion-nan")
    from .common import lazyproperty_call_form

    # a base / margin attribute built by a property FACTORY shares its cache slot with its siblings (weighted <-> unweighted)
    lazyproperty_call_form(ctx, "cache-key", shorts=("matrix/measure.py", "stripe/measure.py", "matrix/cubemeasure.py", "stripe/cubemeasure.py"))


def table_proportions(ctx: Ctx):
    ci = ctx.repo.cls(MM, "_TableProportions")
    check_grid_formula(
        ctx,
        "proportion-blocks",
        ci,
        lambda i, j: f"{SOM}.weighted_counts.blocks[{i}][{j}] / {SOM}.table_weighted_bases.blocks[{i}][{j}]",
        "table proportion = weighted count / table weighted base at the same block",
    )


def directional(ctx: Ctx):
    for cname, d in (("_RowProportions", "row"), ("_ColumnProportions", "column")):
        ci = ctx.repo.cls(MM, cname)
        kind, grid, _g = matrix_templates(ctx.repo, ci)
        where = f"{MM}::{cname}.blocks"
        if kind != "grid":
            ctx.undecided("proportion-blocks", where, f"not a grid ({kind})", "2x2 grid")
            continue
        n = lambda i, j: f"{SOM}.weighted_counts.blocks[{i}][{j}]"
        b = lambda i, j: f"{SOM}.{d}_weighted_bases.blocks[{i}][{j}]"
        for (i, j) in ((0, 0), (1, 1)):
            verdict, cnf, snf, notes = equal(grid[i][j], f"{n(i, j)} / {b(i, j)}")
            w = f"{where}[{i}][{j}]"
            if verdict is None:
                ctx.undecided("proportion-blocks", w, cnf, f"{n(i, j)} / {b(i, j)}")
            else:
                ctx.ob("proportion-blocks", w, cnf, snf, verdict, f"{d} proportion = weighted count / {d} weighted base at the same block")
            ctx.count("block formula obligations")
        for (i, j), meth in (((0, 1), "subtotal_columns"), ((1, 0), "subtotal_rows")):
            want = f"WaveDiffSubtotal.{meth}({W}.{d}_bases, {W}.counts, {n(i, j)} / {b(i, j)}, self._dimensions)"
            ctx.check_expr(
                "proportion-blocks",
                f"{where}[{i}][{j}]",
                grid[i][j],
                want,
                f"inserted block: default = count/base at this block; categorical-date wave difference computed from the {d} bases and the counts",
            )
            ctx.count("block formula obligations")
    ctx.require_min("block formula obligations", 12)


def stripe(ctx: Ctx):
    ci = ctx.repo.cls(SM, "_TableProportions")
    e = expand(ctx.repo, ci, "base_values")
    verdict, cnf, snf, _ = equal(e, "self._measures.weighted_counts.base_values / self._cube_measures.weighted_cube_counts.bases")
    if verdict is None:
        ctx.undecided("proportion-stripe", f"{SM}::_TableProportions.base_values", cnf, "")
    else:
        ctx.ob("proportion-stripe", f"{SM}::_TableProportions.base_values", cnf, snf, verdict, "strand table proportion = weighted count / weighted base")
    e = expand(ctx.repo, ci, "subtotal_values")
    want = (
        "np.array([]) if self._cube_measures.weighted_cube_counts.table_base is None else "
        "WaveDiffSubtotals.subtotal_values(self._cube_measures.weighted_cube_counts.bases, "
        "self._cube_measures.weighted_cube_counts.counts, "
        "self._measures.weighted_counts.subtotal_values / self._cube_measures.weighted_cube_counts.table_base, self._rows_dimension)"
    )
    ctx.check_expr("proportion-stripe", f"{SM}::_TableProportions.subtotal_values", e, want, "subtotal proportion = subtotal count / table base (wave-difference override for categorical dates)")


def margin_table_proportion(ctx: Ctx):
    ci = ctx.repo.cls(MM, "_MarginTableProportion")
    e = expand(ctx.repo, ci, "blocks", stop=lambda m: m.name in ("_proportion_numerators", "_proportion_denominators"))
    for k in (0, 1):
        pass
    ctx.check_expr(
        "margin-proportion",
        f"{MM}::_MarginTableProportion.blocks",
        e,
        "[self._proportion_numerators[0] / self._proportion_denominators[0], self._proportion_numerators[1] / self._proportion_denominators[1]]",
        "margin proportion = margin over table base, block-wise",
    )
    e = expand(ctx.repo, ci, "_proportion_denominators")
    ctx.check_expr(
        "margin-proportion",
        f"{MM}::_MarginTableProportion._proportion_denominators",
        e,
        f"{SOM}.rows_table_weighted_base.blocks if self._orientation == MO.ROWS else {SOM}.columns_table_weighted_base.blocks",
        "denominator = table weighted base of the same orientation",
    )
    e = expand(ctx.repo, ci, "_proportion_numerators", stop=lambda m: m.name == "_apply_along_orientation")
    want = (
        f"[self._apply_along_orientation(np.sum, count) for count in "
        f"([{SOM}.weighted_counts.blocks[0][0], {SOM}.weighted_counts.blocks[1][0]] if self._orientation == MO.ROWS else "
        f"[{SOM}.weighted_counts.blocks[0][0], {SOM}.weighted_counts.blocks[0][1]])]"
    )
    ctx.check_expr("margin-proportion", f"{MM}::_MarginTableProportion._proportion_numerators", e, want, "numerator = weighted counts summed along the orientation (base block + own-direction inserted block)")
    m = ctx.repo.lookup(ci, "_apply_along_orientation")
    e = expand(ctx.repo, ci, "_apply_along_orientation", bind={"func1d": ast.Name(id="func1d"), "arr": ast.Name(id="arr")}, stop=lambda mm: mm.name != "orientation")
    ctx.check_expr(
        "margin-proportion",
        f"{MM}::_BaseMarginal._apply_along_orientation",
        e,
        "np.array([], dtype=np.float64) if arr.shape[1 - (1 if self._orientation == MO.ROWS else 0)] == 0 else "
        "np.apply_along_axis(func1d, 1 if self._orientation == MO.ROWS else 0, arr, *args, **kwargs)",
        "ROWS marginals reduce along axis 1, COLUMNS along axis 0",
    )


def percentages(ctx: Ctx):
    sl = ctx.repo.cls("cubepart.py", "_Slice")
    for d in ("row", "column", "table"):
        e = expand(ctx.repo, sl, f"{d}_percentages", stop=lambda m: True)
        v, cnf, snf, _ = equal(e, f"100 * self.{d}_proportions")
        ctx.ob("percentages", f"cubepart.py::_Slice.{d}_percentages", cnf, snf, v, "percentage = 100 x the proportion of the same direction")
    e = expand(ctx.repo, sl, "smoothed_column_percentages", stop=lambda m: True)
    v, cnf, snf, _ = equal(e, "100 * self.smoothed_column_proportions")
    ctx.ob("percentages", "cubepart.py::_Slice.smoothed_column_percentages", cnf, snf, v)
    st = ctx.repo.cls("cubepart.py", "_Strand")
    e = expand(ctx.repo, st, "table_percentages", stop=lambda m: True)
    v, cnf, snf, _ = equal(e, "100 * self.table_proportions")
    ctx.ob("percentages", "cubepart.py::_Strand.table_percentages", cnf, snf, v)
    for d in ("row", "column", "table"):
        e = expand(ctx.repo, sl, f"{d}_proportions", stop=lambda m: True)
        ctx.check_expr("public-wiring", f"cubepart.py::_Slice.{d}_proportions", e, f"self._assemble_matrix(self._measures.{d}_proportions.blocks)")
    e = expand(ctx.repo, st, "table_proportions", stop=lambda m: True)
    ctx.check_expr("public-wiring", "cubepart.py::_Strand.table_proportions", e, "self._assemble_vector(self._measures.table_proportions.blocks)")
    for o in ("rows", "columns"):
        from .common import marginal_leaves

        want = f"self._assemble_marginal(self._measures.{o}_table_proportion)"
        leaves, verdict = marginal_leaves(ctx, sl, f"{o}_margin_proportion", want)
        ctx.ob("public-wiring", f"cubepart.py::_Slice.{o}_margin_proportion", leaves[-1] if leaves else "no path", want, verdict)


_SUBSET = {("keep", "keep"), ("keep", "sum"), ("fix", "fix"), ("fix", "sum"), ("sum", "sum")}


def containment(ctx: Ctx):
    disp = LY.factory_dispatch(ctx, LY.MCM, "_BaseCubeCounts", PAIRS, lambda t: t == "cube.dimension_types[-2:]")
    for pair in PAIRS:
        picked = disp.get(pair)
        if picked is None:
            continue
        ci, _ = picked
        leaves = {"self._counts": source("_counts", L.src_roles(*pair))}
        k, _t, cav = LY.derive(ctx, ci, "counts", leaves)
        if k != "nf":
            ctx.undecided("containment", f"{LY.MCM}::{ci.name}.counts", "AXIS could not derive counts", "")
            continue
        for base in ("row_bases", "column_bases", "table_bases"):
            kb, tb, bav = LY.derive(ctx, ci, base, leaves)
            where = f"{LY.MCM}::{ci.name}.counts <= {base}"
            if kb != "nf":
                ctx.undecided("containment", where, "AXIS could not derive base", "")
                continue
            bad = []
            for role, co, bo in zip(cav.src_roles, cav.ops, bav.ops):
                if (co.kind, bo.kind) not in _SUBSET:
                    bad.append(f"{role}: count {co.text()} vs base {bo.text()}")
                elif co.kind == "fix" and bo.kind == "fix" and co.idx != bo.idx:
                    bad.append(f"{role}: count {co.text()} vs base {bo.text()}")
            ctx.ob(
                "containment",
                where,
                "; ".join(bad) if bad else "source cells of the count are a subset of those of the base",
                "count cells subset of base cells (=> proportion in [0,1] for non-negative data)",
                not bad,
            )
            ctx.count("containment obligations")
        # partition along a CAT opposing dimension: sum_c counts[r,c] == rows_base[r]
        ev = AxisEval(leaves)
        if pair[1] == "CAT":
            kb, tb, bav = LY.derive(ctx, ci, "rows_base", leaves)
            if kb == "nf":
                summed = ev._sum(cav, (1,))
                ctx.ob("partition", f"{LY.MCM}::{ci.name}: sum_c counts == rows_base", summed.normal_form(), tb, summed.normal_form() == tb, "row proportions over a CAT columns dimension sum to 1 (on unassembled arrays => hidden elements included)")
                ctx.count("partition obligations")
        if pair[0] == "CAT":
            kb, tb, bav = LY.derive(ctx, ci, "columns_base", leaves)
            if kb == "nf":
                summed = ev._sum(cav, (0,))
                ctx.ob("partition", f"{LY.MCM}::{ci.name}: sum_r counts == columns_base", summed.normal_form(), tb, summed.normal_form() == tb, "column proportions over a CAT rows dimension sum to 1")
                ctx.count("partition obligations")
    ctx.require_min("containment obligations", 27)
    ctx.require_min("partition obligations", 6)


def zero_base_semantics(ctx: Ctx):
    """NaN exactly where the base is zero: the quotient must be IEEE division of count by base.
    A guarded division (`np.divide(..., where=..., out=zeros)`), `nan_to_num` or a `np.where` patch
    replaces the NaN of a zero base by a number."""
    fam = [(MM, c) for c in ("_RowProportions", "_ColumnProportions", "_TableProportions", "_MarginTableProportion", "_ColumnProportionsSmoothed")] + [(SM, "_TableProportions")]
    for short, cname in fam:
        ci = ctx.repo.cls(short, cname)
        for name, m in ci.members.items():
            for n in ast.walk(m.node):
                if not isinstance(n, ast.Call):
                    continue
                f = u(n.func)
                where = f"{short}::{cname}.{name}"
                if f == "np.divide" and any(k.arg in ("where", "out") for k in n.keywords):
                    out = next((k.value for k in n.keywords if k.arg == "out"), None)
                    fill = u(out.func) if isinstance(out, ast.Call) else None
                    if fill in ("np.zeros", "np.zeros_like", "np.ones", "np.ones_like") or (fill == "np.full" and "nan" not in u(out)):
                        ctx.violated("zero-base", where, u(n)[:160], "count / base (NaN where the base is zero)", "a guarded division writes a number where the base is zero; the proportion must be NaN exactly there")
                    else:
                        ctx.undecided("zero-base", where, u(n)[:160], "count / base (NaN where the base is zero)")
                elif f in ("np.nan_to_num",):
                    ctx.violated("zero-base", where, u(n)[:160], "count / base (NaN where the base is zero)", "NaN of a zero base is replaced by a number")
    ctx.held("zero-base", "proportion family (matrix + stripe)", "no guarded division / nan_to_num in the proportion measures", "plain IEEE division under errstate")


def divisions(ctx: Ctx):
    zero_base_semantics(ctx)
    for cname, members in (
        ("_RowProportions", ["blocks", "_inserted_rows", "_inserted_columns"]),
        ("_ColumnProportions", ["_base_values", "_subtotal_columns", "_subtotal_rows", "_intersections"]),
        ("_TableProportions", ["blocks"]),
        ("_MarginTableProportion", ["blocks"]),
    ):
        check_divisions(ctx, "errstate", ctx.repo.cls(MM, cname), members)
    check_divisions(ctx, "errstate", ctx.repo.cls(SM, "_TableProportions"), ["base_values", "subtotal_values"])
