"""Shared rule helpers: provenance label sets and FLOW entry points."""
from __future__ import annotations

from typing import FrozenSet, Iterable, Set

from ..core import Ctx
from ..flow import Obj

U_READS = {"Cube.unweighted_counts", "Cube.unweighted_valid_counts"}
W_READS = {"Cube.counts", "Cube.weighted_counts", "Cube.weighted_valid_counts"}
Q_READS = {"Cube.weighted_squared_counts"}
WM_READS = {"Cube.counts_with_missings"}
M_READS = {"Cube.means", "Cube.sums", "Cube.stddev", "Cube.medians", "Cube.covariance"}
O_READS = {"Cube.overlaps", "Cube.valid_overlaps"}
DATA_READS = U_READS | W_READS | Q_READS | WM_READS | M_READS | O_READS

# reads that are display-transform state (hide / prune / order) or computed by ordering code
TRANSFORM_READS = {
    "Dimension.order_spec",
    "Dimension.prune",
    "Dimension.hidden_idxs",
    "Element.is_hidden",
    "_ElementTransforms.hide",
    "ORDER",
}
TRANSFORM_PREFIXES = ("_OrderSpec.",)


def label_of(read: str) -> str:
    if read in U_READS:
        return "U"
    if read in W_READS:
        return "W"
    if read in Q_READS:
        return "Q"
    if read in WM_READS:
        return "W*"
    if read in M_READS:
        return "M:" + read.split(".")[1]
    if read in O_READS:
        return "O"
    return ""


def data_labels(reads: Iterable[str]) -> Set[str]:
    return {label_of(r) for r in reads if label_of(r)}


def transform_reads(reads: Iterable[str]) -> Set[str]:
    return {r for r in reads if r in TRANSFORM_READS or r.startswith(TRANSFORM_PREFIXES)}


def slice_obj(ctx: Ctx) -> Obj:
    return ctx.flow.root("cubepart.py", "_Slice")


def strand_obj(ctx: Ctx) -> Obj:
    return ctx.flow.root("cubepart.py", "_Strand")


def _single(objs, what):
    objs = list(objs)
    if len(objs) != 1:
        from ..loader import AnalysisError

        raise AnalysisError(f"{what}: expected exactly one object, got {objs}")
    return objs[0]


def slice_measures_obj(ctx: Ctx) -> Obj:
    return _single(ctx.flow.member_val(slice_obj(ctx), "_measures").objs, "_Slice._measures")


def strand_measures_obj(ctx: Ctx) -> Obj:
    return _single(ctx.flow.member_val(strand_obj(ctx), "_measures").objs, "_Strand._measures")


def measure_blocks_reads(ctx: Ctx, collection: Obj, name: str) -> FrozenSet[str]:
    """Reads of `<collection>.<name>` followed through `.blocks` / `.value` when it is a measure object."""
    v = ctx.flow.member_val(collection, name)
    reads = set(v.reads)
    for o in v.objs:
        for attr in ("blocks", "value"):
            if ctx.repo.lookup(o.cls, attr) is not None:
                reads |= ctx.flow.member_val(o, attr).reads
    return frozenset(reads)
