"""Shared rule helpers: provenance label sets and FLOW entry points."""
from __future__ import annotations

import ast
from typing import FrozenSet, Iterable, List, Optional, Set

from ..core import Ctx
from ..flow import Obj
from ..symex import u

U_READS = {"Cube.unweighted_counts", "Cube.unweighted_valid_counts"}
W_READS = {"Cube.counts", "Cube.weighted_counts", "Cube.weighted_valid_counts"}
Q_READS = {"Cube.weighted_squared_counts"}
WM_READS = {"Cube.counts_with_missings"}
M_READS = {"Cube.means", "Cube.sums", "Cube.stddev", "Cube.medians", "Cube.covariance"}
O_READS = {"Cube.overlaps", "Cube.valid_overlaps"}
DATA_READS = U_READS | W_READS | Q_READS | WM_READS | M_READS | O_READS

# reads that are display-transform state (hide / prune / order) or computed by ordering code
TRANSFORM_READS = {
    "Dimension.order_spec",
    "Dimension.prune",
    "Dimension.hidden_idxs",
    "Element.is_hidden",
    "_ElementTransforms.hide",
    "ORDER",
}
TRANSFORM_PREFIXES = ("_OrderSpec.",)


def label_of(read: str) -> str:
    if read in U_READS:
        return "U"
    if read in W_READS:
        return "W"
    if read in Q_READS:
        return "Q"
    if read in WM_READS:
        return "W*"
    if read in M_READS:
        return "M:" + read.split(".")[1]
    if read in O_READS:
        return "O"
    return ""


def data_labels(reads: Iterable[str]) -> Set[str]:
    return {label_of(r) for r in reads if label_of(r)}


def transform_reads(reads: Iterable[str]) -> Set[str]:
    return {r for r in reads if r in TRANSFORM_READS or r.startswith(TRANSFORM_PREFIXES)}


def slice_obj(ctx: Ctx) -> Obj:
    return ctx.flow.root("cubepart.py", "_Slice")


def strand_obj(ctx: Ctx) -> Obj:
    return ctx.flow.root("cubepart.py", "_Strand")


def _single(objs, what):
    objs = list(objs)
    if len(objs) != 1:
        from ..loader import AnalysisError

        raise AnalysisError(f"{what}: expected exactly one object, got {objs}")
    return objs[0]


def slice_measures_obj(ctx: Ctx) -> Obj:
    return _single(ctx.flow.member_val(slice_obj(ctx), "_measures").objs, "_Slice._measures")


def strand_measures_obj(ctx: Ctx) -> Obj:
    return _single(ctx.flow.member_val(strand_obj(ctx), "_measures").objs, "_Strand._measures")


def measure_blocks_reads(ctx: Ctx, collection: Obj, name: str) -> FrozenSet[str]:
    """Reads of `<collection>.<name>` followed through `.blocks` / `.value` when it is a measure object."""
    v = ctx.flow.member_val(collection, name)
    reads = set(v.reads)
    for o in v.objs:
        for attr in ("blocks", "value"):
            if ctx.repo.lookup(o.cls, attr) is not None:
                reads |= ctx.flow.member_val(o, attr).reads
    return frozenset(reads)


# --------------------------------------------------------------------------- index space of the partition index
VALID_SPACE_ARRAYS = (
    "cube.counts", "cube.means", "cube.medians", "cube.stddev", "cube.sums", "cube.overlaps", "cube.valid_overlaps", "cube.unweighted_counts",
    "cube.weighted_counts", "cube.weighted_squared_counts", "cube.unweighted_valid_counts", "cube.weighted_valid_counts", "cube.covariance",
    "self._cube.counts", "self._cube.unweighted_counts", "self._cube.weighted_squared_counts", "counts",
)


def is_slice_idx_expr(e) -> bool:
    """`cls._slice_idx_expr(cube, slice_idx)` in any argument form (positional or by keyword), or the bare partition index"""
    import ast as _ast

    from ..symex import u as _u

    t = _u(e)
    if t in ("slice_idx", "self._slice_idx"):
        return True
    if isinstance(e, _ast.Call) and isinstance(e.func, _ast.Attribute) and e.func.attr == "_slice_idx_expr" and _u(e.func.value) in ("cls", "self"):
        vals = [_u(a) for a in e.args] + [_u(k.value) for k in e.keywords]
        return vals == ["cube", "slice_idx"] and all(k.arg in ("cube", "slice_idx") for k in e.keywords)
    return False


def slice_index_space(ctx: Ctx, rule: str):
    """`slice_idx` (the partition index) counts the VALID elements of the table dimension.  Every subscript by it must
    therefore index a collection in that space: `valid_elements`, an array already restricted to valid elements (the
    Cube accessors, which all pass the valid-element grid - C01), or an array explicitly restricted by
    `valid_elements.element_idxs`.  `all_elements[k]`, or an array that still carries missing elements, names /
    selects another table as soon as a missing element precedes a valid one."""
    import ast as _ast

    from ..stmts import resolver
    from ..symex import u as _u

    n = 0
    for m in ctx.repo.all_members():
        if m.name == "_slice_idx_expr":
            continue
        res = None
        for node in _ast.walk(m.node):
            if not isinstance(node, _ast.Subscript) or not isinstance(node.ctx, _ast.Load):
                continue
            if not is_slice_idx_expr(node.slice):
                continue
            res = res or resolver(m.node, multi=True)
            variants0 = res(node.value)
            # a private helper method that PRODUCES the array (`cls._valid_tables_counts_with_missings(cube)`) is inlined,
            # its conditional paths become variants
            from ..symex import Expander, strip_ifexp_paths

            variants0 = [leaf for v in variants0 for _gs, leaf in strip_ifexp_paths(Expander(ctx.repo, m.cls, stop=lambda mm: mm.kind in ("lazyproperty", "property"), self_name="cls" if m.kind == "classmethod" else "self").visit(__import__("copy").deepcopy(v)))]
            bases = [_u(b) for b in variants0]
            where = f"{m.cls.module.path.split('cr/cube/')[-1]}::{m.cls.name}.{m.name} [{_u(node)[:60]}]"
            n += 1
            if any("all_elements" in b for b in bases):
                ctx.violated(rule, where, bases[:2], "valid_elements[slice_idx]", "slice_idx counts valid elements only: with a missing element ahead of a valid one this is another element")
            elif all("valid_elements" in b for b in bases):
                ctx.held(rule, where, bases[0][:80], "a collection indexed by valid-element position")
            elif any("counts_with_missings" in b or "raw_cube_array" in b for b in bases):
                # every variant of the array must be restricted by a FANCY index of the valid-element offsets; a basic slice
                # (`[:n]`, `[first:last + 1]`) of the raw axis keeps whatever missing element lies inside / ahead of the range
                variants = variants0
                ranged = [_u(x)[:90] for v in variants for x in _ast.walk(v) if isinstance(x, _ast.Subscript) and isinstance(x.slice, _ast.Slice)
                          and ("counts_with_missings" in _u(x.value) or "raw_cube_array" in _u(x.value)) and (x.slice.lower is not None or x.slice.upper is not None)]
                fancy = [v for v in variants if any(isinstance(x, _ast.Subscript) and not isinstance(x.slice, _ast.Slice) and "valid_elements.element_idxs" in _u(x.slice) for x in _ast.walk(v))]
                restricted = [b for b in bases if "valid_elements.element_idxs" in b]
                if ranged:
                    ctx.violated(rule, where, ranged[:2], "the array indexed by the valid-element offsets of the table dimension",
                                 "a range of the raw table axis is the valid tables only while no missing element lies ahead of or inside it; slice_idx counts valid elements only")
                elif restricted and fancy:
                    # (the unrestricted variant is the 2-D case, where there is no table dimension to restrict)
                    ctx.held(rule, where, restricted[0][:110], "restricted to the valid table elements before the partition index is applied")
                elif restricted:
                    ctx.undecided(rule, where, "the valid-element offsets are mentioned but not used as a fancy index", "restricted by a fancy index of the valid-element offsets")
                elif any(b.endswith(".counts_with_missings") or b.endswith(".raw_cube_array") for b in bases):
                    ctx.violated(rule, where, bases[:2], "an array restricted to the valid elements of the table dimension",
                                 "the array still carries the missing elements of the table dimension; slice_idx counts valid elements only, so table k is another table when a missing element precedes")
                else:
                    ctx.undecided(rule, where, f"array produced by {bases[:2]}", "an array restricted to the valid elements of the table dimension")
            elif all(b in VALID_SPACE_ARRAYS for b in bases):
                ctx.held(rule, where, bases[0], "a Cube accessor (valid elements only) / the counts handed to the factory")
            else:
                ctx.undecided(rule, where, f"indexed collection {bases[:2]}", "a collection in valid-element space")
    ctx.count("subscripts by the partition index", n)
    ctx.require_min("subscripts by the partition index", 10)


def index_space_lints(ctx: Ctx, rule: str, shorts=None, kinds=("filtered-enumeration", "pairwise-fancy-index"), words=None):
    """Positions counted in a FILTERED list used as positions in the original; two index arrays in one subscript."""
    from .. import indexspace as IS
    from ..loader import AnalysisError

    if IS.self_check() != (1, 1):
        raise AnalysisError("index-space lints: the positive control is no longer recognised")
    n, hits = IS.scan(ctx.repo, shorts)
    ctx.count("functions scanned by the index-space lints", n)
    found = False
    for where, kind, detail in hits:
        if kind not in kinds:
            continue
        # only the classes that compute THIS property's quantities
        if words is not None and not any(w in where.lower() for w in words):
            continue
        found = True
        if kind == "filtered-enumeration":
            ctx.violated(rule + ".filtered-position", where, detail, "positions counted in the sequence the array is aligned with",
                         "the i-th element of a filtered list is not the i-th element of the original: the value lands on another subtotal / element whenever an excluded one precedes")
        else:
            ctx.violated(rule + ".pairwise-index", where, detail, "np.ix_(rows, cols) or two successive subscripts",
                         "two index arrays in one subscript are paired element by element: the diagonal of the block (or IndexError), not the block")
    if not found:
        ctx.held(rule, f"{'package' if not shorts else ', '.join(shorts)}: every function", f"{n} functions: no position of a filtered list used on the original, no pairwise fancy index", "", "positive control: 2 of 2 recognised")


ORDER_CODE = ["collator.py", "matrix/assembler.py", "stripe/assembler.py", "cubepart.py", "dimension.py"]


def order_index_sign_tests(ctx: Ctx, rule: str):
    """Items of a signed order: `>= 0` base element, `< 0` insertion - index 0 is the first base element."""
    from .. import truthiness as T
    from ..loader import AnalysisError

    if T.sign_self_check() != 1:
        raise AnalysisError("order-index sign lint: the positive control is no longer recognised")
    n, hits = T.scan_sign_tests(ctx.repo, ORDER_CODE)
    ctx.count("functions scanned for order-index sign tests", n)
    for where, test, it in hits:
        ctx.violated(rule, where, f"{test} on an item of {it}", "idx >= 0 (base element) / idx < 0 (insertion)", "index 0 is the first base element: a strict comparison drops it together with the insertions (or keeps it among them)")
    if not hits:
        ctx.held(rule, "ordering code: every sign test on an order item", f"{n} functions, no strict comparison of an order item with 0", "", "positive control recognised")


MEASURE_CODE = ["matrix/measure.py", "stripe/measure.py", "matrix/cubemeasure.py", "stripe/cubemeasure.py", "matrix/subtotals.py", "stripe/insertion.py",
                "smoothing.py", "cubepart.py", "measures/pairwise_significance.py", "min_base_size_mask.py", "scalar.py"]


SCOPE_WORDS = {
    "C03": ("proportion", "percentage"),
    "C11": ("variance", "standarderror", "stderr", "std_err", "std_dev", "stddev", "moe"),
    "C12": ("zscore", "pval", "residual"),
    "C13": ("pairwise",),
    "C14": ("scale", "scaled"),
    "C15": ("share",),
    "C16": ("columnindex", "column_index", "unconditional"),
    "C17": ("population",),
    "C20": ("smooth",),
}


def no_shared_writes(ctx: Ctx, rule: str, shorts=None, accept=("Fresh", "Self"), origin_words=None):
    """A measure never writes into an array it did not create: its operands are the cached values of OTHER measures
    (lazyproperty values, blocks handed over by reference), so an in-place write changes what those report afterwards -
    the value of this property's measure, or of the one it borrowed from, then depends on which was read first.
    (EFFECTS inventory restricted to the measure layers; the package-wide inventory with the accepted sites is C18.)"""
    from ..effects import inventory

    shorts = shorts or MEASURE_CODE
    words = SCOPE_WORDS.get(ctx.prop)
    n, bad = 0, []
    for w in inventory(ctx.repo):
        short = w.member.cls.module.path.split("cr/cube/")[-1]
        if short not in shorts:
            continue
        # only the classes / members that compute THIS property's measures
        if words is not None:
            tag = (w.member.cls.name + "." + w.member.name + " " + short).lower()
            if not any(x in tag for x in words):
                continue
        n += 1
        if w.cls in accept or "read-only flag" in w.sig:
            continue
        # only objects that come from the named layer (e.g. the cube-measure layer, whose arrays are views of the payload)
        if origin_words is not None and not any(x in w.origin for x in origin_words):
            continue
        bad.append(w)
    ctx.count("write sites in this property's measure code", n)
    for w in bad:
        ctx.violated(rule, w.key, f"write to a {w.cls} object (root `{w.root}`)", "writes only to arrays created in the writing function",
                     "the operand is a cached value of another measure: after this read that measure reports the modified values")
    if not bad:
        ctx.held(rule, "this property's measure classes: every write site", f"{n} write sites, all to objects created by the writing function", "")


ORDERING_PROPS = ("C05", "C07", "C08", "C09")


# the lints that bear on C18 (results independent of history / process): everything else is about values
C18_LINT_KINDS = ("literal-identity", "unordered", "non-unique-key")


def generic_lints(ctx: Ctx, rule: str = "lint", kinds=None, scope=None):
    """Constructs that are wrong wherever they stand (cubeverif/lints.py), reported for the code that computes THIS
    property's quantities (cubeverif/scope.py)."""
    from .. import lints as L
    from ..loader import AnalysisError
    from ..scope import in_scope

    if L.self_check() != (23, 0) or L.orientation_self_check() != (1, 0):
        raise AnalysisError(f"generic lints: the positive control is no longer recognised {L.self_check()} {L.orientation_self_check()}")
    n, hits = 0, []
    members = []
    chosen = set()
    for m in ctx.repo.all_members():
        short = m.cls.module.path.split("cr/cube/")[-1]
        if not (scope(short, m.cls.name, m.name) if scope is not None else in_scope(ctx.prop, short, m.cls.name, m.name)):
            continue
        members.append(m)
        chosen.add(id(m.node))
    # ... and the PRIVATE helpers of the same class those members read (`self._subvar_Ns`), two levels deep: a
    # computation hoisted into a helper is still this property's computation
    frontier = list(members)
    for _level in range(2):
        nxt = []
        for m in frontier:
            for a in ast.walk(m.node):
                if isinstance(a, ast.Attribute) and isinstance(a.value, ast.Name) and a.value.id in ("self", "cls") and a.attr.startswith("_") and not a.attr.startswith("__"):
                    h = ctx.repo.lookup(m.cls, a.attr)
                    if h is not None and id(h.node) not in chosen and h.cls.module is m.cls.module:
                        chosen.add(id(h.node))
                        nxt.append(h)
        members += nxt
        frontier = nxt
    for m in members:
        short = m.cls.module.path.split("cr/cube/")[-1]
        n += 1
        helpers = []
        for a in ast.walk(m.node):
            if isinstance(a, ast.Call) and isinstance(a.func, ast.Attribute) and isinstance(a.func.value, ast.Name) and a.func.value.id in ("self", "cls"):
                h = ctx.repo.lookup(m.cls, a.func.attr)
                if h is not None and h.node is not m.node:
                    helpers.append(h.node)
        for kind, text, why in L.scan_function(m.node, m.name, ctx.prop in ORDERING_PROPS, helpers):
            if kinds is None and ctx.prop == "C18" and kind not in C18_LINT_KINDS:
                continue
            if kinds is not None and kind not in kinds:
                continue
            hits.append((f"{short}::{m.cls.name}.{m.name} [{text}]", kind, why))
    ctx.count("functions in this property's scope (generic lints)", n)
    ctx.require_min("functions in this property's scope (generic lints)", 3)
    for where, kind, why in hits:
        ctx.violated(f"{rule}.{kind}", where, kind, "see cubeverif/lints.py", why)
    if not hits:
        ctx.held(rule, "this property's code: floor division, int casts, identity with literals, unordered sets", f"{n} functions scanned, none found", "", "positive control: 23 of 23 recognised")
    if kinds is None and scope is None:
        public_cache_slots(ctx)


def public_cache_slots(ctx: Ctx, rule: str = "public-alias.cache-slot"):
    """The public accessors this property is observed at (the `observe_at` names of its record that are attributes of the
    partition classes) each have a cache slot of their own - see shared_cache_slots."""
    import json as _json
    import os as _os
    import re as _re

    path = _os.path.join(_os.path.dirname(_os.path.dirname(_os.path.dirname(_os.path.abspath(__file__)))), "properties.jsonl")
    rec = next((r for r in map(_json.loads, open(path)) if r.get("id") == ctx.prop), None)
    if rec is None:
        return
    words = set(_re.findall(r"[A-Za-z_][A-Za-z0-9_]*", " ".join(rec.get("anchors", {}).get("observe_at", []) or [])))
    already = {o.construct for o in ctx.obligations if o.rule.endswith(rule)}
    for cname in ("_Slice", "_Strand"):
        ci = ctx.repo.opt_cls("cubepart.py", cname)
        if ci is None:
            continue
        attrs = set()
        for c in ci.mro:
            if c.module is not ci.module:
                continue
            attrs |= set(c.members) | set(c.aliases)
            attrs |= {st.targets[0].id for st in c.node.body if isinstance(st, ast.Assign) and len(st.targets) == 1 and isinstance(st.targets[0], ast.Name)}
        names = tuple(sorted(w for w in words if w in attrs and not w.startswith("_")))
        if names and f"cubepart.py::{cname} [{', '.join(names)}]" not in already:
            shared_cache_slots(ctx, rule, "cubepart.py", cname, names)


# --------------------------------------------------------------------------- dependency footprints of the measures
FOOTPRINT_PLUMBING = ("Cube.ndim", "Cube.dimension_types", "Cube.dimensions", "Dimension.apply_transforms")
FOOTPRINT_WORDS = {
    "C01": ("means", "medians", "stddev", "sums", "weighted_counts", "unweighted_counts"),
    "C02": ("base", "comparable_counts"),
    "C03": ("proportion",),
    "C09": ("pruning",),
    "C11": ("variance", "std_err", "stderr", "stddev"),
    "C12": ("zscores", "pvalues"),
    "C13": ("pairwise",),
    "C14": ("scale",),
    "C15": ("share_sum",),
    "C16": ("column_index",),
    "C17": ("population",),
    "C20": ("smoothed",),
}
FOOTPRINT_EXCLUDE = {"C01": ("scale", "smoothed", "proportion", "population"), "C02": ("squared",), "C03": ("variance", "population", "stderr", "stddev", "smoothed"), "C11": ("scale", "population"),
                     "C14": ("smoothed",), "C16": ("smoothed",)}


def dependency_footprints(ctx: Ctx, rule: str = "footprint"):
    """What each measure of the two measure collections DEPENDS ON (FLOW leaf reads of its blocks, before assembly) is
    compared with the table confirmed on the pinned tree (specs/footprints.json): a measure that starts to depend on
    other data (the pruning mask's unweighted counts in the column index, a weighted flag in the squared base ...) or
    stops depending on something it is specified from (the dimension type in a wave-difference proportion) has changed
    its meaning, however the code is spelled.  Plumbing reads (number of dimensions, fields of the partition) are
    ignored.  Only this property's measures are compared."""
    import json as _json
    import os as _os

    words = FOOTPRINT_WORDS.get(ctx.prop)
    if not words:
        return
    path = _os.path.join(_os.path.dirname(_os.path.dirname(_os.path.abspath(__file__))), "specs", "footprints.json")
    frozen = _json.load(open(path))
    n = 0
    for tag, coll in (("matrix", slice_measures_obj(ctx)), ("stripe", strand_measures_obj(ctx))):
        for key, want in sorted(frozen.items()):
            t, name = key.split(".", 1)
            if t != tag or not any(w in name for w in words) or any(x in name for x in FOOTPRINT_EXCLUDE.get(ctx.prop, ())):
                continue
            where = f"{'matrix/measure.py::SecondOrderMeasures' if tag == 'matrix' else 'stripe/measure.py::StripeMeasures'}.{name} [dependencies]"
            if ctx.repo.lookup(coll.cls, name) is None:
                ctx.undecided(rule, where, "measure not found in the collection", "")
                continue
            def sem(ls):
                keep = {l for l in ls if l not in FOOTPRINT_PLUMBING and not l.startswith("FIELD:")}
                # a presence test `X is None` of an optional measure is a dependence on X like a read of its values (whether
                # FLOW sees the values travel - through *args, a tuple - depends on the spelling of the call)
                return {l[:-1] if l.endswith("?") else l for l in keep}

            got, exp = sem(measure_blocks_reads(ctx, coll, name)), sem(want)
            n += 1
            added, removed = sorted(got - exp), sorted(exp - got)
            if removed and not added and (not got or len(removed) >= max(3, len(exp) - 1)):
                # (almost) every dependency vanished at once and none appeared: FLOW lost the measure's construction (a
                # member looked up by a computed name, ...) - absence of a read is no evidence
                ctx.undecided(rule, where, f"FLOW derives only {sorted(got)} of {sorted(exp)}", "dependency footprint")
            elif added or removed:
                ctx.violated(rule, where, f"now also depends on {added}; no longer depends on {removed}", f"depends on {sorted(exp)}",
                             "the measure is computed from other facts than it is specified from")
            else:
                ctx.held(rule, where, f"{len(got)} leaf facts", f"{len(exp)} leaf facts (specs/footprints.json)")
    ctx.count("measure dependency footprints compared", n)
    ctx.require_min("measure dependency footprints compared", 1)


def id_truthiness(ctx: Ctx, rule: str = "id-truthiness"):
    """Truth tests of element / insertion ids (0 is a valid category id) in this property's code."""
    from .. import truthiness as T
    from ..loader import AnalysisError
    from ..scope import in_scope

    if T.id_self_check() != 2:
        raise AnalysisError("id-truthiness lint: the positive control is no longer recognised")
    n, hits = 0, []
    for m in ctx.repo.all_members():
        short = m.cls.module.path.split("cr/cube/")[-1]
        if not in_scope(ctx.prop, short, m.cls.name, m.name):
            continue
        n += 1
        consts = {}
        for c in reversed(m.cls.mro or [m.cls]):
            consts.update(c.consts)
        for _line, context, expr in T.id_truth_tests(m.node, consts):
            hits.append((f"{short}::{m.cls.name}.{m.name} [{expr[:60]}]", context, expr))
    for where, context, expr in hits:
        ctx.violated(rule, where, f"truth test ({context}) of {expr}", "`is None` / membership test", "0 is a valid element id (and '' a valid alias): the reference is treated as unresolvable and the sort / transform silently falls back")
    if not hits:
        ctx.held(rule, "this property's code: every truth test", f"{n} functions, no id is tested for truth", "", "positive control recognised")


def float64_extractors(ctx: Ctx, rule: str = "float64-payload"):
    """Every measure extractor (`_flat_values` of the _BaseMeasure family, and its helpers) hands out np.float64 arrays on
    EVERY array-returning path: integer payloads kept as int64 make the products of bases in the residual / pairwise
    formulas wrap around for large tables, and cannot hold NaN.  Must-pass-through: each returned array is built by
    np.array(..., dtype=np.float64) or coerced by .astype(np.float64)."""
    import ast as _ast

    from ..stmts import reachable_functions, resolver
    from ..symex import u as _u

    base = ctx.repo.cls("cube.py", "_BaseMeasure")
    n = 0
    for ci in [base] + base.all_subclasses():
        if "_flat_values" not in ci.members:
            continue
        fns = reachable_functions(ctx.repo, ci, "_flat_values")
        for fn in fns:
            res = resolver(fn, multi=True)
            for r in _ast.walk(fn):
                if not (isinstance(r, _ast.Return) and r.value is not None):
                    continue
                for v in res(r.value):
                    # leaves of conditionals
                    stack, leaves = [v], []
                    while stack:
                        x = stack.pop()
                        if isinstance(x, _ast.IfExp):
                            stack += [x.body, x.orelse]
                        else:
                            leaves.append(x)
                    for leaf in leaves:
                        t = _u(leaf)
                        # a call of a helper of the class: what IT returns is analysed where it is defined (it is reachable)
                        if isinstance(leaf, _ast.Call) and isinstance(leaf.func, _ast.Attribute) and isinstance(leaf.func.value, _ast.Name) and leaf.func.value.id in ("self", "cls") and ctx.repo.lookup(ci, leaf.func.attr) is not None:
                            continue
                        if t == "None" or not ("np.array(" in t or ".astype(" in t or "np.asarray(" in t or t in ("counts", "values", "data")):
                            continue
                        n += 1
                        is_float = ("dtype=np.float64" in t and t.rstrip(")").count("np.array(") >= 1 and (t.startswith("np.array(") or t.startswith("np.asarray("))) or t.endswith(".astype(np.float64)")
                        # an outer np.array(..., dtype=np.float64) wrapping anything is float
                        if isinstance(leaf, _ast.Call) and _u(leaf.func) in ("np.array", "np.asarray") and any(k.arg == "dtype" and _u(k.value) in ("np.float64", "float", "'float64'") for k in leaf.keywords):
                            is_float = True
                        where = f"cube.py::{ci.name}.{fn.name} [{t[:60]}]"
                        if is_float:
                            ctx.held(rule, where, "float64", "np.float64 array")
                        else:
                            ctx.violated(rule, where, t[:120], "np.array(..., dtype=np.float64) / .astype(np.float64)", "an integer payload keeps an integer dtype: products of bases overflow int64 for large tables and NaN cannot be stored")
    ctx.count("measure extractor array returns", n)
    ctx.require_min("measure extractor array returns", 8)


# --------------------------------------------------------------------------- an object rebuilt from itself keeps all its settings
def rebuild_forwards_settings(ctx: Ctx, rule: str, cls_short: str, cls_name: str, params: tuple):
    """A method of class K that builds a NEW K to stand in for `self` (augment_response -> Cube(...)) must hand over every
    setting the instance holds - a dropped argument silently falls back to the constructor default (population 0, minimum
    base 0, no transforms ...).  `params`: the constructor parameters this property's quantities depend on."""
    import ast as _ast

    from ..symex import u as _u

    ci = ctx.repo.cls(cls_short, cls_name)
    init = ctx.repo.lookup(ci, "__init__")
    if init is None:
        return
    all_params = init.params
    n = 0
    for m in ci.members.values():
        if m.kind in ("classmethod", "staticmethod") or m.name == "__init__":
            continue
        for c in _ast.walk(m.node):
            if isinstance(c, _ast.Call) and isinstance(c.func, _ast.Name) and c.func.id == cls_name and (len(c.args) + len(c.keywords)) >= 2:
                # a re-build that carries settings over (a bare K(response) is a plain parse of another response)
                n += 1
                passed = set(all_params[: len(c.args)]) | {k.arg for k in c.keywords if k.arg}
                for p in params:
                    where = f"{cls_short}::{cls_name}.{m.name} [{cls_name}(...) forwards `{p}`]"
                    if p in passed:
                        ctx.held(rule, where, f"`{p}` is passed on", "")
                    else:
                        ctx.violated(rule, where, f"passed: {sorted(passed)}", f"`{p}` handed over to the rebuilt {cls_name}", f"the rebuilt object falls back to the default of `{p}`: the setting given by the caller is lost for this cube only")
    ctx.count(f"{cls_name} rebuild sites", n)


# --------------------------------------------------------------------------- lazyproperty caches under the wrapped function's name
def lazyproperty_call_form(ctx: Ctx, rule: str = "descriptor.cache-key", shorts=None):
    """`lazyproperty` stores the value in the instance __dict__ under the NAME OF THE WRAPPED FUNCTION.  Used as a decorator
    that name is the attribute's name.  Called as a function (`x = lazyproperty(getter)`, a property factory) the key is
    the getter's name: two attributes produced from one getter share one cache slot - whichever is read first decides
    what the other returns."""
    import ast as _ast

    from ..symex import u as _u

    hits, n = [], 0
    for mod in ctx.repo.modules.values():
        short = mod.path.split("cr/cube/")[-1]
        if shorts is not None and short not in shorts:
            continue
        deco = set()
        for node in _ast.walk(mod.tree):
            if isinstance(node, (_ast.FunctionDef, _ast.AsyncFunctionDef)):
                for d in node.decorator_list:
                    deco.add(id(d))
        for node in _ast.walk(mod.tree):
            if isinstance(node, _ast.Call) and _u(node.func).split(".")[-1] == "lazyproperty" and id(node) not in deco:
                n += 1
                hits.append(f"{short}: {_u(node)[:70]} (line {node.lineno})")
    if hits:
        ctx.violated(rule, ("package" if shorts is None else ", ".join(shorts)) + ": lazyproperty(...) used as a function", hits, "@lazyproperty on the function that carries the attribute's name", "attributes built from one wrapped function share one cache slot")
    else:
        ctx.held(rule, ("package" if shorts is None else ", ".join(shorts)) + ": every use of lazyproperty", "decorator form only", "")


# --------------------------------------------------------------------------- public values are assembled measure blocks
def public_values_assembled(ctx: Ctx, rule: str, cls_name: str, props):
    """A public array property of a partition is the ASSEMBLY of the corresponding measure's blocks on every path that
    returns an array: a path that returns something else (an all-NaN array by a shape test, a constant) answers from the
    display layer, with other rules than the measure's (the displayed shape is not the table's shape)."""
    import ast as _ast

    from ..symex import SUMMARIZER as _S, expand as _expand, strip_ifexp_paths as _paths, u as _u

    ci = ctx.repo.cls("cubepart.py", cls_name)
    for prop in props:
        if ctx.repo.lookup(ci, prop) is None:
            continue
        # lazy properties are followed, METHODS stay symbolic (their loops / stores are opaque to SYMEX): a call of a
        # private method counts as "from the measure" when that method (transitively) assembles measure blocks
        from ..stmts import reachable_functions as _reach

        def reaches_measure(name: str) -> bool:
            return any("_assemble_" in _ast.unparse(f) or "self._measures" in _ast.unparse(f) for f in _reach(ctx.repo, ci, name, depth=3))

        e = _expand(ctx.repo, ci, prop, stop=lambda m: m.name.startswith("_assemble") or m.name in ("_measures",) or m.kind not in ("lazyproperty", "property"))
        where = f"cubepart.py::{cls_name}.{prop}"
        bad = []
        for gs, leaf in _paths(e):
            t = _u(leaf)
            if t == "None" or t.startswith("__raise__"):
                continue

            class _DropShapes(_ast.NodeTransformer):
                # the SHAPE of an assembled array is not its values
                def visit_Attribute(self, n):
                    if n.attr in ("shape", "size", "ndim", "dtype"):
                        return _ast.Constant(value=0)
                    return self.generic_visit(n)

                def visit_Call(self, n):
                    if isinstance(n.func, _ast.Name) and n.func.id == "len":
                        return _ast.Constant(value=0)
                    return self.generic_visit(n)

            import copy as _copy

            stripped = _DropShapes().visit(_copy.deepcopy(leaf))
            t = _u(stripped)
            via_method = any(isinstance(c, _ast.Call) and isinstance(c.func, _ast.Attribute) and isinstance(c.func.value, _ast.Name) and c.func.value.id == "self" and reaches_measure(c.func.attr) for c in _ast.walk(stripped))
            if "_assemble_" not in t and "self._measures" not in t and not via_method:
                bad.append((" & ".join(("" if p else "not ") + _u(g)[:40] for g, p in gs), t[:60]))
        if bad:
            ctx.violated(rule, where, bad[:3], "every array-returning path assembles the measure's blocks", "an answer given from the display layer (displayed shape, constants) instead of from the measure")
        else:
            ctx.held(rule, where, "every array-returning path goes through the measure and its assembly", "")


def payload_value_truthiness(ctx: Ctx, rule: str = "payload-truthiness", shorts=("cube.py",)):
    """Truth tests of values read from the response (0 and "" are values) in the code that edits / pads responses."""
    from .. import truthiness as T
    from ..loader import AnalysisError

    if T.payload_self_check() != 1:
        raise AnalysisError("payload-truthiness lint: the positive control is no longer recognised")
    n, hits = 0, []
    for m in ctx.repo.all_members():
        short = m.cls.module.path.split("cr/cube/")[-1]
        if short not in shorts:
            continue
        n += 1
        for _l, context, expr in T.payload_value_truth_tests(m.node):
            hits.append((f"{short}::{m.cls.name}.{m.name} [{expr[:50]}]", context, expr))
    for where, context, expr in hits:
        ctx.violated(rule, where, f"truth test ({context}) of {expr}", "`is not None` / a type test", "a row whose value is 0 or '' is dropped: every later count is paired with the wrong row")
    if not hits:
        ctx.held(rule, f"{', '.join(shorts)}: every truth test", f"{n} functions, no payload value is tested for truth", "", "positive control recognised")


def positional_args(ctx: Ctx, call: ast.Call, callee) -> Optional[List[ast.expr]]:
    """Arguments of `call` in the parameter order of `callee` (a Member), keywords bound by name; None when a keyword
    does not name a parameter or a *args / **kwargs is present."""
    params = [p for p in callee.params if p not in ("self", "cls")]
    out = list(call.args)
    if any(isinstance(a, ast.Starred) for a in out):
        return None
    if not call.keywords:
        return out
    slots: List[Optional[ast.expr]] = out + [None] * max(0, len(params) - len(out))
    for k in call.keywords:
        if k.arg is None or k.arg not in params:
            return None
        i = params.index(k.arg)
        if i < len(out):
            return None
        slots[i] = k.value
    while slots and slots[-1] is None:
        slots.pop()
    if any(x is None for x in slots):
        return None
    return slots  # type: ignore[return-value]


def axis_role_lint(ctx: Ctx, rule: str, entries=None, classes=("_Slice",)):
    """Row-position collections index axis 0, column-position collections axis 1, and a TUPLE of positions is never the whole
    subscript.  `entries` restricts the scan to the functions reachable (through self helpers) from those public members."""
    from .. import indexspace as IS
    from ..loader import AnalysisError
    from ..stmts import reachable_functions

    if IS.axis_self_check() != (2, 0):
        raise AnalysisError("axis-role lint: the positive control is no longer recognised")
    n, hits = 0, []
    for cname in classes:
        ci = ctx.repo.cls("cubepart.py", cname)
        if entries is None:
            fns = [(name, m.node) for c in ci.mro for name, m in c.members.items()]
        else:
            seen, fns = set(), []
            for e in entries:
                if ctx.repo.lookup(ci, e) is None:
                    continue
                for fn in reachable_functions(ctx.repo, ci, e):
                    if id(fn) not in seen:
                        seen.add(id(fn))
                        fns.append((getattr(fn, "name", e), fn))
        for name, fn in fns:
            if not isinstance(fn, ast.FunctionDef):
                continue
            n += 1
            for _l, kind, text in IS.axis_role_misuse(fn):
                hits.append((f"cubepart.py::{cname}.{name} [{text.split(':')[0][:60]}]", kind, text))
    ctx.count("partition functions scanned for axis roles", n)
    for where, kind, text in hits:
        ctx.violated(rule, where, text, "rows on axis 0 (`m[list(row_idxs), :]`), columns on axis 1 (`m[:, col_idxs]`)",
                     "the NaN / selection lands on other vectors than the ones meant (or on a single cell), or raises IndexError for two or more positions")
    if not hits:
        ctx.held(rule, f"cubepart.py::{'/'.join(classes)}: every subscript with a position collection", f"{n} functions, every collection stands on its own axis", "", "positive control: 2 of 2 recognised")


def value_any_lint(ctx: Ctx, rule: str = "collection-any", shorts=None):
    """any() / np.any() / all() over a collection of positions or ids tests the VALUES (position 0 is falsy)."""
    from .. import truthiness as T
    from ..loader import AnalysisError

    if T.any_self_check() != (1, 0):
        raise AnalysisError("collection-any lint: the positive control is no longer recognised")
    shorts = shorts or (ORDER_CODE + ["matrix/cubemeasure.py", "stripe/cubemeasure.py"])
    n, hits = 0, []
    for m in ctx.repo.all_members():
        short = m.cls.module.path.split("cr/cube/")[-1]
        if short not in shorts:
            continue
        n += 1
        for _l, text in T.value_any_tests(m.node):
            hits.append((f"{short}::{m.cls.name}.{m.name} [{text[:50]}]", text))
    for where, text in hits:
        ctx.violated(rule, where, text, "len(x) / x.size / `is not None`", "the collection holding only position (or id) 0 is taken for empty: the first element is never pruned / hidden / anchored")
    if not hits:
        ctx.held(rule, "ordering and pruning code: every any()/all() over positions or ids", f"{n} functions, none tests the values of a position collection", "", "positive control recognised")


NAN_TEXTS = ("np.nan", "np.NaN", "float('nan')", "math.nan")


def explicit_nan_criterion(ctx: Ctx, rule: str, denominator_words=("base", "margin"), exclude_words=()):
    """A quotient is undefined exactly where its denominator is zero - and there the division itself yields NaN.  An
    EXPLICIT NaN written in this property's measure code (np.full(.., nan), np.where(c, nan, ..), `x[m] = nan`, a NaN
    `out=` default under `where=`) is inspected for the CRITERION that selects the cells: it has to mention the
    denominator.  A criterion on the numerator (counts), on the extent, ... blanks cells whose base is positive."""
    from ..scope import in_scope
    from ..stmts import enclosing_guards, resolver

    n, n_sites, bad = 0, 0, []
    for m in ctx.repo.all_members():
        short = m.cls.module.path.split("cr/cube/")[-1]
        if short not in ("matrix/measure.py", "stripe/measure.py") or not in_scope(ctx.prop, short, m.cls.name, m.name):
            continue
        if any(w in (m.cls.name + "." + m.name).lower() for w in exclude_words):
            continue
        n += 1
        fn = m.node
        if not isinstance(fn, ast.FunctionDef):
            continue
        res = resolver(fn, multi=True)
        for c in ast.walk(fn):
            crit = None
            site = None
            if isinstance(c, ast.Call) and u(c.func) in ("np.full", "np.full_like") and any(u(a) in NAN_TEXTS for a in c.args):
                site = c
                crit = [t for t, _p in enclosing_guards(fn, c)]
                # np.divide(.., out=np.full(.., nan), where=mask): the mask is the criterion
                for d in ast.walk(fn):
                    if isinstance(d, ast.Call) and any(k.arg == "out" and k.value is c for k in d.keywords):
                        crit = [k.value for k in d.keywords if k.arg == "where"] or crit
            elif isinstance(c, ast.Call) and u(c.func) in ("np.where", "np.putmask", "np.place") and any(u(a) in NAN_TEXTS for a in c.args):
                site = c
                crit = [c.args[0] if u(c.func) == "np.where" else c.args[1]] if len(c.args) >= 2 else []
            elif isinstance(c, ast.Assign) and isinstance(c.targets[0], ast.Subscript) and u(c.value) in NAN_TEXTS:
                site = c
                crit = [c.targets[0].slice] + [t for t, _p in enclosing_guards(fn, c)]
            if site is None:
                continue
            n_sites += 1
            texts = " ".join(u(v) for t in (crit or []) for v in res(t)).lower()
            if not crit:
                bad.append((f"{short}::{m.cls.name}.{m.name} [{u(site)[:50]}]", "unconditional", u(site)[:100]))
            elif not any(w in texts for w in denominator_words):
                bad.append((f"{short}::{m.cls.name}.{m.name} [{u(site)[:50]}]", texts[:120], u(site)[:100]))
    ctx.count("members scanned for explicit NaN", n)
    for where, crit, site in bad:
        ctx.violated(rule, where, f"{site}  selected by: {crit}", "NaN only from the division, or selected by the denominator",
                     "cells whose base is positive are blanked (e.g. a multiple-response table nobody selected anything in: counts all zero, bases positive, proportion 0 - not NaN)")
    if not bad:
        ctx.held(rule, "this property's measure classes: every explicit NaN", f"{n} members, {n_sites} explicit NaN site(s), each selected by the denominator", "")


def set_order_lint(ctx: Ctx, rule: str = "hash-order"):
    """No result is built from the iteration order of a set (PYTHONHASHSEED-dependent for strings and enum members)."""
    from .. import lints as L
    from ..loader import AnalysisError

    if L.set_order_self_check() != (1, 0):
        raise AnalysisError("hash-order lint: the positive control is no longer recognised")
    set_members = set()
    for m in ctx.repo.all_members():
        if isinstance(m.node, ast.FunctionDef) and m.node.returns is not None and any(w in u(m.node.returns) for w in ("FrozenSet", "Set[", "frozenset")):
            set_members.add(m.name)
    n, hits = 0, []
    for m in ctx.repo.all_members():
        if not isinstance(m.node, ast.FunctionDef):
            continue
        n += 1
        short = m.cls.module.path.split("cr/cube/")[-1]
        for _l, text in L.set_order_uses(m.node, frozenset(set_members)):
            hits.append((f"{short}::{m.cls.name}.{m.name} [{text[:50]}]", text))
    ctx.count("functions scanned for set-order dependence", n)
    for where, text in hits:
        ctx.violated(rule, where, text, "sorted(..) / iteration over an ordered collection filtered by membership",
                     "the order of a set of strings / enum members changes with the interpreter's hash seed: the same response gives different results in different processes")
    if not hits:
        ctx.held(rule, "package: every set turned into a sequence", f"{n} functions, {len(set_members)} set-valued members: no sequence is built from a set's iteration order", "", "positive control recognised")


def marginal_leaves(ctx: Ctx, sl, public: str, want: str):
    """Leaves of the public marginal property with private helper METHODS inlined (a shared `_margin_proportion(orientation)`)
    and literal conditions folded.  -> (leaf texts, verdict): True when `want` is one of them; False when a path assembles
    ANOTHER marginal of the measures object (positive evidence of a substitution); None otherwise."""
    from ..symex import expand, fold_consts, strip_ifexp_paths

    e = expand(ctx.repo, sl, public, stop=lambda m: m.kind in ("lazyproperty", "property") or m.name in ("_assemble_matrix", "_assemble_marginal", "_assemble_vector"))

    class _Enum(ast.NodeTransformer):
        # MO.ROWS == MO.ROWS -> True, MO.ROWS == MO.COLUMNS -> False (members of one enumeration)
        def visit_Compare(self, n):
            self.generic_visit(n)
            if len(n.ops) == 1 and isinstance(n.ops[0], (ast.Eq, ast.NotEq, ast.Is, ast.IsNot)):
                a, b = u(n.left), u(n.comparators[0])
                if a.startswith("MO.") and b.startswith("MO."):
                    same = a == b
                    return ast.Constant(value=same if isinstance(n.ops[0], (ast.Eq, ast.Is)) else not same)
            return n

    e = fold_consts(_Enum().visit(e))
    leaves = [u(l) for _g, l in strip_ifexp_paths(e)]
    if want in leaves:
        return leaves, True
    other = [l for l in leaves if l.startswith("self._assemble_marginal(self._measures.") and l != want]
    return leaves, (False if other else None)


def transform_pairing_table(ctx: Ctx, rule: str = "transform-pairing"):
    """Which transforms reach which dimension: the strand's rows dimension is the LAST dimension of its cube with the
    `rows_dimension` transforms (also when the cube is a 2-D categorical array shown CA-as-0th); the slice's dimensions are
    the last two with (`rows_dimension`, `columns_dimension`).  DECTAB over cubes of 1..3 dimensions with a symbolic
    `apply_transforms`, whatever helper the pairing is computed in."""
    from ..dectab import DTop, ModelInterp, Raises
    from ..symex import expand

    class _I(ModelInterp):
        def _call(self, c, it):
            if isinstance(c.func, ast.Attribute) and c.func.attr == "apply_transforms" and len(c.args) == 1:
                return ("T", self.ev(c.func.value), self.ev(c.args[0]))
            return super()._call(c, it)

    tdict = {"rows_dimension": "ROWS-TRANSFORMS", "columns_dimension": "COLUMNS-TRANSFORMS"}
    for cname, member, ndims in (("_Strand", "_rows_dimension", (1, 2)), ("_Slice", "_dimensions", (2, 3))):
        ci = ctx.repo.cls("cubepart.py", cname)
        where = f"cubepart.py::{cname}.{member} [transforms]"
        if ctx.repo.lookup(ci, member) is None:
            ctx.undecided(rule, where, "member not found", "")
            continue
        body = expand(ctx.repo, ci, member, stop=lambda m: m.name in ("_cube", "_transforms_dict"))
        bad, n = [], 0
        try:
            for nd in ndims:
                dims = tuple(f"D{i}" for i in range(nd))

                def atoms(x, dims=dims):
                    t = u(x)
                    if t == "self._cube.dimensions":
                        return dims
                    if t == "self._transforms_dict":
                        return tdict
                    raise KeyError

                got = _I(atoms).ev(body)
                if cname == "_Strand":
                    want = ("T", dims[-1], "ROWS-TRANSFORMS")
                else:
                    got = tuple(got)
                    want = (("T", dims[-2], "ROWS-TRANSFORMS"), ("T", dims[-1], "COLUMNS-TRANSFORMS"))
                n += 1
                if got != want:
                    bad.append(f"{nd}-D cube: {got}, specified {want}")
        except Raises as r:
            bad.append(f"raises {r.etype}")
        except DTop as t:
            ctx.undecided(rule, where, "DECTAB: " + str(t), "last dimension(s) paired with (rows, columns) transforms")
            continue
        ctx.ob(rule, where, bad[:2] or f"{n} cube shapes", "strand: last dimension with the rows transforms; slice: last two dimensions with (rows, columns) transforms", not bad,
               "a CA-as-0th strand (2-D cube) gets the COLUMNS transforms on its rows: its hide / prune / order requests are ignored and the columns' ones applied")


def stored_value_expr(member, target_text: str):
    """The expression finally stored into `target_text` (e.g. 'self._population') by `member`, as ONE expression over the
    parameters: the function is summarised with that store turned into the return value (re-bindings such as
    `if population is None: population = 0` before the store are part of it).  None when there is no such store."""
    import copy as _copy

    from ..symex import Summarizer

    fn = _copy.deepcopy(member.node)
    hit = []

    class _T(ast.NodeTransformer):
        def visit_FunctionDef(self, n):
            if n is fn:
                return self.generic_visit(n)
            return n

        def visit_Assign(self, n):
            if len(n.targets) == 1 and u(n.targets[0]) == target_text:
                hit.append(1)
                return ast.Assign(targets=[ast.Name(id="__stored__", ctx=ast.Store())], value=n.value)
            return n

    fn = _T().visit(fn)
    if not hit:
        return None
    fn.body.append(ast.Return(value=ast.Name(id="__stored__", ctx=ast.Load())))
    ast.fix_missing_locations(fn)
    params = [a.arg for a in fn.args.posonlyargs + fn.args.args + fn.args.kwonlyargs if a.arg not in ("self", "cls")]
    return Summarizer().summarize(fn, {p: ast.Name(id=p, ctx=ast.Load()) for p in params})


# --------------------------------------------------------------------------- each element enters a subtotal at most once
def subtotal_terms_once(ctx: Ctx, rule: str = "terms-once"):
    """The positions a subtotal sums (`_Subtotal.addend_idxs` / `.subtrahend_idxs`) are a SELECTION of the dimension's valid
    elements: an element named twice in the insertion's id list is still one element, counted once.  Decided on the
    iteration domain of the generator that produces the positions (helpers inlined): over the elements (each yields at
    most one position) -> held; over the id list (one position per MENTION) without a de-duplicating wrapper ->
    violated: a repeated id is summed twice, the subtotal exceeds the count of the named categories and its proportion
    its base."""
    from ..symex import expand, u

    ci = ctx.repo.cls("dimension.py", "_Subtotal")
    ids = {"addend_idxs": "addend_ids", "subtrahend_idxs": "subtrahend_ids"}
    for member, idname in ids.items():
        where = f"dimension.py::_Subtotal.{member}"
        if ctx.repo.lookup(ci, member) is None:
            from ..loader import AnalysisError

            raise AnalysisError(f"{where} vanished")
        e = expand(ctx.repo, ci, member, stop=lambda m: m.name in ("addend_ids", "subtrahend_ids", "_valid_elements"))
        node, dedupe = e, False
        gen = None
        while True:
            if isinstance(node, (ast.GeneratorExp, ast.ListComp, ast.SetComp)):
                gen = node
                dedupe = dedupe or isinstance(node, ast.SetComp)
                break
            if isinstance(node, ast.Call) and node.args:
                f = u(node.func)
                if f in ("set", "frozenset", "np.unique", "dict.fromkeys", "OrderedDict.fromkeys", "collections.OrderedDict.fromkeys"):
                    dedupe = True
                node = node.args[0]
                continue
            break
        ctx.count("subtotal position generators")
        if gen is None or len(gen.generators) != 1:
            ctx.undecided(rule, where, u(e)[:160], "positions selected from the enumeration of the valid elements")
            continue
        it = u(gen.generators[0].iter)
        listed = any(x in it for x in ("addend_ids", "subtrahend_ids", "_subtotal_dict", "'args'", "'positive'", "'negative'"))
        if "_valid_elements" in it and not listed:
            # the elements themselves, their ids, their enumeration: one item per ELEMENT either way
            ctx.held(rule, where, f"iterates over {it}: one position per element", "each element contributes at most once")
        elif dedupe:
            ctx.held(rule, where, f"iterates over {it} under a de-duplicating wrapper", "each element contributes at most once")
        elif listed:
            ctx.violated(rule, where, f"one position per MENTION in {it}: {u(e)[:140]}", "one position per element (a selection of the valid elements, or de-duplicated)",
                         "an id listed twice in the insertion is summed twice: the subtotal is larger than the count of the categories it names, and its proportion can exceed 1")
        else:
            ctx.undecided(rule, where, f"iteration domain {it}", "the valid elements")
    ctx.require_min("subtotal position generators", 2)


# --------------------------------------------------------------------------- which dimension types carry no subtotals
def subtotal_free_types(ctx: Ctx, rule: str = "subtotal-free-types"):
    """A dimension's subtotals are dropped wholesale (an empty `_Subtotals`) for exactly the two kinds of SUBVARIABLE
    dimension whose elements cannot be summed (MR_SUBVAR, CA_SUBVAR): decision table over every DIMENSION_TYPE member of
    the type guard(s) under which `Dimension.subtotals` / `.subtotals_in_payload_order` return the empty collection
    (type-predicate helpers inlined; spelling-independent).  Any other type losing its subtotals makes insertions vanish
    that are neither hidden nor pruned; either of the two keeping them sums subvariables."""
    from ..dectab import DTop, Raises
    from ..symex import expand, strip_ifexp_paths, u
    from ..typetab import dt_members, eval_over_types

    ci = ctx.repo.cls("dimension.py", "Dimension")
    spec = {"MR_SUBVAR", "CA_SUBVAR"}

    def type_only(m):
        reads = {n.attr for n in ast.walk(m.node) if isinstance(n, ast.Attribute) and isinstance(n.value, ast.Name) and n.value.id == "self"}
        return bool(reads) and reads <= {"dimension_type"}

    for member in ("subtotals", "subtotals_in_payload_order"):
        where = f"dimension.py::Dimension.{member}"
        if ctx.repo.lookup(ci, member) is None:
            from ..loader import AnalysisError

            raise AnalysisError(f"{where} vanished")
        e = expand(ctx.repo, ci, member, stop=lambda m: not type_only(m))
        forced = []  # conjunctions of type guards under which the empty collection is returned
        for guards, leaf in strip_ifexp_paths(e):
            empty = isinstance(leaf, ast.Call) and u(leaf.func).endswith("_Subtotals") and leaf.args and u(leaf.args[0]) in ("[]", "()", "tuple()", "list()", "{}")
            if not empty:
                continue
            if all("dimension_type" in u(t) for t, _p in guards) and guards:
                forced.append(guards)
        ctx.count("subtotal-free type tables")
        if not forced:
            # the type guard may stand BEHIND the test for insertions in the analysis transforms: full table over
            # (dimension type x insertions in the transforms present / absent) of which path is taken
            INS = ("'insertions' in self._dimension_transforms_dict", "self._dimension_transforms_dict.get('insertions') is not None")
            paths = strip_ifexp_paths(e)
            known = all(("dimension_type" in u(t)) or u(t) in INS for gs, _l in paths for t, _p in gs)
            if known and paths:
                bad, n = [], 0
                try:
                    for mem in dt_members(ctx.repo):
                        for has_ins in (True, False):
                            for gs, leaf in paths:
                                if all((bool(eval_over_types(ctx.repo, ci.module, t, {"self.dimension_type": mem})) if "dimension_type" in u(t) else has_ins) == pol for t, pol in gs):
                                    # the collection is built by `_Subtotals(dicts, ..)` or by a helper of that name taking the dicts first
                                    if not (isinstance(leaf, ast.Call) and "subtotals" in u(leaf.func).lower() and leaf.args):
                                        raise DTop(f"leaf not recognised as a subtotals construction: {u(leaf)[:60]}")
                                    is_empty = u(leaf.args[0]) in ("[]", "()", "tuple()", "list()", "{}")
                                    n += 1
                                    if is_empty != (mem in spec):
                                        bad.append(f"{mem}, insertions in the analysis transforms {'present' if has_ins else 'absent'}: subtotals {'dropped' if is_empty else 'kept'} (specified {'dropped' if mem in spec else 'kept'})")
                                    break
                except (DTop, Raises) as exc:
                    ctx.undecided(rule, where, f"DECTAB: {exc}", "table over DIMENSION_TYPE")
                    continue
                ctx.ob(rule, where, bad[:3] or f"{n} (type, transforms) cases agree", "subtotals dropped wholesale for MR_SUBVAR and CA_SUBVAR only - wherever the insertions come from", not bad,
                       "the items of an MR / CA dimension are never summed: the base classes broadcast ONE item's base onto an inserted row")
                continue
            ctx.undecided(rule, where, "no path returns the empty collection under type guards alone", "empty for MR_SUBVAR / CA_SUBVAR")
            continue
        bad, n = [], 0
        try:
            for mem in dt_members(ctx.repo):
                got = False
                for guards in forced:
                    ok = True
                    for t, pol in guards:
                        v = bool(eval_over_types(ctx.repo, ci.module, t, {"self.dimension_type": mem}))
                        if v != pol:
                            ok = False
                            break
                    got = got or ok
                n += 1
                if got != (mem in spec):
                    bad.append(f"{mem}: subtotals {'dropped' if got else 'kept'} (specified {'dropped' if mem in spec else 'kept'})")
        except (DTop, Raises) as exc:
            ctx.undecided(rule, where, f"DECTAB: {exc}", "table over DIMENSION_TYPE")
            continue
        ctx.ob(rule, where, bad or f"{n} dimension types agree", "subtotals dropped wholesale for MR_SUBVAR and CA_SUBVAR only", not bad,
               "an insertion disappears only when it is hidden or the opposing dimension is pruned to nothing; the items of an MR / CA dimension are never summed")
    ctx.require_min("subtotal-free type tables", 2)


# --------------------------------------------------------------------------- zip of a filtered with an unfiltered view of one list
def _seq_source(e: ast.AST):
    """(source text, filtered?) of a sequence expression: a comprehension over ONE list (through tuple / list wrappers)."""
    while isinstance(e, ast.Call) and u(e.func) in ("tuple", "list", "iter") and len(e.args) == 1:
        e = e.args[0]
    if isinstance(e, (ast.ListComp, ast.GeneratorExp)) and len(e.generators) == 1:
        return u(e.generators[0].iter), bool(e.generators[0].ifs)
    if isinstance(e, ast.Call) and u(e.func) == "filter" and len(e.args) == 2:
        return u(e.args[1]), True
    return u(e), False


_ZIP_CONTROL = ("dict(zip(tuple(el['id'] for el in self._d['elements']), tuple(el['value'] for el in self._d['elements'] if ok(el))))",
                "dict(zip(tuple(el['id'] for el in self._d['elements']), tuple(el['value'] for el in self._d['elements'])))")


def _zip_mismatches(e: ast.AST):
    out = []
    for n in ast.walk(e):
        if isinstance(n, ast.Call) and isinstance(n.func, ast.Name) and n.func.id == "zip" and len(n.args) >= 2:
            srcs = [_seq_source(a) for a in n.args]
            for s_, f_ in srcs:
                if f_ and any(s2 == s_ and not f2 for s2, f2 in srcs):
                    out.append(f"zip of a FILTERED and an UNFILTERED view of {s_}: {u(n)[:150]}")
                    break
    return out


def zip_pairing(ctx: Ctx, rule: str, short: str, cname: str):
    """zip(A, B) where A and B are read off the SAME list, one through a filter and one without: position k of A is not
    element k of the list any more - unless everything filtered out stands at the end (where zip merely truncates), every
    later pair is shifted by one.  Members of the class fully expanded (lazy properties and helpers inlined)."""
    from ..loader import AnalysisError
    from ..symex import expand

    if [len(_zip_mismatches(ast.parse(t, mode="eval"))) for t in _ZIP_CONTROL] != [1, 0]:
        raise AnalysisError("zip pairing: the positive control is no longer recognised")
    ci = ctx.repo.cls(short, cname)
    n = 0
    hits = []
    for name, m in ci.members.items():
        if not any(isinstance(x, ast.Name) and x.id == "zip" for x in ast.walk(m.node)):
            continue
        n += 1
        try:
            e = expand(ctx.repo, ci, name)
        except Exception:
            continue
        for h in _zip_mismatches(e):
            hits.append((f"{short}::{cname}.{name}", h))
    ctx.count(f"members of {cname} that pair sequences with zip", n)
    for where, h in hits:
        ctx.violated(rule, where, h, "both sequences are taken from the list in the same way", "a filtered-out item that is not the LAST one shifts every later pair: each later id is paired with the next item's value")
    if not hits:
        ctx.held(rule, f"{short}::{cname}", f"{n} member(s) zip sequences; none pairs a filtered with an unfiltered view of one list", "", "positive control recognised")


# --------------------------------------------------------------------------- truth tests of stored measure values
_FIELD_TRUTH_CONTROL = "class S:\n    def __init__(self, means):\n        self._means = means\n    def means(self):\n        return float(self._means) if self._means else None\n    def ok(self):\n        return None if self._means is None else float(self._means)\n"


def _truth_tested(fn: ast.AST):
    """Expressions used AS a truth value: if / while / conditional-expression tests, operands of and / or / not (Compare
    nodes are comparisons, not truth tests of their operands)."""
    out = []

    def operands(t):
        if isinstance(t, ast.BoolOp):
            for v in t.values:
                yield from operands(v)
        elif isinstance(t, ast.UnaryOp) and isinstance(t.op, ast.Not):
            yield from operands(t.operand)
        else:
            yield t

    for n in ast.walk(fn):
        if isinstance(n, (ast.If, ast.While, ast.IfExp)):
            out += list(operands(n.test))
        elif isinstance(n, ast.BoolOp):
            out += [x for v in n.values[:-1] for x in operands(v)]  # `x or default`: x is truth-tested
        elif isinstance(n, ast.comprehension):
            for c in n.ifs:
                out += list(operands(c))
    return out


def data_field_truthiness(ctx: Ctx, rule: str, short: str, cname: str, value_exprs=()):
    """A measure VALUE (a mean, a count) of exactly 0 is a value: a bare truth test of a data field of the class - one stored
    from a constructor parameter - or of one of `value_exprs` (`x if self._means else nan`, `self._means or nan`) reports
    it as absent; on an array with several items it raises.  `is None` / `is not None` are the tests meant."""
    from ..loader import AnalysisError
    from ..stmts import resolver

    ctl = ast.parse(_FIELD_TRUTH_CONTROL).body[0]
    def scan(cnode, extra):
        fields = set()
        for f in cnode.body:
            if isinstance(f, ast.FunctionDef) and f.name == "__init__":
                params = {a.arg for a in f.args.args}
                for a in ast.walk(f):
                    if isinstance(a, ast.Assign) and isinstance(a.targets[0], ast.Attribute) and isinstance(a.targets[0].value, ast.Name) and a.targets[0].value.id == "self" and isinstance(a.value, ast.Name) and a.value.id in params:
                        fields.add("self." + a.targets[0].attr)
        targets = fields | set(extra)
        hits, n = [], 0
        for f in cnode.body:
            if not isinstance(f, ast.FunctionDef) or f.name == "__init__":
                continue
            n += 1
            res = resolver(f, multi=True)
            for t in _truth_tested(f):
                for v in res(t):
                    if u(v) in targets:
                        hits.append((f.name, u(t), u(v)))
        return hits, n, sorted(targets)

    if len(scan(ctl, ())[0]) != 1:
        raise AnalysisError("data-field truthiness: the positive control is no longer recognised")
    ci = ctx.repo.cls(short, cname)
    hits, n, targets = scan(ci.node, value_exprs)
    ctx.count(f"members of {cname} scanned for truth-tested values", n)
    for member, text, val in hits:
        ctx.violated(rule, f"{short}::{cname}.{member} [{text}]", f"truth test of {val}", "`is None` / `is not None`", "a value of exactly 0 (a mean of 0.0, a count of 0) is falsy: it is reported as absent / NaN")
    if not hits:
        ctx.held(rule, f"{short}::{cname}", f"{n} members; none of {targets} is tested for truth", "", "positive control recognised")


# --------------------------------------------------------------------------- attributes produced by a lazyproperty factory
def shared_cache_slots(ctx: Ctx, rule: str, short: str, cname: str, names):
    """`lazyproperty` caches under the `__name__` of the function it wraps.  Attributes PRODUCED by a factory
    (`pvalues = _alias("pvals")`, the factory returning `lazyproperty(inner)`) all wrap a function of the same name: they
    share one slot of the instance __dict__, and whichever is read first is what the others return (`pvalues` hands out the
    count matrix after `weighted_counts` was read).  Reported for this property's attributes `names` only."""
    ci = ctx.repo.cls(short, cname)
    mod = ci.module
    groups = {}
    n = 0
    for c in ci.mro:
        if c.module is not mod:
            continue
        for st in c.node.body:
            if not (isinstance(st, ast.Assign) and len(st.targets) == 1 and isinstance(st.targets[0], ast.Name) and isinstance(st.value, ast.Call)):
                continue
            n += 1
            f = u(st.value.func)
            inner = None
            if f.split(".")[-1] == "lazyproperty" and st.value.args:
                a = st.value.args[0]
                inner = a.id if isinstance(a, ast.Name) else ("<lambda>" if isinstance(a, ast.Lambda) else u(a)[:30])
            elif f in mod.functions:
                for r in ast.walk(mod.functions[f]):
                    if isinstance(r, ast.Return) and isinstance(r.value, ast.Call) and u(r.value.func).split(".")[-1] == "lazyproperty" and r.value.args:
                        a = r.value.args[0]
                        inner = a.id if isinstance(a, ast.Name) else ("<lambda>" if isinstance(a, ast.Lambda) else None)
                        # a factory that renames the wrapped function per attribute (`inner.__name__ = name`) gives each its own slot
                        if any(isinstance(x, ast.Attribute) and x.attr in ("__name__", "__qualname__") and isinstance(x.ctx, ast.Store) for x in ast.walk(mod.functions[f])):
                            inner = None
            if inner is not None:
                groups.setdefault(inner, []).append(st.targets[0].id)
    shared = {k: v for k, v in groups.items() if len(v) >= 2}
    mine = sorted({a for v in shared.values() for a in v if a in names})
    where = f"{short}::{cname} [{', '.join(names)}]"
    if mine:
        others = sorted({a for v in shared.values() if set(v) & set(mine) for a in v})
        ctx.violated(rule, where, f"{mine} cached under the name of one wrapped function together with {others}", "each attribute has its own cache slot (a class-level alias `pvalues = pvals`, or @lazyproperty on a function of its own name)",
                     "whichever of the attributes is read first is what the others return")
    else:
        ctx.held(rule, where, f"{n} factory-made class attributes; none of {list(names)} shares a cache slot", "")


# --------------------------------------------------------------------------- a key one reader takes as nullable, another dereferences
def _nullable_reads(fn: ast.AST, family: str):
    """(tolerant, intolerant) reads of string keys on dicts of one FAMILY inside `fn`: `d.get(k) or <default>` states the
    belief that k may be present with a null value; `d.get(k, <literal default>).x` / `[...]` relies on the default, which
    does not apply to a key that IS present with null.  `d` belongs to the family when its expression (locals resolved)
    mentions `family`."""
    from ..stmts import resolver
    from ..symex import u

    res = resolver(fn, multi=True)
    parent = {c: n for n in ast.walk(fn) for c in ast.iter_child_nodes(n)}
    # a local bound to a tolerant read is itself a member of the family (order = shim.get("order") or {})
    tol, intol = [], []
    for n in ast.walk(fn):
        if not (isinstance(n, ast.Call) and isinstance(n.func, ast.Attribute) and n.func.attr == "get" and n.args and isinstance(n.args[0], ast.Constant) and isinstance(n.args[0].value, str)):
            continue
        try:
            recv = " | ".join(u(v) for v in res(n.func.value))
        except Exception:
            recv = u(n.func.value)
        if family not in recv:
            continue
        k, p = n.args[0].value, parent.get(n)
        if len(n.args) == 1 and not n.keywords and isinstance(p, ast.BoolOp) and isinstance(p.op, ast.Or) and p.values[0] is n:
            tol.append((k, n))
        elif len(n.args) == 2 and isinstance(n.args[1], (ast.Dict, ast.List, ast.Tuple)) and isinstance(p, (ast.Attribute, ast.Subscript)) and p.value is n:
            intol.append((k, n))
    return tol, intol


def nullable_key_agreement(ctx: Ctx, rule: str = "nullable-key", family: str = "_dimension_transforms_dict"):
    """Contradiction rule over the readers of the dimension-transforms dict: if one reader writes `d.get(k) or {}` (k may be
    null - `"order": None` means "no order transform") and another dereferences `d.get(k, {})`, the second raises
    AttributeError / TypeError on exactly the input the first was written for."""
    from ..loader import AnalysisError
    from ..symex import u

    ctl = ast.parse("def a(self):\n    return self._dimension_transforms_dict.get('order') or {}\ndef b(self):\n    shim = copy.deepcopy(self._dimension_transforms_dict)\n    return shim.get('order', {}).get('element_ids')\n")
    t0, _ = _nullable_reads(ctl.body[0], family)
    _, i1 = _nullable_reads(ctl.body[1], family)
    if [k for k, _n in t0] != ["order"] or [k for k, _n in i1] != ["order"]:
        raise AnalysisError(f"{rule}: the positive control is no longer recognised")
    tol, intol = {}, {}
    nfn = 0
    for m in ctx.repo.all_members():
        if not m.cls.module.short.startswith("dimension"):
            continue
        nfn += 1
        t, i = _nullable_reads(m.node, family)
        for k, n in t:
            tol.setdefault(k, []).append(f"{m.cls.module.short}::{m.cls.name}.{m.name}")
        for k, n in i:
            intol.setdefault(k, []).append((f"{m.cls.module.short}::{m.cls.name}.{m.name}", u(parent_expr(m.node, n))[:90]))
    ctx.count("readers scanned for null-tolerance", nfn)
    hits = 0
    for k in sorted(tol):
        for where, text in intol.get(k, []):
            hits += 1
            ctx.violated(rule, f"{where} [key {k!r}]", text, f"`.get({k!r}) or {{}}` as in {tol[k][0]}", f"a transforms dict carrying {k!r}: null (no such transform) raises here, while the other reader takes it as absent")
    if not hits:
        ctx.held(rule, "dimension.py [readers of the dimension transforms]", f"nullable keys {sorted(tol)}: no reader relies on a .get() default for them", "readers of one key agree on whether it may be null")
    ctx.require_min("readers scanned for null-tolerance", 50)


def parent_expr(fn: ast.AST, n: ast.AST) -> ast.AST:
    parent = {c: p for p in ast.walk(fn) for c in ast.iter_child_nodes(p)}
    return parent.get(n, n)


def shim_leaves_transforms_alone(ctx: Ctx, rule: str = "transforms-not-rewritten"):
    """The id shim rewrites the ids of a transforms dict in a COPY: the caller's dict (one saved order applied to several
    variables) must name the same things for the next dimension.  EFFECTS over the members of `_ElementIdShim`: every write
    goes to an object created in the writing function (or a sub-object of one)."""
    from ..effects import inventory

    sites = [w for w in inventory(ctx.repo) if w.member.cls.name == "_ElementIdShim"]
    ctx.count("write sites of the id shim", len(sites))
    from .c18 import ACCEPTED_WRITES

    # (the listed idempotent stores into the dimension DICT copy - C18's acceptance table - are not about the transforms)
    bad = [w for w in sites if w.cls not in ("Fresh", "Self") and w.class_key not in ACCEPTED_WRITES]
    for w in bad:
        ctx.violated(rule, w.key, f"write to a {w.cls} object (root `{w.root}`)", "the ids are rewritten in a copy of the transforms",
                     "the caller's transforms dict then carries THIS dimension's aliases: for the next dimension every listed id names nothing, the explicit order / fixed lists / hides are silently dropped")
    if not bad:
        ctx.held(rule, "dimension.py::_ElementIdShim", f"{len(sites)} write sites, all into objects the shim created", "the ids are rewritten in a copy of the transforms")
    ctx.require_min("write sites of the id shim", 3)


def _truth_tested_names(fn: ast.AST):
    """Names whose bare truth value decides something in `fn`: `if p`, `if not p`, `p and ..`, `x if p else y`, `bool(p)`, `while p`"""
    out = set()

    def bare(e):
        while isinstance(e, ast.UnaryOp) and isinstance(e.op, ast.Not):
            e = e.operand
        if isinstance(e, ast.BoolOp):
            for v in e.values:
                bare(v)
        elif isinstance(e, ast.Name):
            out.add(e.id)

    for n in ast.walk(fn):
        if isinstance(n, (ast.If, ast.While, ast.IfExp)):
            bare(n.test)
        elif isinstance(n, ast.Assert):
            bare(n.test)
        elif isinstance(n, ast.Call) and isinstance(n.func, ast.Name) and n.func.id == "bool" and len(n.args) == 1:
            bare(n.args[0])
        elif isinstance(n, ast.comprehension):
            for t in n.ifs:
                bare(t)
    return out


def _position_vars(fn: ast.AST):
    """Names bound to POSITIONS: targets of a loop / comprehension over range(..), the counter of enumerate(..)"""
    out = set()
    for n in ast.walk(fn):
        if isinstance(n, (ast.For, ast.comprehension)):
            it, tg = n.iter, n.target
            if isinstance(it, ast.Call) and isinstance(it.func, ast.Name) and it.func.id == "range" and isinstance(tg, ast.Name):
                out.add(tg.id)
            if isinstance(it, ast.Call) and isinstance(it.func, ast.Name) and it.func.id == "enumerate" and isinstance(tg, (ast.Tuple, ast.List)) and tg.elts and isinstance(tg.elts[0], ast.Name):
                out.add(tg.elts[0].id)
    return out


def position_param_truthiness(ctx: Ctx, rule: str = "position-truthiness", sites=(("cubepart.py", "_Slice"), ("cubepart.py", "_Strand"))):
    """A display / payload POSITION handed to a helper (the column a pairwise test is selected for, ...) is 0 for the first
    element: a helper that asks `if position:` - the habit of an optional argument generalised from `is not None` - treats
    the first element as "no position given".  Call sites bind helper parameters to loop counters; truth tests of such a
    parameter inside the helper are reported."""
    from ..loader import AnalysisError

    ctl = ast.parse("class K:\n    def helper(p, exclude=()):\n        if exclude:\n            p[:, exclude] = False\n        return p\n    def outer(self):\n        return [self.helper(self.p(col), exclude=col) for col in range(len(self.order))]\n    def helper_ok(p, col=None):\n        if col is not None:\n            p[:, col] = False\n        return p\n").body[0]
    fns = {f.name: f for f in ctl.body}
    if "exclude" not in _truth_tested_names(fns["helper"]) or _truth_tested_names(fns["helper_ok"]) or "col" not in _position_vars(fns["outer"]):
        raise AnalysisError(f"{rule}: the controls are no longer recognised")
    n, hits = 0, []
    for short, cname in sites:
        ci = ctx.repo.opt_cls(short, cname)
        if ci is None:
            continue
        for c in ci.mro:
            if c.module is not ci.module:
                continue
            for m in c.members.values():
                pos = _position_vars(m.node)
                if not pos:
                    continue
                for call in ast.walk(m.node):
                    if not (isinstance(call, ast.Call) and isinstance(call.func, ast.Attribute) and isinstance(call.func.value, ast.Name) and call.func.value.id in ("self", "cls")):
                        continue
                    hm = ctx.repo.lookup(ci, call.func.attr)
                    if hm is None or hm.kind not in ("method", "staticmethod", "classmethod"):
                        continue
                    params = hm.params
                    bound = [(p_, a) for p_, a in zip(params, call.args)] + [(k.arg, k.value) for k in call.keywords if k.arg]
                    for p_, a in bound:
                        if isinstance(a, ast.Name) and a.id in pos:
                            n += 1
                            if p_ in _truth_tested_names(hm.node):
                                hits.append((f"{short}::{hm.cls.name}.{hm.name} [parameter {p_}]", f"truth test of `{p_}`, bound to the position `{a.id}` in {c.name}.{m.name}"))
    ctx.count("helper parameters bound to positions", n)
    for where, text in sorted(set(hits)):
        ctx.violated(rule, where, text, "`is not None` (position 0 is the first element)", "the first row / column is treated as 'no position': whatever is done per selected position is skipped for it, and moves with the display order")
    if not hits:
        ctx.held(rule, "partition helpers taking a position", f"{n} parameter bindings to loop positions, none truth-tested", "", "controls recognised")


def type_resolution_table(ctx: Ctx, rule: str = "type-resolution"):
    """Which DIMENSION_TYPE a categorical dimension of the response gets (`Dimensions.dimension_type`, executed over model
    dimension dicts): a categorical ANY of whose categories carries a "date" is a categorical date - wherever the dated
    categories stand, whether or not an undated ("Baseline") or missing category precedes them; the logical [1, 0, -1]
    pattern and array sub-references take precedence.  The wave-difference rule, the population selection and smoothing
    all switch on this type."""
    from ..dectab import DTop, ModelInterp, Raises, exec_function

    ci = ctx.repo.cls("dimension.py", "Dimensions")
    m = ctx.repo.lookup(ci, "dimension_type")
    where = "dimension.py::Dimensions.dimension_type [categorical]"
    if m is None:
        ctx.undecided(rule, where, "member not found", "")
        return
    D = lambda i, **kw: dict({"id": i, "name": f"c{i}"}, **kw)
    cases = [
        ("every category dated", [D(1, date="2020-01"), D(2, date="2020-02")], None, "CAT_DATE"),
        ("an undated first category, dated ones after it", [D(1), D(2, date="2020-01"), D(3, date="2020-02")], None, "CAT_DATE"),
        ("a missing undated category first", [D(-1, missing=True), D(1, date="2020-01"), D(2, date="2020-02")], None, "CAT_DATE"),
        ("dated categories, an undated one last", [D(1, date="2020-01"), D(2, date="2020-02"), D(3)], None, "CAT_DATE"),
        ("no category dated", [D(1), D(2)], None, "CAT"),
        ("no categories", [], None, "CAT"),
        ("logical pattern", [D(1, selected=True), D(0), D(-1, missing=True)], None, "LOGICAL"),
        ("logical pattern with sub-references", [D(1, selected=True), D(0), D(-1, missing=True)], ["x"], "MR_CAT"),
        ("categories of an array", [D(1), D(2)], ["x"], "CA_CAT"),
    ]
    bad, n = [], 0
    for label, cats, subrefs, want in cases:
        dd = {"type": {"class": "categorical", "categories": cats}, "references": ({"subreferences": subrefs} if subrefs else {})}

        def atoms(x):
            if isinstance(x, ast.Attribute) and isinstance(x.value, ast.Name) and x.value.id == "DT":
                return x.attr
            raise KeyError

        it = ModelInterp(atoms, {})
        it.methods = lambda name: (lambda mm: mm.node if mm is not None and mm.kind in ("method", "staticmethod", "classmethod") else None)(ctx.repo.lookup(ci, name))
        try:
            got = exec_function(it, m.node, {"dimension_dict": dd})
        except Raises as r:
            bad.append(f"{label}: raises {r.etype}")
            continue
        except DTop as t_:
            ctx.undecided(rule, where, "DECTAB: " + str(t_), "type table of categorical dimensions")
            return
        n += 1
        if got != want:
            bad.append(f"{label}: {got} (specified {want})")
    ctx.count("categorical type-resolution cases", n)
    ctx.ob(rule, where, bad[:3] or f"{n} model dimensions", "categorical date iff some category carries a date; logical pattern and array sub-references first", not bad,
           "a wave variable taken for a plain categorical is not smoothed (and its differences / population estimates follow the plain rules)")


def block_nan_by_some_subtotal(ctx: Ctx, rule: str = "block-nan.per-vector"):
    """Whether an inserted cell is NaN is a property of ITS OWN row / column subtotal (a difference under the direction's
    flag).  A whole block of NaN (`np.full(<shape>, np.nan)`) returned under a test that asks whether SOME subtotal of an
    axis is a difference (`any(... for subtotal in subtotals)`) blanks the plain subtotals' cells together with the
    differences'."""
    from ..loader import AnalysisError

    def hits_in(fn):
        localfns = {n.name: n for n in ast.walk(fn) if isinstance(n, ast.FunctionDef) and n is not fn}
        parents = {c: p for p in ast.walk(fn) for c in ast.iter_child_nodes(p)}

        def asks_any(test):
            if any(isinstance(c, ast.Call) and u(c.func) in ("any", "np.any") and any(isinstance(g, (ast.GeneratorExp, ast.ListComp)) and "subtotal" in u(g).lower() for g in c.args) for c in ast.walk(test)):
                return True
            return any(isinstance(c, ast.Call) and isinstance(c.func, ast.Name) and c.func.id in localfns and asks_any(localfns[c.func.id]) for c in ast.walk(test))

        out = []
        for r in ast.walk(fn):
            if isinstance(r, ast.Return) and isinstance(r.value, ast.Call) and u(r.value.func) in ("np.full", "np.full_like") and any(u(a) in ("np.nan", "np.NaN", "float('nan')") for a in r.value.args):
                x = r
                while x in parents and parents[x] is not fn:
                    x = parents[x]
                    if isinstance(x, ast.FunctionDef):
                        break
                    if isinstance(x, ast.If) and asks_any(x.test):
                        out.append(u(r.value)[:80])
                        break
        return out

    ctl = ast.parse("def _intersections(self):\n    def has_difference(subtotals):\n        return any(len(subtotal.subtrahend_idxs) > 0 for subtotal in subtotals)\n    if self._diff_rows_nan and has_difference(self._row_subtotals):\n        return np.full((2, 2), np.nan)\n    return self._other\ndef ok(self, subtotal):\n    if self._diff_cols_nan and len(subtotal.subtrahend_idxs) > 0:\n        return np.full(self._nrows, np.nan)\n    return self._sum(subtotal)\n")
    if len(hits_in(ctl.body[0])) != 1 or hits_in(ctl.body[1]):
        raise AnalysisError(f"{rule}: the controls are no longer recognised")
    n, hits = 0, []
    for short in ("matrix/subtotals.py", "stripe/insertion.py"):
        mod = ctx.repo.module(short)
        for ci in mod.classes.values():
            for m in ci.members.values():
                n += 1
                for t in hits_in(m.node):
                    hits.append((f"{short}::{ci.name}.{m.name}", t))
    ctx.count("subtotal members scanned for block-wide NaN", n)
    ctx.require_min("subtotal members scanned for block-wide NaN", 30)
    for where, t in hits:
        ctx.violated(rule, where, t, "NaN per inserted vector, decided by that vector's own subtotal", "the cells of a plain subtotal are blanked because some OTHER subtotal of the axis is a difference")
    if not hits:
        ctx.held(rule, "subtotal classes", f"{n} members, no whole block of NaN under an any-subtotal test", "", "controls recognised")
