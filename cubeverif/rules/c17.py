"""C17 - population estimates scale the right proportion by population and filter share."""
from __future__ import annotations

import ast
import itertools

from ..core import Ctx
from ..dectab import DTop, Interp, Raises
from ..normform import equal
from ..symex import SUMMARIZER, expand, strip_ifexp_paths, u

MM = "matrix/measure.py"
SM = "stripe/measure.py"
SOM = "self._second_order_measures"


def run(ctx: Ctx):
    ctx.explanation = (
        "NORM: population_counts == population_proportions x population x fraction and the MoE == 1.959964 x population x "
        "fraction x std-err; SIB: the categorical-date selection tables of the proportion and of the standard error have "
        "identical guards and paired results; difference rows/columns are set to NaN on a fresh array; DECTAB: the "
        "fraction cascade is evaluated over the abstract JSON shapes (absent / null / {} / object; absent / null / 0 / x) "
        "of every optional field - every shape must end in 1, the ratio, NaN or 1.0 and none may raise."
    )
    scaling(ctx)
    selection(ctx)
    diffs(ctx)
    # which display positions ARE differences: display positions may not be paired position-wise with the payload-ordered
    # list of subtotals (C05 index-space typing, restricted to the helpers that locate the differences)
    from . import c05

    c05.index_space_zip(ctx, only=("_diff_element_idxs", "diff_row_idxs", "diff_column_idxs"))
    fraction(ctx)
    from .common import no_shared_writes

    no_shared_writes(ctx, "no-shared-write")
    from .common import generic_lints

    generic_lints(ctx)
    from .common import type_resolution_table

    type_resolution_table(ctx)
    from .common import dependency_footprints

    dependency_footprints(ctx)
    from .common import rebuild_forwards_settings

    rebuild_forwards_settings(ctx, "rebuild-settings", "cube.py", "Cube", ("population",))
    from .common import axis_role_lint

    axis_role_lint(ctx, "axis-roles", entries=("population_proportions", "population_counts", "population_counts_moe", "population_std_err"))


def scaling(ctx: Ctx):
    for cname, se in (("_Slice", "self.population_std_err"), ("_Strand", "self.population_proportion_stderrs")):
        ci = ctx.repo.cls("cubepart.py", cname)
        # the partition's own alias of the cube's fraction is followed, and so is any PRIVATE helper property that the
        # specification does not name (`_total_filtered_population`): the formula is compared on the named operands
        named = ("_population", "_cube", "_measures", "_dimensions", "_rows_dimension", "_transforms_dict")
        keep = lambda m: not (m.name == "population_fraction" or (m.name.startswith("_") and not m.name.startswith("__") and m.name not in named and not m.name.startswith("_assemble")))
        e = expand(ctx.repo, ci, "population_counts", stop=keep)
        v, cnf, snf, _ = equal(e, "self.population_proportions * self._population * self._cube.population_fraction")
        ctx.ob("scaling", f"cubepart.py::{cname}.population_counts", cnf, snf, v, "population estimate = population proportion x population x filtered fraction")
        e = expand(ctx.repo, ci, "population_counts_moe", stop=keep)
        v, cnf, snf, _ = equal(e, f"Z_975 * self._population * self._cube.population_fraction * {se}")
        ctx.ob("scaling", f"cubepart.py::{cname}.population_counts_moe", cnf, snf, v, "MoE = 1.959964 x population x fraction x matching standard error")
    sl = ctx.repo.cls("cubepart.py", "_Slice")
    e = expand(ctx.repo, sl, "population_std_err", stop=lambda m: True)
    ctx.check_expr("public-wiring", "cubepart.py::_Slice.population_std_err", e, "self._assemble_matrix(self._measures.population_std_err.blocks)")
    st = ctx.repo.cls("cubepart.py", "_Strand")
    e = expand(ctx.repo, st, "population_proportion_stderrs", stop=lambda m: True)
    ctx.check_expr("public-wiring", "cubepart.py::_Strand.population_proportion_stderrs", e, "self._assemble_vector(self._measures.population_proportion_stderrs.blocks)")
    for cname in ("Cube",):
        ci = ctx.repo.cls("cube.py", cname)
        e = expand(ctx.repo, ci, "population_fraction", stop=lambda m: True)
        ctx.check_expr("public-wiring", "cube.py::Cube.population_fraction", e, "self._measures.population_fraction")
    init = ctx.repo.lookup(ctx.repo.cls("cube.py", "Cube"), "__init__")
    # decision table over population arguments: None -> 0, anything else kept AS IT IS (a fractional population - given in
    # millions, or a weighted estimate - is not truncated)
    from ..dectab import DTop, ModelInterp, Raises
    from .common import stored_value_expr

    e_pop = stored_value_expr(init, "self._population")
    where_p = "cube.py::Cube.__init__"
    if e_pop is None:
        ctx.undecided("population-default", where_p, "no store of self._population found", "0 if population is None else population")
    else:
        bad, undec = [], None
        for val, want_v in ((None, 0), (0, 0), (1000, 1000), (331.9, 331.9), (0.5, 0.5)):
            def atoms_p(x, val=val):
                if isinstance(x, ast.Name) and x.id == "population":
                    return val
                raise KeyError

            class _I(ModelInterp):
                def _call(self, c, it):
                    if isinstance(c.func, ast.Name) and c.func.id in ("int", "float", "round") and len(c.args) == 1:
                        v_ = self.ev(c.args[0])
                        if v_ is None:
                            raise Raises("TypeError", u(c))
                        return {"int": int, "float": float, "round": round}[c.func.id](v_)
                    return super()._call(c, it)

            try:
                got = _I(atoms_p).ev(e_pop)
            except Raises as r:
                bad.append(f"population={val!r}: raises {r.etype}")
                continue
            except DTop as t:
                undec = str(t)
                break
            if got != want_v or type(got) is not type(want_v):
                bad.append(f"population={val!r} -> {got!r}, specified {want_v!r}")
        if undec:
            ctx.undecided("population-default", where_p, "DECTAB: " + undec, "0 if population is None else population")
        else:
            ctx.ob("population-default", where_p, bad[:3] or u(e_pop)[:80], "None -> 0, any other value unchanged", not bad, "estimates scale linearly with ANY population value")


def _table(e: ast.expr):
    """[(guard-text list, leaf text)] of a selection expression."""
    return [([("" if pol else "not ") + u(g) for g, pol in gs], u(leaf)) for gs, leaf in strip_ifexp_paths(e)]


def selection(ctx: Ctx):
    pp = ctx.repo.cls(MM, "_PopulationProportions")
    ps = ctx.repo.cls(MM, "_PopulationStandardError")
    from ..symex import distribute_attr

    # (a selection of the MEASURE with `.blocks` read off it afterwards - `self._matching_std_err.blocks` - is the selection of its blocks)
    ep, es = distribute_attr(expand(ctx.repo, pp, "blocks")), distribute_attr(expand(ctx.repo, ps, "blocks"))
    tp = _table(ep)
    ts = _table(es)
    rows_g = "self._dimensions[-2].dimension_type == DT.CAT_DATE"
    cols_g = "self._dimensions[-1].dimension_type == DT.CAT_DATE"
    want_p = [
        ([rows_g], f"{SOM}.row_proportions.blocks"),
        (["not " + rows_g, cols_g], f"{SOM}.column_proportions.blocks"),
        (["not " + rows_g, "not " + cols_g], f"{SOM}.table_proportions.blocks"),
    ]
    want_s = [(g, l.replace("_proportions.blocks", "_std_err.blocks")) for g, l in want_p]
    # decided as a TABLE over (rows type, columns type), whatever the spelling of the guards (operand order, `in (..)`,
    # a chain of negations): which block collection does the expression select for each pair of dimension types
    from ..dectab import DTop, Raises
    from ..typetab import dt_members, eval_over_types

    def leaf(x):
        if isinstance(x, ast.Attribute) and x.attr == "blocks":
            return "<" + u(x) + ">"
        raise KeyError

    def table(ci, e, suffix):
        bad, n = [], 0
        members = dt_members(ctx.repo)
        for r in members:
            for c in members:
                atoms = {}
                for spell_r, spell_c in (("self._dimensions[-2].dimension_type", "self._dimensions[-1].dimension_type"), ("self._dimensions[0].dimension_type", "self._dimensions[1].dimension_type")):
                    atoms[spell_r], atoms[spell_c] = r, c
                got = eval_over_types(ctx.repo, ci.module, e, atoms, extra=leaf)
                want = f"<{SOM}.{'row' if r == 'CAT_DATE' else ('column' if c == 'CAT_DATE' else 'table')}{suffix}.blocks>"
                n += 1
                if got != want:
                    bad.append(f"{r} x {c}: {str(got)[:70]} (specified {want[1:-1]})")
        return bad, n

    for ci, e, text_tab, want_tab, suffix, why in (
        (pp, ep, tp, want_p, "_proportions", "rows categorical-date -> row proportions (every wave projects the full population); else columns categorical-date -> column proportions; else table proportions"),
        (ps, es, ts, want_s, "_std_err", "the standard error is selected by the SAME guards in the SAME order and paired with the proportion of the same direction"),
    ):
        where = f"{MM}::{ci.name}.blocks"
        if text_tab == want_tab:
            ctx.ob("selection", where, text_tab, want_tab, True, why)
            continue
        try:
            bad, n = table(ci, e, suffix)
        except (DTop, Raises, KeyError) as exc:
            ctx.undecided("selection", where, f"DECTAB: {exc}", "table over rows type x columns type")
            continue
        ctx.ob("selection", where, bad[:4] or f"{n} type pairs select the specified blocks", "rows CAT_DATE -> row; else columns CAT_DATE -> column; else table", not bad, why)
    # sibling agreement independent of the literal spec: same guards, paired leaves
    paired = len(tp) == len(ts) and all(g1 == g2 and l1.replace("_proportions", "_std_err") == l2 for (g1, l1), (g2, l2) in zip(tp, ts))
    ctx.ob("selection.siblings", f"{MM}::_PopulationProportions/_PopulationStandardError", paired, True, paired, "proportion and standard-error selection tables agree path by path")
    # stripe
    for cname, inner, const in (("_PopulationProportions", "table_proportions", "1"), ("_PopulationProportionStderrs", "table_proportion_stderrs", "0")):
        ci = ctx.repo.cls(SM, cname)
        for part in ("base_values", "subtotal_values"):
            e = expand(ctx.repo, ci, part)
            want = [
                f"np.repeat({c}, self._measures.{inner}.{part}.shape) if self._rows_dimension.dimension_type == DT.CAT_DATE else self._measures.{inner}.{part}"
                for c in (const, const + ".0")
            ] + [f"np.full(self._measures.{inner}.{part}.shape, {const}.0) if self._rows_dimension.dimension_type == DT.CAT_DATE else self._measures.{inner}.{part}"]
            ctx.check_expr("selection.stripe", f"{SM}::{cname}.{part}", e, want, "categorical-date strand: every wave projects the full population (proportion 1, standard error 0); else the table values")
            # the PROPORTIONS receive NaN for subtotal differences afterwards (diff-nan rule): the constant array that stands
            # in for them on a categorical-date strand must be a float array - an integer array cannot hold NaN
            if cname == "_PopulationProportions":
                ints = [u(c) for c in ast.walk(e) if isinstance(c, ast.Call) and u(c.func) in ("np.repeat", "np.full", "np.tile", "np.ones", "np.zeros")
                        and any(isinstance(a, ast.Constant) and isinstance(a.value, int) and not isinstance(a.value, bool) for a in c.args)
                        and not any(k.arg == "dtype" for k in c.keywords) and u(c.func) not in ("np.ones", "np.zeros")]
                if ints:
                    ctx.violated("selection.stripe.float", f"{SM}::{cname}.{part}", ints, "a float array (np.repeat(1.0, ..))", "an integer array cannot hold the NaN that marks a subtotal difference: population_counts of such a strand raises ValueError")
                else:
                    ctx.held("selection.stripe.float", f"{SM}::{cname}.{part}", "no integer-literal array stands in for the proportions", "")


def diffs(ctx: Ctx):
    for cname, asm in (("_Slice", "_assemble_matrix"), ("_Strand", "_assemble_vector")):
        ci = ctx.repo.cls("cubepart.py", cname)
        from ..stmts import reachable_functions, resolver

        fns = reachable_functions(ctx.repo, ci, "population_proportions")
        where = f"cubepart.py::{cname}.population_proportions"
        found = {"rows": None, "columns": None}
        wrong = []
        n_nan_stores = 0
        for fn in fns:
            res = resolver(fn)
            for n in ast.walk(fn):
                if isinstance(n, ast.Assign) and isinstance(n.targets[0], ast.Subscript) and u(n.value) in ("np.nan", "float('nan')", "np.NaN"):
                    n_nan_stores += 1
                    sl = n.targets[0].slice
                    parts = list(sl.elts) if isinstance(sl, ast.Tuple) else [sl]
                    def unwrap(x):
                            # list(t) / np.array(t) / np.asarray(t) of the tuple of indexes is the same index set
                            while isinstance(x, ast.Call) and u(x.func) in ("list", "np.array", "np.asarray") and len(x.args) == 1:
                                x = x.args[0]
                            return x

                    # `np.swapaxes(X, 0, k)[idxs] = nan` (also np.moveaxis(X, k, 0)) blanks the positions `idxs` of AXIS k of X;
                    # k and idxs may be the variables of a loop over a literal tuple of (axis, idxs) pairs
                    tv = n.targets[0].value
                    if isinstance(tv, ast.Call) and u(tv.func) in ("np.swapaxes", "np.moveaxis") and len(tv.args) == 3 and not isinstance(sl, ast.Tuple):
                        a1, a2 = tv.args[1], tv.args[2]
                        ax_expr = a2 if (isinstance(a1, ast.Constant) and a1.value == 0) else (a1 if (isinstance(a2, ast.Constant) and a2.value == 0) else None)
                        pairs = []
                        if ax_expr is not None:
                            idx_expr = unwrap(sl)
                            loops = [f_ for f_ in ast.walk(fn) if isinstance(f_, ast.For) and isinstance(f_.target, ast.Tuple) and isinstance(f_.iter, (ast.Tuple, ast.List)) and any(x is n for x in ast.walk(f_))]
                            if loops and isinstance(ax_expr, ast.Name) and isinstance(idx_expr, ast.Name):
                                names_ = [t_.id if isinstance(t_, ast.Name) else None for t_ in loops[-1].target.elts]
                                for item in loops[-1].iter.elts:
                                    if isinstance(item, ast.Tuple) and len(item.elts) == len(names_) and ax_expr.id in names_ and idx_expr.id in names_:
                                        pairs.append((item.elts[names_.index(ax_expr.id)], item.elts[names_.index(idx_expr.id)]))
                            else:
                                pairs.append((ax_expr, idx_expr))
                        handled = False
                        for ax_e, idx_e in pairs:
                            if isinstance(ax_e, ast.Constant) and isinstance(ax_e.value, int):
                                for which, attr in (("rows", "self.diff_row_idxs"), ("columns", "self.diff_column_idxs")):
                                    if attr in [u(unwrap(v)) for v in res(idx_e)]:
                                        handled = True
                                        if ax_e.value == (0 if which == "rows" else 1):
                                            found[which] = True
                                        else:
                                            wrong.append(f"{attr} used on axis {ax_e.value} (through {u(tv.func)})")
                        if handled:
                            continue
                    texts = [[u(unwrap(v)) for v in res(p)] for p in parts]
                    # a bare TUPLE as the whole subscript of a 1-D array is read by numpy as one index per dimension
                    if not isinstance(sl, ast.Tuple) and u(sl) in ("self.diff_row_idxs", "self.diff_column_idxs"):
                        wrong.append(f"{u(n.targets[0])}: a tuple of indexes used as the whole subscript is a multi-dimensional index (IndexError for two or more differences)")
                        continue
                    for axis, part_texts in enumerate(texts):
                        for which, attr in (("rows", "self.diff_row_idxs"), ("columns", "self.diff_column_idxs")):
                            if attr in part_texts:
                                right_axis = (axis == 0) if which == "rows" else (axis == 1 and len(parts) == 2)
                                if right_axis:
                                    found[which] = True
                                else:
                                    wrong.append(f"{attr} used on axis {axis}")
        need = ["rows", "columns"] if cname == "_Slice" else ["rows"]
        if wrong:
            ctx.violated("diff-nan", where, wrong, "difference rows on axis 0, difference columns on axis 1", "subtotal differences are NaN in every population measure")
        else:
            ok = True if all(found[k] for k in need) else None
            ctx.ob("diff-nan", where, f"{n_nan_stores} NaN stores; difference {[k for k in need if found[k]]} blanked", f"NaN at the difference {need} of the assembled array", ok, "subtotal differences are NaN in every population measure (freshness of the overwritten array: C18 write inventory)")


# --------------------------------------------------------------------------- fraction cascade
OBJ_FIELDS = ["filter_stats", "filtered_complete", "weighted", "filtered", "unfiltered"]
NUM_FIELDS = ["selected", "other", "fw", "uw"]  # fw/uw = filtered/unfiltered weighted_n


def fraction(ctx: Ctx):
    ci = ctx.repo.cls("cube.py", "_Measures")
    m = ctx.repo.lookup(ci, "population_fraction")
    body = SUMMARIZER.summarize(m.node)
    where = "cube.py::_Measures.population_fraction"
    shapes_obj = ["ABSENT", "NULL", "EMPTY", "OBJ"]
    shapes_num = ["ABSENT", "NULL", "ZERO", "X"]
    n_eval = 0
    bad = []
    undec = None
    for fs, fc, w, fl, ufl in itertools.product(shapes_obj, repeat=5):
        # prune unreachable nestings
        if fs != "OBJ" and (fc != "ABSENT" or w != "ABSENT"):
            continue
        if fc != "OBJ" and w != "ABSENT":
            continue
        for is_cd in (False, True):
            if is_cd and fs != "OBJ":
                continue
            for sel, oth, fw, uw in itertools.product(shapes_num, repeat=4):
                if w != "OBJ" and (sel != "ABSENT" or oth != "ABSENT"):
                    continue
                if fl != "OBJ" and fw != "ABSENT":
                    continue
                if ufl != "OBJ" and uw != "ABSENT":
                    continue
                result = build_result(fs, fc, w, fl, ufl, is_cd, sel, oth, fw, uw)
                n_eval += 1
                try:
                    got = eval_fraction(body, result)
                except Raises as r:
                    bad.append((describe(fs, fc, w, fl, ufl, is_cd, sel, oth, fw, uw), f"raises {r.etype} at {r.where[:60]}", expected(result)))
                    continue
                except DTop as t:
                    undec = str(t)
                    break
                exp = expected(result)
                if got != exp:
                    bad.append((describe(fs, fc, w, fl, ufl, is_cd, sel, oth, fw, uw), got, exp))
            if undec:
                break
        if undec:
            break
    ctx.count("fraction shapes evaluated", n_eval)
    if undec:
        ctx.undecided("fraction-cascade", where, "DECTAB: " + undec, "decision table over JSON shapes")
        return
    # group findings by (outcome) to keep one obligation per distinct failure class
    if not bad:
        ctx.held("fraction-cascade", where, f"{n_eval} abstract JSON shapes: all end in 1 | ratio | NaN | 1.0, none raises", "selected/(selected+other) of the weighted complete-case statistics when present (1 for a categorical-date filter), else filtered/unfiltered weighted N, 1.0 when unspecified, NaN on a zero denominator")
    else:
        seen = set()
        for shape, got, exp in bad:
            key = (str(got), str(exp))
            if key in seen:
                continue
            seen.add(key)
            ctx.violated("fraction-cascade", where + f" [{got} instead of {exp}]", f"{shape} -> {got}", f"{exp}", "the fraction cascade over the abstract shape of the optional response fields")
    ctx.require_min("fraction shapes evaluated", 200)


class J:
    """Abstract JSON value."""

    def __init__(self, kind, fields=None, num=None):
        self.kind, self.fields, self.num = kind, fields or {}, num


def jnum(shape):
    if shape == "NULL":
        return None
    if shape == "ZERO":
        return 0
    return "x"  # symbolic positive number


def jobj(shape, fields):
    if shape == "NULL":
        return None
    if shape == "EMPTY":
        return {}
    return dict(fields)


def build_result(fs, fc, w, fl, ufl, is_cd, sel, oth, fw, uw):
    result = {}
    if fs != "ABSENT":
        wd = {}
        if sel != "ABSENT":
            wd["selected"] = jnum(sel)
        if oth != "ABSENT":
            wd["other"] = jnum(oth)
        fcd = {}
        if w != "ABSENT":
            fcd["weighted"] = jobj(w, wd)
        fsd = {}
        if fc != "ABSENT":
            fsd["filtered_complete"] = jobj(fc, fcd)
        if is_cd:
            fsd["is_cat_date"] = True
        result["filter_stats"] = jobj(fs, fsd)
    if fl != "ABSENT":
        result["filtered"] = jobj(fl, {"weighted_n": jnum(fw)} if fw != "ABSENT" else {})
    if ufl != "ABSENT":
        result["unfiltered"] = jobj(ufl, {"weighted_n": jnum(uw)} if uw != "ABSENT" else {})
    return result


def describe(*a):
    names = ["filter_stats", "filtered_complete", "weighted", "filtered", "unfiltered", "is_cat_date", "selected", "other", "filtered.weighted_n", "unfiltered.weighted_n"]
    return ", ".join(f"{n}={v}" for n, v in zip(names, a) if v not in ("ABSENT", False))


def _get(d, *path):
    for p in path:
        if not isinstance(d, dict) or p not in d:
            return "MISSING"
        d = d[p]
    return d


def expected(result):
    """The specified outcome for an abstract response (written from the property statement)."""
    fs = _get(result, "filter_stats")
    w = _get(result, "filter_stats", "filtered_complete", "weighted")
    if isinstance(w, dict) and w:  # weighted complete-case statistics present
        if _get(result, "filter_stats", "is_cat_date") is True:
            return "1"
        sel, oth = _get(w, "selected"), _get(w, "other")
        if sel in ("MISSING", None) or oth in ("MISSING", None):
            return "1.0"  # unspecified
        if sel == 0 and oth == 0:
            return "nan"
        return "ratio"
    num = _get(result, "filtered", "weighted_n")
    den = _get(result, "unfiltered", "weighted_n")
    if num in ("MISSING", None) or den in ("MISSING", None):
        return "1.0"
    if den == 0:
        return "nan"
    return "ratio"


def eval_fraction(body: ast.expr, result) -> str:
    """Abstractly evaluate the summarised body over one abstract response."""

    def atoms(e: ast.expr):
        if isinstance(e, ast.Subscript) and isinstance(e.slice, ast.Constant) and e.slice.value == "result":
            if u(e) == "self._cube_dict['result']":
                return result
        if isinstance(e, ast.Attribute) and e.attr == "nan" and u(e) == "np.nan":
            return "nan"
        raise KeyError

    def calls(c: ast.Call, it: Interp):
        if isinstance(c.func, ast.Attribute) and c.func.attr == "get":
            recv = it.ev(c.func.value)
            if recv is None:
                raise Raises("AttributeError", u(c)[:70])
            if not isinstance(recv, dict):
                raise Raises("AttributeError", u(c)[:70])
            key = it.ev(c.args[0])
            default = it.ev(c.args[1]) if len(c.args) > 1 else None
            return recv.get(key, default)
        raise DTop(f"call {u(c.func)}")

    class FI(Interp):
        def ev(self, e):
            if isinstance(e, ast.BinOp):
                a, b = self.ev(e.left), self.ev(e.right)
                if isinstance(e.op, ast.Add):
                    if a is None or b is None or isinstance(a, dict) or isinstance(b, dict):
                        raise Raises("TypeError", u(e)[:70])
                    if a == 0 and b == 0:
                        return 0
                    return "x"
                if isinstance(e.op, ast.Div):
                    if a is None or b is None or isinstance(a, dict) or isinstance(b, dict):
                        raise Raises("TypeError", u(e)[:70])
                    if b == 0:
                        raise Raises("ZeroDivisionError", u(e)[:70])
                    return "ratio"
                raise DTop("binop")
            return super().ev(e)

    it = FI(atoms, calls)
    v = it.ev(body)
    if v == 1 and not isinstance(v, float) and v is not True:
        return "1" if isinstance(v, int) else str(v)
    if isinstance(v, float):
        return str(v)
    return str(v)
