"""C11 - variance, standard error and margin of error of proportions."""
from __future__ import annotations

import ast
import copy

from ..core import Ctx
from ..normform import equal
from ..symex import SUMMARIZER, expand, u
from .gridcheck import SOM, check_divisions, check_grid_formula

MM = "matrix/measure.py"
SM = "stripe/measure.py"
W = "self._cube_measures.weighted_cube_counts"
VAR3 = "(1 - {p})**2 * ({Np}/{Nt}) + ({p})**2 * (({Nt} - {Np} - {Nn})/{Nt}) + (1 + {p})**2 * ({Nn}/{Nt})"


def run(ctx: Ctx):
    ctx.explanation = (
        "NORM: the three-term variance, with Ni = Nt-Np-Nn and p = (Np-Nn)/Nt, is identical as a rational function to "
        "the variance of the +1/-1/0 indicator, (Np+Nn)/Nt - ((Np-Nn)/Nt)^2, and to p(1-p) when Nn = 0; BLOCKS: each "
        "of the four blocks applies it to inputs of its own block; the three construction sites pair <dir> proportions "
        "with <dir> weighted bases; std-err = sqrt(var/base) per block; std-dev, MoE and the z constant; stripe twins."
    )
    ctx.not_decided = ["floating point rounding; non-negativity follows from the closed form and is not separately checked"]
    identity(ctx)
    non_negative(ctx)
    non_negative_stripe(ctx)
    variance_blocks(ctx)
    construction_sites(ctx)
    std_err(ctx)
    public(ctx)
    stripe(ctx)
    from .common import index_space_lints

    index_space_lints(ctx, "index-space", ['matrix/subtotals.py', 'stripe/insertion.py', 'matrix/measure.py', 'stripe/measure.py'], words=('negativeterm', 'positiveterm', 'variance', 'standarderror'))
    from .common import no_shared_writes

    no_shared_writes(ctx, "no-shared-write")
    from .common import generic_lints

    generic_lints(ctx)
    from .common import dependency_footprints

    dependency_footprints(ctx)
    from .common import public_values_assembled

    public_values_assembled(ctx, "public-assembled", "_Slice", ("column_std_dev", "column_std_err", "row_std_dev", "row_std_err", "table_std_dev", "table_std_err", "column_proportions_moe", "row_proportions_moe", "table_proportions_moe", "column_proportion_variances", "row_proportion_variances", "table_proportion_variances"))


class _Sub(ast.NodeTransformer):
    def __init__(self, m):
        self.m = m

    def visit_Name(self, n):
        return copy.deepcopy(self.m[n.id]) if n.id in self.m else n


def identity(ctx: Ctx):
    ci = ctx.repo.cls(MM, "_ProportionVariances")
    m = ctx.repo.lookup(ci, "_calc_var")
    body = SUMMARIZER.summarize(m.node)
    where = f"{MM}::_ProportionVariances._calc_var"
    # the ROLE of each parameter is what the caller passes for it (whatever the parameter is called): the proportions,
    # the total / positive / ignored / negative counts
    from ..stmts import resolver

    roles = {"proportion": "p", "total": "Nt", "positive": "Np", "ignored": "Ni", "negative": "Nn"}
    params = [a.arg for a in m.node.args.args if a.arg not in ("self", "cls")]
    rename = {}
    bl = ctx.repo.lookup(ci, "blocks")
    if bl is not None:
        res = resolver(bl.node)
        for c in ast.walk(bl.node):
            if isinstance(c, ast.Call) and u(c.func) == "self._calc_var":
                bound = list(zip(params, c.args)) + [(k.arg, k.value) for k in c.keywords if k.arg]
                for pn, a in bound:
                    t = u(res(a))
                    hit = [r for key, r in roles.items() if key in t]
                    if len(hit) == 1:
                        rename.setdefault(pn, hit[0])
                break
    if sorted(rename.values()) != sorted(roles.values()):
        if set(params) != set(roles.values()):
            ctx.undecided("variance-identity", where, f"the roles of the parameters {params} could not be read from the call site", "p, Nt, Np, Ni, Nn")
            return
        rename = {x: x for x in params}
    body = _Sub({k: ast.Name(id="__role_" + v, ctx=ast.Load()) for k, v in rename.items()}).visit(copy.deepcopy(body))
    body = _Sub({"__role_" + v: ast.Name(id=v, ctx=ast.Load()) for v in roles.values()}).visit(body)
    sub = _Sub({"p": ast.parse("(Np-Nn)/Nt", mode="eval").body, "Ni": ast.parse("Nt-Np-Nn", mode="eval").body}).visit(copy.deepcopy(body))
    v, cnf, snf, _ = equal(sub, "(Np+Nn)/Nt - ((Np-Nn)/Nt)**2")
    ctx.ob("variance-identity", where + " [p:=(Np-Nn)/Nt, Ni:=Nt-Np-Nn]", cnf, snf, v, "three-term formula == variance of the +1/-1/0 indicator among the base")
    sub0 = _Sub({"Nn": ast.Constant(value=0), "Ni": ast.parse("Nt-p*Nt", mode="eval").body, "Np": ast.parse("p*Nt", mode="eval").body}).visit(copy.deepcopy(body))
    v, cnf, snf, _ = equal(sub0, "p*(1-p)")
    ctx.ob("variance-identity", where + " [Nn:=0, Np:=p*Nt]", cnf, snf, v, "ordinary cells: p(1-p)")


def non_negative(ctx: Ctx):
    """"They are non-negative": the three-term variance is a sum of squares weighted by the counts Np, Nn, Ni.  Np and Nn are
    sums of counts; Ni is the DIFFERENCE Nt - Np - Nn of float sums and can come out a rounding error below zero (a
    subtotal spanning every category: p = 1, Ni = -1 ulp): the variance is then about -2e-16 and its square root NaN.
    The ignored count must be clamped at zero where it is computed or where it is used."""
    ci = ctx.repo.cls(MM, "_ProportionVariances")
    where = f"{MM}::_ProportionVariances._calc_var [Ni]"
    m = ctx.repo.lookup(ci, "_calc_var")
    ign = ctx.repo.lookup(ci, "_count_ignored")
    if m is None or ign is None:
        ctx.undecided("variance.non-negative", where, "members not found", "")
        return
    is_difference = any(isinstance(n, ast.BinOp) and isinstance(n.op, ast.Sub) for n in ast.walk(ign.node))

    def clamped(fn_node, name=None):
        for n in ast.walk(fn_node):
            if isinstance(n, ast.Call) and u(n.func) in ("np.maximum", "np.clip", "np.fmax") and any(isinstance(a, ast.Constant) and a.value == 0 for a in n.args):
                if name is None or any(isinstance(x, ast.Name) and x.id == name for a in n.args for x in ast.walk(a)):
                    return True
        return False

    params = [p_ for p_ in m.params if p_ not in ("self", "cls")]
    ni = params[3] if len(params) == 5 else "Ni"
    # where the ignored count itself is clamped, the clamp has to be the LAST step: `np.maximum(Nt - Np, 0) - Nn` floors an
    # intermediate result and still goes one rounding error below zero once Nn is subtracted
    inner_only = False
    if clamped(ign.node) and not clamped(m.node, ni) and not clamped(SUMMARIZER.summarize(m.node), ni):
        body = SUMMARIZER.summarize(ign.node)
        leaves = [x for x in ast.walk(body) if isinstance(x, (ast.BinOp, ast.Call)) and not isinstance(getattr(x, "func", None), ast.Name)]
        elems = []
        def collect(e):
            if isinstance(e, (ast.List, ast.Tuple)):
                for x in e.elts:
                    collect(x)
            else:
                elems.append(e)
        collect(body)
        is_clamp = lambda x: isinstance(x, ast.Call) and u(x.func) in ("np.maximum", "np.clip", "np.fmax")
        inner_only = any(isinstance(x, ast.BinOp) and isinstance(x.op, ast.Sub) and any(is_clamp(y) for y in ast.walk(x)) for x in elems)
    # (the summary has local helper functions inlined and their literal flags decided: `term(0, Ni, clip=True)`)
    try:
        m_sum = SUMMARIZER.summarize(m.node)
    except Exception:
        m_sum = m.node
    ok = ((not is_difference) or clamped(ign.node) or clamped(m.node, ni) or clamped(m_sum, ni)) and not inner_only
    ctx.ob("variance.non-negative", where, "the ignored count is clamped at zero" if ok else ("a subtraction FOLLOWS the clamp: the floor is on an intermediate result" if inner_only else "Ni = Nt - Np - Nn enters the variance as computed"), "a difference of float sums is clamped at zero before it weights a square", ok,
           "an all-categories subtotal of a weighted table gets variance -2e-16: standard deviation, standard error and margin of error are NaN although the proportion (1) and the base are defined")


def non_negative_stripe(ctx: Ctx):
    """The same clause for the strand: `_TableProportionVariances.subtotal_values` computes the ignored count as a local
    difference of float sums; it is clamped at zero where it is computed or wherever it is used."""
    SM_ = "stripe/measure.py"
    ci = ctx.repo.cls(SM_, "_TableProportionVariances")
    m = ctx.repo.lookup(ci, "subtotal_values")
    where = f"{SM_}::_TableProportionVariances.subtotal_values [Ni]"
    if m is None:
        ctx.undecided("variance.non-negative", where, "member not found", "")
        return
    is_clamp = lambda x: isinstance(x, ast.Call) and u(x.func) in ("np.maximum", "np.clip", "np.fmax") and any(isinstance(a, ast.Constant) and a.value == 0 for a in x.args)
    diffs = {}
    for n in ast.walk(m.node):
        if isinstance(n, ast.Assign) and len(n.targets) == 1 and isinstance(n.targets[0], ast.Name):
            v = n.value
            subs = [x for x in ast.walk(v) if isinstance(x, ast.BinOp) and isinstance(x.op, ast.Sub)]
            # a difference of two or more named counts (Nt - Np - Nn), not `1 - p`
            if isinstance(v, ast.BinOp) and isinstance(v.op, ast.Sub) and len(subs) >= 2 and not any(isinstance(x, ast.Constant) for x in ast.walk(v)):
                diffs[n.targets[0].id] = n
            elif is_clamp(v):
                pass
    if not diffs:
        # clamped at the assignment, or computed elsewhere
        clamped_assign = any(isinstance(n, ast.Assign) and is_clamp(n.value) for n in ast.walk(m.node))
        ctx.ob("variance.non-negative", where, "the ignored count is clamped where it is computed" if clamped_assign else "no local difference of counts found", "a difference of float sums is clamped at zero before it weights a square", True if clamped_assign else None)
        return
    parents = {}
    for p_ in ast.walk(m.node):
        for c in ast.iter_child_nodes(p_):
            parents[id(c)] = p_
    bad = []
    for name in diffs:
        for x in ast.walk(m.node):
            if isinstance(x, ast.Name) and x.id == name and isinstance(x.ctx, ast.Load):
                par = parents.get(id(x))
                if not is_clamp(par):
                    bad.append(f"{name} used as computed in {u(parents.get(id(par), par))[:60]}")
    ctx.ob("variance.non-negative", where, bad[:2] or "every use of the ignored count is clamped at zero", "a difference of float sums is clamped at zero before it weights a square", not bad,
           "a subtotal spanning every non-empty category of a weighted strand has p = 1 + 1 ulp and Ni = -1 ulp: variance -2e-16, standard deviation / error / margin of error NaN")


def variance_blocks(ctx: Ctx):
    ci = ctx.repo.cls(MM, "_ProportionVariances")
    pos = f"PositiveTermSubtotals.blocks({W}.counts, self._dimensions)"
    neg = f"NegativeTermSubtotals.blocks({W}.counts, self._dimensions)"

    def spec(i, j):
        ix = f"[{i}][{j}]"
        return VAR3.format(p=f"self._proportions{ix}", Nt=f"self._count_total{ix}", Np=pos + ix, Nn=neg + ix)

    check_grid_formula(ctx, "variance-blocks", ci, spec, "variance block (i,j) from proportion, base, positive and negative term counts of block (i,j); Np/Nn from the WEIGHTED counts")
    check_divisions(ctx, "errstate", ci, ["_calc_var"])


def construction_sites(ctx: Ctx):
    som = ctx.repo.cls(MM, "SecondOrderMeasures")
    for d in ("row", "column", "table"):
        e = expand(ctx.repo, som, f"{d}_proportion_variances", stop=lambda m: True)
        want = f"_ProportionVariances(self._dimensions, self, self._cube_measures, self.{d}_proportions.blocks, self.{d}_weighted_bases.blocks)"
        ctx.check_expr("variance-pairing", f"{MM}::SecondOrderMeasures.{d}_proportion_variances", e, want, f"{d} variance is built from the {d} proportions and the {d} weighted bases")
        ctx.count("variance construction sites")
    ctx.require_min("variance construction sites", 3)
    ci = ctx.repo.cls(MM, "_ProportionVariances")
    init = ctx.repo.lookup(ci, "__init__")
    assigns = {u(t): u(n.value) for n in ast.walk(init.node) if isinstance(n, ast.Assign) for t in n.targets}
    ok = assigns.get("self._proportions") == "proportions" and assigns.get("self._count_total") == "count_total" and init.params[-2:] == ["proportions", "count_total"]
    ctx.ob("variance-pairing", f"{MM}::_ProportionVariances.__init__", assigns, "_proportions <- 4th arg, _count_total <- 5th arg", ok)


def std_err(ctx: Ctx):
    for cname, d in (("_RowStandardError", "row"), ("_ColumnStandardError", "column"), ("_TableStandardError", "table")):
        ci = ctx.repo.cls(MM, cname)
        check_grid_formula(
            ctx,
            "stderr-blocks",
            ci,
            lambda i, j, d=d: f"sqrt({SOM}.{d}_proportion_variances.blocks[{i}][{j}] / {SOM}.{d}_weighted_bases.blocks[{i}][{j}])",
            f"standard error = sqrt({d} variance / {d} weighted base) at the same block",
        )
        check_divisions(ctx, "errstate", ci, ["blocks"])
    ctx.require_min("block formula obligations", 16)


def _helpers_inlined(m) -> bool:
    """stop predicate: everything stays symbolic except PRIVATE PLAIN METHODS (`self._margin_of_error(std_err)`), whose body
    stands in for the call"""
    return not (m.kind in ("method", "staticmethod", "classmethod") and m.name.startswith("_") and not m.name.startswith("_assemble"))


def public(ctx: Ctx):
    mod = ctx.repo.module("cubepart.py")
    z = mod.consts.get("Z_975")
    ctx.ob("z-constant", "cubepart.py::Z_975", u(z) if z is not None else None, "1.959964", z is not None and u(z) == "1.959964", "margin of error is 1.959964 times the standard error")
    sl = ctx.repo.cls("cubepart.py", "_Slice")
    for d in ("row", "column", "table"):
        e = expand(ctx.repo, sl, f"{d}_std_dev", stop=lambda m: True)
        v, cnf, snf, _ = equal(e, f"sqrt(self.{d}_proportion_variances)")
        ctx.ob("std-dev", f"cubepart.py::_Slice.{d}_std_dev", cnf, snf, v, "standard deviation = sqrt(variance) (a fresh array)")
        e = expand(ctx.repo, sl, f"{d}_proportions_moe", stop=_helpers_inlined)
        v, cnf, snf, _ = equal(e, f"Z_975 * self.{d}_std_err")
        ctx.ob("moe", f"cubepart.py::_Slice.{d}_proportions_moe", cnf, snf, v)
        e = expand(ctx.repo, sl, f"{d}_std_err", stop=lambda m: True)
        ctx.check_expr("public-wiring", f"cubepart.py::_Slice.{d}_std_err", e, f"self._assemble_matrix(self._measures.{d}_std_err.blocks)")
        e = expand(ctx.repo, sl, f"{d}_proportion_variances", stop=lambda m: True)
        ctx.check_expr("public-wiring", f"cubepart.py::_Slice.{d}_proportion_variances", e, f"self._assemble_matrix(self._measures.{d}_proportion_variances.blocks)")
    som = ctx.repo.cls(MM, "SecondOrderMeasures")
    for d, c in (("row", "_RowStandardError"), ("column", "_ColumnStandardError"), ("table", "_TableStandardError")):
        e = expand(ctx.repo, som, f"{d}_std_err", stop=lambda m: True)
        ctx.check_expr("public-wiring", f"{MM}::SecondOrderMeasures.{d}_std_err", e, f"{c}(self._dimensions, self, self._cube_measures)")


def stripe(ctx: Ctx):
    M = "self._measures"
    ci = ctx.repo.cls(SM, "_TableProportionVariances")
    e = expand(ctx.repo, ci, "base_values")
    v, cnf, snf, _ = equal(e, f"{M}.table_proportions.base_values * (1 - {M}.table_proportions.base_values)")
    ctx.ob("stripe-variance", f"{SM}::_TableProportionVariances.base_values", cnf, snf, v, "p(1-p)")
    e = expand(ctx.repo, ci, "subtotal_values")
    spec = VAR3.format(
        p=f"{M}.table_proportions.subtotal_values",
        Nt=f"{M}.weighted_bases.subtotal_values",
        Np=f"PositiveTermSubtotals.subtotal_values({M}.weighted_counts.base_values, self._rows_dimension)",
        Nn=f"NegativeTermSubtotals.subtotal_values({M}.weighted_counts.base_values, self._rows_dimension)",
    )
    v, cnf, snf, _ = equal(e, spec)
    if v is None:
        ctx.undecided("stripe-variance", f"{SM}::_TableProportionVariances.subtotal_values", cnf, spec)
    else:
        ctx.ob("stripe-variance", f"{SM}::_TableProportionVariances.subtotal_values", cnf, snf, v, "three-term variance for subtotal rows")
    ci = ctx.repo.cls(SM, "_TableProportionStderrs")
    for part in ("base_values", "subtotal_values"):
        e = expand(ctx.repo, ci, part)
        v, cnf, snf, _ = equal(e, f"sqrt({M}.table_proportion_variances.{part} / {M}.weighted_bases.{part})")
        ctx.ob("stripe-stderr", f"{SM}::_TableProportionStderrs.{part}", cnf, snf, v, "sqrt(variance / weighted base)")
    ci = ctx.repo.cls(SM, "_TableProportionStddevs")
    for part in ("base_values", "subtotal_values"):
        e = expand(ctx.repo, ci, part)
        v, cnf, snf, _ = equal(e, f"sqrt({M}.table_proportion_variances.{part})")
        ctx.ob("stripe-stddev", f"{SM}::_TableProportionStddevs.{part}", cnf, snf, v)
    st = ctx.repo.cls("cubepart.py", "_Strand")
    e = expand(ctx.repo, st, "table_proportion_moes", stop=_helpers_inlined)
    v, cnf, snf, _ = equal(e, "Z_975 * self.table_proportion_stderrs")
    ctx.ob("moe", "cubepart.py::_Strand.table_proportion_moes", cnf, snf, v)
    for prop in ("table_proportion_stddevs", "table_proportion_stderrs"):
        e = expand(ctx.repo, st, prop, stop=lambda m: True)
        ctx.check_expr("public-wiring", f"cubepart.py::_Strand.{prop}", e, f"self._assemble_vector(self._measures.{prop}.blocks)")
