"""C12 - residual z-scores and p-values are adjusted standardized residuals."""
from __future__ import annotations

import ast

from ..core import Ctx
from ..normform import equal
from ..symex import SUMMARIZER, expand, strip_ifexp_paths, u
from .gridcheck import SOM, check_divisions

MM = "matrix/measure.py"


def run(ctx: Ctx):
    ctx.explanation = (
        "NORM: the body of _calculate_zscores is identical, as a radical normal form, to the adjusted standardized "
        "residual (N - RC/T)/sqrt((RC/T)(1-R/T)(1-C/T)); every NaN-forcing guard is either the defective-table test or a "
        "universally quantified degenerate-base test; BLOCKS: each of the four blocks passes weighted counts and the "
        "table/row/column weighted bases of ITS OWN block in parameter order; p = 2(1-Phi(|z|)) per block."
    )
    ctx.not_decided = ["the chi-square identity for 2x2 tables (a mathematical consequence of the closed form, not re-derived)"]
    formula(ctx)
    blocks(ctx)
    defective(ctx)
    pvalues(ctx)
    from .common import no_shared_writes

    no_shared_writes(ctx, "no-shared-write")
    from .common import generic_lints

    generic_lints(ctx)
    from .common import shared_cache_slots

    shared_cache_slots(ctx, "public-alias.cache-slot", "cubepart.py", "_Slice", ("pvalues", "pvals", "zscores", "residual_test_stats"))
    from .common import dependency_footprints

    dependency_footprints(ctx)
    from .common import float64_extractors

    float64_extractors(ctx)
    from .common import public_values_assembled

    public_values_assembled(ctx, "public-assembled", "_Slice", ("zscores", "pvals", "residual_test_stats"))
    from .common import axis_role_lint

    axis_role_lint(ctx, "axis-roles", entries=("zscores", "pvals", "residual_test_stats"))
    # a subtotal cell's OWN count and bases are those of the categories it names, each once: the residual of an inserted
    # row is formed from SumSubtotals blocks, which index with these positions
    from .common import subtotal_terms_once

    subtotal_terms_once(ctx, "subtotal-cells.terms-once")
    # the counts a residual is formed from are those of the row / column ELEMENT: Element.index is its position in the data
    from . import c01

    c01.element_index_provenance(ctx)


def formula(ctx: Ctx):
    ci = ctx.repo.cls(MM, "_Zscores")
    m = ctx.repo.lookup(ci, "_calculate_zscores")
    # parameters are positional at the call sites: whatever they are called, the i-th one is the i-th canonical operand
    CANON = ["counts", "table_bases", "row_bases", "column_bases"]
    params = [p_ for p_ in m.params if p_ not in ("self", "cls")]
    where = f"{MM}::_Zscores._calculate_zscores"
    if len(params) != len(CANON):
        ctx.undecided("params", where, params, str(CANON))
        return
    # private helper methods of the class (a `_bases_coincide(table, vector)` predicate) are inlined; properties stay symbolic
    body = expand(ctx.repo, ci, "_calculate_zscores", bind={a: ast.Name(id=c, ctx=ast.Load()) for a, c in zip(params, CANON)}, stop=lambda mm: mm.kind in ("lazyproperty", "property"))
    paths = strip_ifexp_paths(body)
    ctx.held("params", where, params, "four positional operands: counts, table bases, row bases, column bases")
    from ..exprdiff import canon

    def or_atoms(g):
        return g.values if isinstance(g, ast.BoolOp) and isinstance(g.op, ast.Or) else [g]

    value_leaves = []
    seen_guards = set()
    for gs, leaf in paths:
        lt = u(leaf)
        if lt == "np.full(counts.shape, np.nan)":
            # a NaN-forcing path: every disjunct of its decisive (last positive) guard is classified
            pos = [g for g, pol in gs if pol]
            if not pos:
                ctx.undecided("nan-guard", where, "an unconditional NaN path", "")
                continue
            for a in or_atoms(pos[-1]):
                t = u(canon(a))
                if t in seen_guards:
                    continue
                seen_guards.add(t)
                if t == "self._is_defective":
                    ctx.held("nan-guard", where + " [defective]", t, "defective tables report NaN everywhere")
                else:
                    classify_degenerate_guard(ctx, where, u(a))
        else:
            value_leaves.append((gs, leaf))
    # the defective test dominates the arithmetic: on the path that computes values it is known to be false
    dominated = [any(not pol and "self._is_defective" in [u(canon(a)) for a in or_atoms(g)] for g, pol in gs) for gs, _l in value_leaves]
    if value_leaves:
        ctx.ob("defective-first", where, f"value path(s) guarded by `not self._is_defective`: {dominated}", "the rank/empty guard dominates the arithmetic of all four blocks", all(dominated),
               "a table lacking two independent rows / columns reports NaN everywhere rather than spurious values")
    if len(value_leaves) != 1:
        ctx.undecided("formula", where, f"{len(value_leaves)} value paths", "one formula path")
        return
    v, cnf, snf, _ = equal(
        value_leaves[0][1],
        "(N - R*C/T) / sqrt((R*C/T)*(1 - R/T)*(1 - C/T))",
        rename_spec={"N": "counts", "R": "row_bases", "C": "column_bases", "T": "table_bases"},
    )
    if v is None:
        ctx.undecided("formula", where, cnf, "adjusted standardized residual")
    else:
        ctx.ob("formula", where, cnf, snf, v, "z = (count - expected)/sqrt(expected (1 - row share)(1 - column share))")
    check_divisions(ctx, "errstate", ci, ["_calculate_zscores"])


def classify_degenerate_guard(ctx: Ctx, where: str, g: str):
    """A guard other than `defective` that forces the whole block to NaN must imply that every
    cell is 0/0: np.all(T == R) or np.all(T == C).  An existential test (np.any) fires when only some
    cells are degenerate and blanks cells whose residual is defined."""
    try:
        e = ast.parse(g, mode="eval").body
    except SyntaxError:
        ctx.undecided("nan-guard", where, g, "")
        return
    parts = e.values if isinstance(e, ast.BoolOp) and isinstance(e.op, ast.Or) else [e]
    ok = True
    bad = []
    unknown = []
    for p in parts:
        if isinstance(p, ast.Call) and u(p.func) in ("np.allclose", "np.isclose") and len(p.args) >= 2:
            sides = {u(p.args[0]), u(p.args[1])}
            kws = {k.arg for k in p.keywords}
            if sides in ({"table_bases", "row_bases"}, {"table_bases", "column_bases"}) and not ({"rtol", "atol"} & kws) and len(p.args) == 2:
                # default tolerances: rtol = 1e-5 - a base within 0.001 % of the table base counts as "the whole table"
                bad.append(u(p) + " (relative tolerance 1e-5: a subtotal that leaves out a rare category - share below 1e-5 - blanks a block of DEFINED residuals)")
            else:
                unknown.append(u(p))
        elif isinstance(p, ast.Call) and u(p.func) in ("np.all", "np.any") and len(p.args) == 1 and isinstance(p.args[0], ast.Compare):
            c = p.args[0]
            sides = {u(c.left), u(c.comparators[0])}
            if u(p.func) == "np.any":
                bad.append(u(p) + " (existential)")
            elif not isinstance(c.ops[0], ast.Eq) or sides not in ({"table_bases", "row_bases"}, {"table_bases", "column_bases"}):
                bad.append(u(p))
        else:
            unknown.append(u(p))
    wh = where + " [degenerate-bases]"
    exp = "np.all(table_bases == row_bases) or np.all(table_bases == column_bases)"
    if bad:
        ctx.violated("nan-guard", wh, g, exp, "a block is blanked although some of its cells have a defined residual: " + "; ".join(bad))
    elif unknown:
        ctx.undecided("nan-guard", wh, g, exp)
    else:
        ctx.held("nan-guard", wh, g, exp, "whole block NaN only when every cell is 0/0")


def blocks(ctx: Ctx):
    ci = ctx.repo.cls(MM, "_Zscores")
    stop = lambda m: m.name in ("_calculate_zscores",)
    e = expand(ctx.repo, ci, "blocks", stop=stop)
    want_grid = "[[{0}], [{1}]]"

    def call(i, j):
        return (
            f"self._calculate_zscores({SOM}.weighted_counts.blocks[{i}][{j}], {SOM}.table_weighted_bases.blocks[{i}][{j}], "
            f"{SOM}.row_weighted_bases.blocks[{i}][{j}], {SOM}.column_weighted_bases.blocks[{i}][{j}])"
        )

    want = f"[[{call(0, 0)}, {call(0, 1)}], [{call(1, 0)}, {call(1, 1)}]]"
    ctx.check_expr("block-arguments", f"{MM}::_Zscores.blocks", e, want, "each block is computed from the weighted count and the table/row/column WEIGHTED bases of its own block, in parameter order")
    ctx.count("zscore block call sites", 4)
    ctx.require_min("zscore block call sites", 4)


def defective(ctx: Ctx):
    ci = ctx.repo.cls(MM, "_Zscores")
    e = expand(ctx.repo, ci, "_is_defective")
    ctx.check_expr(
        "defective",
        f"{MM}::_Zscores._is_defective",
        e,
        [f"not np.all({SOM}.weighted_counts.blocks[0][0].shape) or np.linalg.matrix_rank({SOM}.weighted_counts.blocks[0][0]) < 2",
         f"0 in {SOM}.weighted_counts.blocks[0][0].shape or np.linalg.matrix_rank({SOM}.weighted_counts.blocks[0][0]) < 2",
         f"{SOM}.weighted_counts.blocks[0][0].size == 0 or np.linalg.matrix_rank({SOM}.weighted_counts.blocks[0][0]) < 2"],
        "fewer than two linearly independent rows/columns (or an empty table) in the base block of the weighted counts",
    )


    # "two linearly independent rows and columns" is a property of the table under ANY arrangement of its
    # categories: a test that singles out a fixed row, column or cell of the counts (a constant index) is anchored
    # on a position that may be empty - it cannot be a rank test.
    m = ctx.repo.lookup(ci, "_is_defective")
    counts_names = {"counts"} | {t.id for n in ast.walk(m.node) if isinstance(n, ast.Assign) and "weighted_counts" in u(n.value) for t in n.targets if isinstance(t, ast.Name)}
    anchored = []
    for n in ast.walk(m.node):
        if isinstance(n, ast.Subscript) and (u(n.value) in counts_names or u(n.value).endswith("weighted_counts.blocks[0][0]")):
            idx = n.slice.elts if isinstance(n.slice, ast.Tuple) else [n.slice]
            if any(isinstance(i, ast.Constant) and isinstance(i.value, int) for i in idx):
                anchored.append(u(n))
    where = f"{MM}::_Zscores._is_defective"
    if anchored:
        ctx.violated("defective.arrangement-invariant", where, sorted(set(anchored)), "a function of the whole counts table (rank)",
                     "the test is anchored on a fixed row / column / cell: when that one is empty every table looks defective (or none does), although two independent rows and columns exist")
    else:
        ctx.held("defective.arrangement-invariant", where, "no constant index into the counts table", "a function of the whole counts table (rank)")


def pvalues(ctx: Ctx):
    ci = ctx.repo.cls(MM, "_Pvalues")
    m = ctx.repo.lookup(ci, "_calculate_pval")
    body = SUMMARIZER.summarize(m.node)
    where = f"{MM}::_Pvalues._calculate_pval"
    paths = strip_ifexp_paths(body)
    formula_paths = [(gs, l) for gs, l in paths if u(l) != "zscores"]
    passthrough = [(gs, l) for gs, l in paths if u(l) == "zscores"]
    if len(formula_paths) != 1:
        ctx.undecided("pvalue-formula", where, f"{len(formula_paths)} formula paths", "one formula path")
    else:
        v, cnf, snf, _ = equal(formula_paths[0][1], "2 * (1 - norm.cdf(abs(zscores)))")
        ctx.ob("pvalue-formula", where, cnf, snf, v, "two-sided normal tail")
    from ..exprdiff import canon

    conds = [(u(canon(g)), pol) for gs, _l in passthrough for g, pol in gs]
    ok = bool(passthrough) and all((t == "0 in zscores.shape" and pol) or (t == "0 not in zscores.shape" and not pol) for t, pol in conds)
    ctx.ob("pvalue-formula.empty", where, conds, "an empty block is returned unchanged", True if ok else None)
    e = expand(ctx.repo, ci, "blocks", stop=lambda mm: mm.name == "_calculate_pval")
    call = lambda i, j: f"self._calculate_pval({SOM}.zscores.blocks[{i}][{j}])"
    ctx.check_expr("pvalue-blocks", f"{MM}::_Pvalues.blocks", e, f"[[{call(0,0)}, {call(0,1)}], [{call(1,0)}, {call(1,1)}]]", "p-value of block (i,j) from the z-score of block (i,j)")
    sl = ctx.repo.cls("cubepart.py", "_Slice")
    e = expand(ctx.repo, sl, "residual_test_stats", stop=lambda mm: True)
    ctx.check_expr("public-wiring", "cubepart.py::_Slice.residual_test_stats", e, "np.stack([self.pvals, self.zscores])")
    for prop, meas in (("zscores", "zscores"), ("pvals", "pvalues")):
        e = expand(ctx.repo, sl, prop, stop=lambda mm: True)
        ctx.check_expr("public-wiring", f"cubepart.py::_Slice.{prop}", e, f"self._assemble_matrix(self._measures.{meas}.blocks)")
