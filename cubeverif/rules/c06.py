"""C06 - partitioning of 3-D and multi-cube responses restricts to the right respondents."""
from __future__ import annotations

import ast

from ..core import Ctx
from ..loader import AnalysisError
from ..symex import SUMMARIZER, expand, strip_ifexp_paths, u
from . import layouts as LY

MCM = "matrix/cubemeasure.py"
SCM = "stripe/cubemeasure.py"


def _index_space(ctx: Ctx):
    from .common import slice_index_space

    slice_index_space(ctx, "slice-index-space")


def run(ctx: Ctx):
    ctx.explanation = (
        "Decision tables of the slice enumeration and of the slice-index expression (table k; selected plane of an MR "
        "table axis); must-pass-through: every matrix cube-measure factory applies that expression to every tensor it "
        "hands to a measure class while dispatching on the LAST TWO dimension types; the strand of sub-variable k; "
        "the partition factory dispatch; argument/parameter agreement at every constructor call that forwards "
        "slice index, CA-as-0th flag, population, transforms and mask size; multi-cube zipping."
    )
    ctx.not_decided = ["equality with an independently restricted 2-D analysis of real data"]
    enumeration(ctx)
    slice_expr(ctx)
    factories(ctx)
    strand(ctx)
    partition_factory(ctx)
    arg_positions(ctx)
    cubeset(ctx)
    _index_space(ctx)
    from .common import generic_lints

    generic_lints(ctx)
    inflate_position(ctx)
    from .common import rebuild_forwards_settings

    rebuild_forwards_settings(ctx, "rebuild-settings", "cube.py", "Cube", ("cube_idx", "transforms"))
    from .common import payload_value_truthiness

    payload_value_truthiness(ctx)
    from .common import transform_pairing_table

    transform_pairing_table(ctx)
    self_contained(ctx)
    from . import c01

    # table k of a 3-D response is cut out of arrays filtered by this index: its axes must stay (table, rows, columns)
    c01.valid_idxs_single_mesh(ctx)


_SIBLING_CONTROL = "class P:\n    def order(self):\n        return self._cube.partitions[0].order\n"


def _sibling_reads(tree: ast.AST):
    """Reads of the cube's partition sequence (`<x>.partitions`, `<x>.partition_sets`) - i.e. of ANOTHER partition."""
    return [n for n in ast.walk(tree) if isinstance(n, ast.Attribute) and n.attr in ("partitions", "partition_sets") and isinstance(n.ctx, ast.Load)]


def self_contained(ctx: Ctx):
    """Partition k is the analysis of table k and of nothing else: no member of a partition class reads a SIBLING partition
    (`self._cube.partitions[0]...`): whatever it takes from there (an order, a pruning decision, a base) was computed
    from another table's data.  Positive-evidence lint over cubepart.py, with a positive control."""
    if len(_sibling_reads(ast.parse(_SIBLING_CONTROL))) != 1:
        raise AnalysisError("self-contained: the positive control is no longer recognised")
    mod = ctx.repo.module("cubepart.py")
    n, hits = 0, []
    for ci in mod.classes.values():
        for name, m in ci.members.items():
            n += 1
            for r in _sibling_reads(m.node):
                hits.append((f"cubepart.py::{ci.name}.{name}", u(r)))
    ctx.count("partition members scanned for sibling reads", n)
    ctx.require_min("partition members scanned for sibling reads", 100)
    for where, text in hits:
        ctx.violated("self-contained", where, f"reads {text}", "a partition reads only its own table (cube, slice index, transforms)",
                     "what is taken from a sibling partition was computed from ANOTHER table's data (its empty rows, its values): partition k is no longer the analysis of table k alone")
    if not hits:
        ctx.held("self-contained", "cubepart.py: every member of every partition class", f"{n} members, none reads the cube's partition sequence", "", "positive control recognised")


def enumeration(ctx: Ctx):
    cube = ctx.repo.cls("cube.py", "Cube")
    e = expand(ctx.repo, cube, "_slice_idxs", stop=lambda m: True)
    enumeration_table(ctx, cube)
    ctx.check_expr("enumeration", "cube.py::Cube._slice_idxs", e, "range(1) if self.ndim < 3 and (not self._ca_as_0th) else range(len(self.dimensions[0].valid_elements))", "one partition per VALID element of the first dimension for 3-D / CA-as-0th responses, else exactly one")
    e = expand(ctx.repo, cube, "_ca_as_0th", stop=lambda m: True)
    ctx.check_expr("enumeration", "cube.py::Cube._ca_as_0th", e, "(self._cube_idx_arg == 0 or self.is_single_filter_col_cube) and len(self.dimension_types) > 0 and (self.dimension_types[0] == DT.CA)", "a categorical array is sliced per sub-variable only as the leading cube of a set (or a single-filter column)")
    e = expand(ctx.repo, cube, "partitions", stop=lambda m: True)
    ctx.check_expr(
        "enumeration",
        "cube.py::Cube.partitions",
        e,
        "tuple((CubePartition.factory(self, slice_idx=slice_idx, transforms=self._transforms_dict, population=self._population, ca_as_0th=self._ca_as_0th, mask_size=self._mask_size) for slice_idx in self._slice_idxs))",
        "partition k is built with slice index k",
    )
    e = expand(ctx.repo, cube, "ndim", stop=lambda m: True)
    ctx.check_expr("enumeration", "cube.py::Cube.ndim", e, "len(self.dimensions)")
    e = expand(ctx.repo, cube, "dimensions", stop=lambda m: True)
    ctx.check_expr("enumeration", "cube.py::Cube.dimensions", e, "self._all_dimensions.apparent_dimensions")


def slice_expr(ctx: Ctx):
    ci = ctx.repo.cls(MCM, "_BaseCubeMeasure")
    m = ctx.repo.lookup(ci, "_slice_idx_expr")
    body = SUMMARIZER.summarize(m.node)
    ctx.check_expr(
        "slice-expression",
        f"{MCM}::_BaseCubeMeasure._slice_idx_expr",
        body,
        "np.s_[:] if cube.ndim < 3 else np.s_[slice_idx, 0] if cube.dimension_types[0] == DT.MR else np.s_[slice_idx]",
        "2-D: everything; MR table axis: item k, SELECTED plane (index 0); otherwise table k",
    )


def factories(ctx: Ctx):
    bases = ["_BaseCubeCounts", "_BaseCubeMeans", "_BaseCubeMedians", "_BaseCubeOverlaps", "_BaseCubeStdDev", "_BaseCubeSums", "_BaseUnconditionalCubeCounts"]
    for b in bases:
        ci = ctx.repo.cls(MCM, b)
        fac = ctx.repo.lookup(ci, "factory")
        body = LY.factory_body(ctx, ci)
        where = f"{MCM}::{b}.factory"
        ctors = []
        for _g, leaf in strip_ifexp_paths(body):
            if isinstance(leaf, ast.Call) and not u(leaf.func).startswith("__raise__"):
                ctors.append(leaf)
            elif isinstance(leaf, ast.IfExp):
                pass
        # overlaps: `_MrXMrOverlaps(*args) if ... else _CatXMrOverlaps(*args)` is one leaf after path-stripping
        data_args = []
        for c in ctors:
            args = list(c.args)
            if len(args) == 1 and isinstance(args[0], ast.Starred) and isinstance(args[0].value, ast.Tuple):
                args = list(args[0].value.elts)
            data_args += [a for a in args[1:] if not (isinstance(a, ast.Name) and a.id in ("diff_nans",))]
        from .common import is_slice_idx_expr

        bad = [u(a) for a in data_args if not (isinstance(a, ast.Subscript) and is_slice_idx_expr(a.slice))]
        if not data_args:
            ctx.undecided("slice-pass-through", where, "constructor call with data arguments not found", "tensor[cls._slice_idx_expr(cube, slice_idx)]")
        else:
            ctx.ob("slice-pass-through", where, bad or [u(a) for a in data_args], "every tensor handed to the measure class is indexed by cls._slice_idx_expr(cube, slice_idx)", not bad, "the measure of partition k sees only table k")
        ctx.count("matrix factories applying the slice expression")
        # dispatch on the last two dimension types
        uses = [u(n) for n in ast.walk(body) if isinstance(n, ast.Subscript) and u(n.value) == "cube.dimension_types"]
        from ..exprdiff import alpha

        dims_alt = "tuple((_b0.dimension_type for _b0 in dimensions))" in u(alpha(body))
        # positive evidence only: some OTHER slice of the cube's dimension types is a violation, neither form is undecided
        ok = (all(x == "cube.dimension_types[-2:]" for x in uses)) if uses else (True if dims_alt else None)
        ctx.ob("dispatch-dimensions", where, uses or ("slice dimensions" if dims_alt else "none"), "cube.dimension_types[-2:] (or the slice's own two dimensions)", ok, "rows x columns kinds are those of the LAST two dimensions")
    ctx.require_min("matrix factories applying the slice expression", 7)
    sl = ctx.repo.cls("cubepart.py", "_Slice")
    e = expand(ctx.repo, sl, "_dimensions", stop=lambda m: True)
    ctx.check_expr("dispatch-dimensions", "cubepart.py::_Slice._dimensions", e, "tuple((dimension.apply_transforms(transforms) for dimension, transforms in zip(self._cube.dimensions[-2:], self._transform_dicts)))", "the slice's dimensions are the last two of the cube, with (rows, columns) transforms")
    if ctx.repo.lookup(sl, "_transform_dicts") is not None:  # a private helper: its role is decided by `transform-pairing`
        e = expand(ctx.repo, sl, "_transform_dicts", stop=lambda m: True)
        ctx.check_expr("dispatch-dimensions", "cubepart.py::_Slice._transform_dicts", e, "(self._transforms_dict.get('rows_dimension', {}), self._transforms_dict.get('columns_dimension', {}))")
    e = expand(ctx.repo, sl, "_measures", stop=lambda m: True)
    ctx.check_expr("slice-pass-through", "cubepart.py::_Slice._measures", e, "SecondOrderMeasures(self._cube, self._dimensions, self._slice_idx)")
    som = ctx.repo.cls("matrix/measure.py", "SecondOrderMeasures")
    e = expand(ctx.repo, som, "_cube_measures", stop=lambda m: True)
    ctx.check_expr("slice-pass-through", "matrix/measure.py::SecondOrderMeasures._cube_measures", e, "CubeMeasures(self._cube, self._dimensions, self._slice_idx)")
    cm = ctx.repo.cls(MCM, "CubeMeasures")
    n = 0
    for name, m in cm.members.items():
        if m.kind != "lazyproperty":
            continue
        body = SUMMARIZER.summarize(m.node)
        for _g, leaf in strip_ifexp_paths(body):
            if isinstance(leaf, ast.Call) and u(leaf.func).endswith(".factory"):
                from .common import positional_args

                target = ctx.repo.resolve_class(cm.module, u(leaf.func)[: -len(".factory")])
                callee = ctx.repo.lookup(target, "factory") if target is not None else None
                args = positional_args(ctx, leaf, callee) if callee is not None else (list(leaf.args) if not leaf.keywords else None)
                n += 1
                if args is None:
                    ctx.undecided("slice-pass-through", f"{MCM}::CubeMeasures.{name}", u(leaf)[:120], "arguments bound to (..., cube, dimensions, slice_idx)")
                    continue
                tail = [u(a) for a in args[-3:]]
                ok = tail == ["self._cube", "self._dimensions", "self._slice_idx"]
                ctx.ob("slice-pass-through", f"{MCM}::CubeMeasures.{name}", tail, "[..., self._cube, self._dimensions, self._slice_idx]", ok)
    ctx.count("CubeMeasures factory calls", n)
    ctx.require_min("CubeMeasures factory calls", 9)


def strand(ctx: Ctx):
    from ..dectab import DTop, Raises, Sym, SymInterp, eval_ctor
    from ..typetab import dt_members, dt_value

    ci = ctx.repo.cls(SCM, "_BaseCubeCounts")
    body = LY.factory_body(ctx, ci)
    where = f"{SCM}::_BaseCubeCounts.factory"
    bad, n = [], 0
    try:
        for ca0 in (True, False):
            for mem in dt_members(ctx.repo):
                def atoms(e, ca0=ca0, mem=mem):
                    t = u(e)
                    if t == "ca_as_0th":
                        return ca0
                    if t == "rows_dimension.dimension_type":
                        return mem
                    if isinstance(e, ast.Attribute) and isinstance(e.value, ast.Name) and e.value.id == "DT":
                        return dt_value(ctx.repo, e.attr)
                    if isinstance(e, ast.Name) and ctx.repo.resolve_class(ci.module, e.id) is not None:
                        return ctx.repo.resolve_class(ci.module, e.id).name
                    raise KeyError

                callee, args, _kw = eval_ctor(SymInterp(atoms), body)
                # keyword arguments bound to the constructor's parameters (`_CatCubeCounts(rows_dimension, counts=counts)`)
                if _kw:
                    tcls = ctx.repo.opt_cls(SCM, callee) if isinstance(callee, str) else None
                    init = ctx.repo.lookup(tcls, "__init__") if tcls is not None else None
                    params = [p_ for p_ in (init.params if init is not None else []) if p_ != "self"]
                    slots = list(args) + [None] * max(0, len(params) - len(args))
                    for k_, v_ in _kw.items():
                        if k_ in params and params.index(k_) >= len(args):
                            slots[params.index(k_)] = v_
                        else:
                            slots = None
                            break
                    if slots is None or any(x is None for x in slots):
                        raise DTop(f"keyword arguments of {callee} not bound")
                    args = slots
                got = (callee, [repr(a) for a in args])
                if ca0:
                    want = ("_CatCubeCounts", ["rows_dimension", "counts[slice_idx]"])
                else:
                    want = ({"NUM_ARRAY": "_NumArrCubeCounts", "MR_SUBVAR": "_MrCubeCounts"}.get(mem, "_CatCubeCounts"), ["rows_dimension", "counts"])
                n += 1
                if got != want:
                    bad.append(f"ca_as_0th={ca0} type={mem}: {got} (specified {want})")
        ctx.count("strand factory table rows", n)
        ctx.ob("strand", where, bad[:4] or f"{n} (ca_as_0th, dimension type) cases", "CA-as-0th: row k of the 2-D tensor as a categorical strand; else numeric array / MR / categorical by the rows dimension, whole tensor", not bad,
               "CA-as-0th: the strand of sub-variable k is row k of the 2-D tensor, treated as categorical")
    except (DTop, Raises) as exc:
        ctx.undecided("strand", where, f"DECTAB: {exc}", "decision table over (ca_as_0th, dimension type)")
    st = ctx.repo.cls("cubepart.py", "_Strand")
    e = expand(ctx.repo, st, "_rows_dimension", stop=lambda m: True)
    ctx.check_expr("strand", "cubepart.py::_Strand._rows_dimension", e, "self._cube.dimensions[-1].apply_transforms(self._row_transforms_dict)")
    e = expand(ctx.repo, st, "_measures", stop=lambda m: True)
    ctx.check_expr("strand", "cubepart.py::_Strand._measures", e, "StripeMeasures(self._cube, self._rows_dimension, self._ca_as_0th, self._slice_idx)")
    sm = ctx.repo.cls("stripe/measure.py", "StripeMeasures")
    e = expand(ctx.repo, sm, "_cube_measures", stop=lambda m: True)
    ctx.check_expr("strand", "stripe/measure.py::StripeMeasures._cube_measures", e, "CubeMeasures(self._cube, self._rows_dimension, self._ca_as_0th, self._slice_idx)")
    cm = ctx.repo.cls(SCM, "CubeMeasures")
    for name in ("unweighted_cube_counts", "weighted_cube_counts"):
        from .common import positional_args

        body = expand(ctx.repo, cm, name, stop=lambda mm: mm.kind in ("lazyproperty", "property"))
        calls = [l for _g, l in strip_ifexp_paths(body) if isinstance(l, ast.Call) and u(l.func).endswith(".factory")]
        callee = ctx.repo.lookup(ctx.repo.cls(SCM, "_BaseCubeCounts"), "factory")
        args = positional_args(ctx, calls[0], callee) if calls and callee is not None else None
        if args is None:
            ctx.undecided("strand", f"{SCM}::CubeMeasures.{name}", u(body)[:100], "factory(counts, rows_dimension, ca_as_0th, slice_idx)")
            continue
        tail = [u(a) for a in args[-3:]]
        ctx.ob("strand", f"{SCM}::CubeMeasures.{name}", tail, "['self._rows_dimension', 'self._ca_as_0th', 'self._slice_idx']", tail == ["self._rows_dimension", "self._ca_as_0th", "self._slice_idx"])
    # sibling cross-check: the strand of sub-variable k sees sub-variable k's part of EVERY measure the response carries.  The
    # counts factory is handed `ca_as_0th` and `slice_idx` (and takes `counts[slice_idx]`); a sibling that hands its factory the
    # cube alone gives the 1-D measure the whole 2-D (items x categories) array - `strand.means` of a categorical array
    # analysed CA-as-0th cannot be read at all (the broadcast error is re-raised as "no mean measure").
    for prop_, base in (("cube_means", "_BaseCubeMeans"), ("cube_medians", "_BaseCubeMedians"), ("cube_stddev", "_BaseCubeStdDev"), ("cube_sum", "_BaseCubeSums")):
        where = f"{SCM}::CubeMeasures.{prop_}"
        if ctx.repo.lookup(cm, prop_) is None:
            ctx.undecided("strand.numeric-measures", where, "member not found", "the measure restricted to sub-variable slice_idx when ca_as_0th")
            continue
        body = expand(ctx.repo, cm, prop_, stop=lambda mm: mm.kind in ("lazyproperty", "property"))
        f = ctx.repo.lookup(ctx.repo.cls(SCM, base), "factory")
        reads = {n.attr for n in ast.walk(body) if isinstance(n, ast.Attribute) and isinstance(n.value, ast.Name) and n.value.id == "self"}
        sliced = "_slice_idx" in reads and "_ca_as_0th" in reads
        if f is not None and ("slice_idx" in f.params or "ca_as_0th" in f.params):
            sliced = sliced or True
        ctx.ob("strand.numeric-measures", where, sorted(reads), "depends on self._ca_as_0th and self._slice_idx (as the counts do)", True if sliced else False,
               "the numeric measures of a CA-as-0th strand are those of ITS sub-variable; handed the cube alone the factory cannot know which")
        ctx.count("stripe numeric-measure factories")
    ctx.require_min("stripe numeric-measure factories", 4)


def partition_factory(ctx: Ctx):
    cp = ctx.repo.cls("cubepart.py", "CubePartition")
    m = ctx.repo.lookup(cp, "factory")
    body = SUMMARIZER.summarize(m.node)
    ctx.check_expr(
        "partition-factory",
        "cubepart.py::CubePartition.factory",
        body,
        "_Nub(cube) if cube.ndim == 0 else _Strand(cube, transforms, population, ca_as_0th, slice_idx, mask_size) if cube.ndim == 1 or ca_as_0th else _Slice(cube, slice_idx, transforms, population, mask_size)",
        "0-D -> nub; 1-D or CA-as-0th -> strand; else slice",
    )


def arg_positions(ctx: Ctx):
    """Name/position agreement: an argument that is a plain name equal to a parameter name of the
    callee must be passed for THAT parameter."""
    vocab = {"slice_idx", "mask_size", "population", "transforms", "ca_as_0th", "cube", "dimensions", "rows_dimension", "cube_idx", "cube_measures", "second_order_measures", "measures", "format", "counts", "diff_nans"}
    n = 0
    for caller in ctx.repo.all_members():
        if caller.cls.module.short not in ("cubepart.py", "cube.py", MCM, SCM, "matrix/measure.py", "stripe/measure.py", "matrix/assembler.py", "stripe/assembler.py"):
            continue
        for node in ast.walk(caller.node):
            if not isinstance(node, ast.Call):
                continue
            classes = ctx.types.callee_classes(node.func, caller.cls.module) if not isinstance(node.func, ast.Attribute) else []
            targets = []
            for c in classes:
                init = ctx.types.init_of(c)
                if init is not None:
                    targets.append((c.name, init))
            if isinstance(node.func, ast.Attribute) and node.func.attr == "factory":
                cs = ctx.types.callee_classes(node.func.value, caller.cls.module)
                for c in cs:
                    f = ctx.repo.lookup(c, "factory")
                    if f is not None:
                        targets.append((c.name + ".factory", f))
            for tname, callee in targets:
                params = callee.params
                for i, a in enumerate(node.args):
                    if isinstance(a, ast.Starred) or i >= len(params):
                        break
                    arg_name = a.id if isinstance(a, ast.Name) else (a.attr.lstrip("_") if isinstance(a, ast.Attribute) and isinstance(a.value, ast.Name) and a.value.id == "self" else None)
                    if arg_name in vocab and arg_name in params:
                        n += 1
                        ok = params[i] == arg_name
                        if not ok:
                            ctx.violated("argument-positions", f"{caller.qual} -> {tname}", f"argument `{u(a)}` is passed for parameter `{params[i]}`", f"parameter `{arg_name}`", "an argument named like one parameter is passed in the position of another (slice index, mask size, population, transforms and CA-as-0th travel positionally through several constructors)")
    ctx.count("named positional arguments checked", n)
    ctx.held("argument-positions", "all constructor / factory calls in cubepart, cube, measure, cubemeasure, assembler modules", f"{n} named positional arguments, each in the position of the parameter of the same name", "argument name == parameter name at its position")
    ctx.require_min("named positional arguments checked", 150)


def partition_sets_table(ctx: Ctx, cs):
    """`partition_sets` evaluated (DECTAB) on models of the cube set: 1..3 cubes x 1..3 partitions each x every truth value
    of the boolean properties it consults.  Set k must hold the k-th partition of every cube, for EVERY k."""
    from ..dectab import DTop, ModelInterp, Raises

    m = ctx.repo.lookup(cs, "partition_sets")
    where = "cube.py::CubeSet.partition_sets [table]"
    body = SUMMARIZER.summarize(m.node)
    flags = sorted({u(n) for n in ast.walk(body) if isinstance(n, ast.Attribute) and isinstance(n.value, ast.Name) and n.value.id == "self" and n.attr != "_cubes"})
    if len(flags) > 3:
        ctx.undecided("cubeset.table", where, f"consults {flags}", "zip of the cubes' partitions")
        return

    class _I(ModelInterp):
        def _call(self, c, it):
            if isinstance(c.func, ast.Name) and c.func.id == "zip":
                args = []
                for a in c.args:
                    if isinstance(a, ast.Starred):
                        args += [tuple(x) for x in self.ev(a.value)]
                    else:
                        args.append(tuple(self.ev(a)))
                return [tuple(t) for t in zip(*args)]
            return super()._call(c, it)

    bad, n = [], 0
    try:
        for n_cubes in (1, 2, 3):
            for n_parts in (1, 2, 3):
                cubes = [{".partitions": tuple(f"c{i}p{k}" for k in range(n_parts))} for i in range(n_cubes)]
                want = tuple(tuple(f"c{i}p{k}" for i in range(n_cubes)) for k in range(n_parts))
                for mask in range(2 ** len(flags)):
                    vals = {f: bool(mask >> j & 1) for j, f in enumerate(flags)}

                    def atoms(x, cubes=cubes, vals=vals):
                        t = u(x)
                        if t == "self._cubes":
                            return cubes
                        if t in vals:
                            return vals[t]
                        raise KeyError

                    n += 1
                    try:
                        got = _I(atoms).ev(body)
                    except Raises as r:
                        bad.append(f"{n_cubes} cubes x {n_parts} partitions {vals}: raises {r.etype}")
                        continue
                    got = tuple(tuple(x) for x in got)
                    if got != want:
                        bad.append(f"{n_cubes} cubes x {n_parts} partitions {vals or ''}: {len(got)} set(s) {got[:2]}, specified {len(want)}")
    except DTop as t:
        ctx.undecided("cubeset.table", where, "DECTAB: " + str(t), "zip of the cubes' partitions")
        return
    ctx.count("partition-set models", n)
    ctx.ob("cubeset.table", where, bad[:3] or f"{n} (cubes, partitions, flags) models", "set k = (k-th partition of cube 0, of cube 1, ...) for every k", not bad,
           "a multi-cube set of 3-D cubes loses the tables of every first-dimension element but the first")
    ctx.require_min("partition-set models", 9)


def enumeration_table(ctx: Ctx, cube):
    """`Cube._slice_idxs` evaluated (DECTAB) over (number of dimensions, CA-as-0th, every other boolean / small-int property
    it consults): one index per valid element of the first dimension for a 3-D response AND for a CA-as-0th cube -
    whatever its position in the cube set -, exactly one otherwise."""
    from ..dectab import DTop, ModelInterp, Raises

    m = ctx.repo.lookup(cube, "_slice_idxs")
    where = "cube.py::Cube._slice_idxs [table]"
    # private helper properties (a `_slice_count`) are inlined; public members and the CA-as-0th flag are the table's inputs
    body = expand(ctx.repo, cube, "_slice_idxs", stop=lambda mm: not mm.name.startswith("_") or mm.name == "_ca_as_0th")
    known = {"self.ndim", "self._ca_as_0th", "self.dimensions"}
    extra = sorted({u(n) for n in ast.walk(body) if isinstance(n, ast.Attribute) and isinstance(n.value, ast.Name) and n.value.id == "self" and u(n) not in known})
    if len(extra) > 2:
        ctx.undecided("enumeration.table", where, f"consults {extra}", "range over the valid elements of the first dimension")
        return
    N = 4
    bad, n = [], 0
    try:
        for ndim in (0, 1, 2, 3):
            for ca0 in ((False, True) if ndim == 2 else (False,)):
                for combo in range(3 ** len(extra)):
                    vals, c = {}, combo
                    for x in extra:
                        vals[x] = (0, 1, True)[c % 3]
                        c //= 3

                    def atoms(x, ndim=ndim, ca0=ca0, vals=vals):
                        t = u(x)
                        if t == "self.ndim":
                            return ndim
                        if t == "self._ca_as_0th":
                            return ca0
                        if t == "self.dimensions[0].valid_elements":
                            return tuple(range(N))
                        if t in vals:
                            return vals[t]
                        raise KeyError

                    want = tuple(range(N)) if (ndim >= 3 or ca0) else (0,)
                    n += 1
                    try:
                        got = tuple(ModelInterp(atoms).ev(body))
                    except Raises as r:
                        bad.append(f"ndim={ndim} ca_as_0th={ca0} {vals or ''}: raises {r.etype}")
                        continue
                    if got != want:
                        bad.append(f"ndim={ndim} ca_as_0th={ca0} {vals or ''}: {len(got)} partition(s), specified {len(want)}")
    except DTop as t:
        ctx.undecided("enumeration.table", where, "DECTAB: " + str(t), "range over the valid elements of the first dimension")
        return
    ctx.count("enumeration models", n)
    ctx.ob("enumeration.table", where, bad[:3] or f"{n} (ndim, CA-as-0th, flags) models", "one partition per valid element of the first dimension for 3-D and CA-as-0th cubes, else one", not bad,
           "a CA cube that is CA-as-0th by being a single-column filter at index >= 1 yields ONE strand: zip() across the cubes then drops every partition set but the first")
    ctx.require_min("enumeration models", 5)


def cubeset(ctx: Ctx):
    cs = ctx.repo.cls("cube.py", "CubeSet")
    e = expand(ctx.repo, cs, "partition_sets", stop=lambda m: True)
    ctx.check_expr("cubeset", "cube.py::CubeSet.partition_sets", e, "tuple(zip(*(cube.partitions for cube in self._cubes)))", "partition set k lines up the k-th partition of every cube")
    partition_sets_table(ctx, cs)
    m = ctx.repo.lookup(cs, "_cubes")
    ctor = None
    for n in ast.walk(m.node):
        if isinstance(n, ast.Call) and isinstance(n.func, ast.Name) and n.func.id == "Cube" and (n.keywords or len(n.args) >= 2):
            ctor = n
    if ctor is None:
        ctx.undecided("cubeset", "cube.py::CubeSet._cubes", "Cube(...) call not found", "")
    else:
        ctx.check_expr(
            "cubeset",
            "cube.py::CubeSet._cubes [Cube(...)]",
            ctor,
            # (package-internal calls are compared in positional form: cube_idx, transforms, population, mask_size)
            "Cube(cube_response, idx if self._is_multi_cube else None, self._transforms_dicts[idx], self._population, self._min_base)",
            "cube idx, its own transforms, the population and the minimum base are passed by matching names",
        )
    from ..stmts import match_atoms, positive_guard_atoms

    for method, wants, why in (
        ("inflate", ["self._is_numeric_measure"], "cubes are inflated only in the numeric-measure case"),
        ("augment_response", ["self._is_multi_cube", "cube.is_single_filter_col_cube", "idx > 0"], "augmentation only for a single-filter column cube after the first, in a multi-cube set"),
    ):
        calls = [n for n in ast.walk(m.node) if isinstance(n, ast.Call) and isinstance(n.func, ast.Attribute) and n.func.attr == method]
        where = f"cube.py::CubeSet._cubes [{method}]"
        if not calls:
            ctx.undecided("cubeset.guards", where, f"no call of .{method}() found", " and ".join(wants))
            continue
        for c in calls:
            held = positive_guard_atoms(m.node, c)
            with ctx.scope("cube.py", "CubeSet", "_cubes"):
                matched = match_atoms(held, wants)
            for w, (ok, detail) in matched.items():
                ctx.ob("cubeset.guards", where + f" [{w}]", [u(h)[:50] for h in held], w, ok, detail or why)
    e = expand(ctx.repo, cs, "_is_numeric_measure", stop=lambda m: True)
    ctx.check_expr("cubeset.guards", "cube.py::CubeSet._is_numeric_measure", e, "False if not self._is_multi_cube else Cube(self._cube_responses[0]).ndim == 0")
    e = expand(ctx.repo, cs, "_is_multi_cube", stop=lambda m: True)
    ctx.check_expr("cubeset.guards", "cube.py::CubeSet._is_multi_cube", e, "len(self._cube_responses) > 1")


def inflate_position(ctx: Ctx):
    """A padded cube gets its one-row dimension as the FIRST dimension, whatever the number of raw dimensions of the
    response (an MR or categorical-array column has two): position argument of the insertion, evaluated for 0..3."""
    from ..dectab import DTop, ModelInterp, Raises

    cube = ctx.repo.cls("cube.py", "Cube")
    fns = [ctx.repo.lookup(cube, "inflate")] + [m for n, m in cube.members.items() if "inflate" in n and n != "inflate"]
    fns = [f for f in fns if f is not None]
    if not fns:
        raise AnalysisError("Cube.inflate vanished")
    from ..stmts import resolver

    found = 0
    for m in fns:
        res = resolver(m.node, multi=True)
        for c in ast.walk(m.node):
            if isinstance(c, ast.Call) and isinstance(c.func, ast.Attribute) and c.func.attr == "insert" and len(c.args) == 2:
                found += 1
                where = f"cube.py::Cube.{m.name} [{u(c)[:60]}]"
                bad, undec = [], None
                for pos_e in res(c.args[0]):
                    for n_dims in (0, 1, 2, 3):
                        def atoms(x, n_dims=n_dims):
                            t = u(x)
                            if t in ("len(dimensions)", "len(dims)", "len(cube_dict['result']['dimensions'])", "len(self._cube_dict['result']['dimensions'])") or (t.startswith("len(") and "dimensions" in t):
                                return n_dims
                            raise KeyError

                        class _I(ModelInterp):
                            def _call(self, cc, it):
                                if isinstance(cc.func, ast.Name) and cc.func.id in ("max", "min"):
                                    vals = [self.ev(a) for a in cc.args]
                                    return max(vals) if cc.func.id == "max" else min(vals)
                                return super()._call(cc, it)

                        try:
                            got = _I(atoms).ev(pos_e)
                        except (DTop, Raises) as exc:
                            undec = str(exc)
                            break
                        if got != 0:
                            bad.append(f"{n_dims} raw dimensions -> position {got}")
                    if undec:
                        break
                if undec:
                    ctx.undecided("inflate-position", where, "DECTAB: " + undec, "position 0")
                else:
                    ctx.ob("inflate-position", where, bad or "position 0 for 0..3 raw dimensions", "the padding rows dimension is inserted at position 0", not bad,
                           "between the two raw dimensions of an MR / array column the inflated cube is read as MR x CAT instead of CAT x MR")
    if not found:
        ctx.undecided("inflate-position", "cube.py::Cube.inflate", "no dimensions.insert(position, dimension) call found", "position 0")


def dispatch_dimension_uses(ctx: Ctx, rule: str = "dispatch-dimensions"):
    """Which dimensions of the cube the matrix factories dispatch on: the LAST TWO (rows, columns of the slice) - positive
    evidence of another slice of `cube.dimension_types` (`[0]`, `[1]`, `[:2]`: table and rows of a 3-D cube) is a violation."""
    from ..exprdiff import alpha

    for b in ("_BaseCubeCounts", "_BaseCubeMeans", "_BaseCubeMedians", "_BaseCubeStdDev", "_BaseCubeSums", "_BaseUnconditionalCubeCounts"):
        ci = ctx.repo.cls(MCM, b)
        body = LY.factory_body(ctx, ci)
        where = f"{MCM}::{b}.factory"
        uses = [u(n) for n in ast.walk(body) if isinstance(n, ast.Subscript) and u(n.value) == "cube.dimension_types"]
        dims_alt = "tuple((_b0.dimension_type for _b0 in dimensions))" in u(alpha(body))
        ok = (all(x == "cube.dimension_types[-2:]" for x in uses)) if uses else (True if dims_alt else None)
        ctx.ob(rule, where, uses or ("slice dimensions" if dims_alt else "none"), "cube.dimension_types[-2:] (or the slice's own two dimensions)", ok, "rows x columns kinds are those of the LAST two dimensions")
