"""C18 - results are a pure function of the arguments, whatever the access history."""
from __future__ import annotations

import ast
from typing import Dict, List

from ..core import Ctx
from ..effects import inventory
from ..stmts import atoms, resolver
from ..symex import SUMMARIZER, expand, strip_ifexp_paths, u
from . import c19

# frozen table of the writes to objects that are not created by the writing function.
# key = "<module>::<Class>.<member> [<kind> <target>]"  -> idempotence / safety argument
ACCEPTED_WRITES: Dict[str, str] = {
    # key = "<module>::<Class> [<kind> <what is written>]": stable when the write moves into a private helper of the same
    # class or temporaries are renamed; a write of ANOTHER key, by ANOTHER class, or of another kind is not covered.
    "cube.py::_BaseMeasure [read-only flag]": "makes the cached raw array read-only (the mechanism that protects it); `flags.writeable = False` or `setflags(write=False)`",
    "dimension.py::_ElementIdShim [store 'subvar_alias']": "adds a key that no value computation reads (aliases are read from value.references.alias / id); rewriting gives the same value",
    "dimension.py::_ElementIdShim [store 'datetime_value']": "copy of el['value'], which is never modified",
    "util.py::lazyproperty [store __dict__]": "the descriptor's own cache store",
    # NOT accepted (D38): the three stores of `Cube.augment_response` into the CALLER's response (elements, counts, count data).
    # Within one CubeSet the edit is idempotent (the padded lists have the summary's length), but the response dict the
    # caller still holds is padded too: a Cube built on it later shows rows the same response as JSON text does not.
    # NOT accepted (D29): `Cube.inflate` inserting the synthetic rows dimension into the CALLER's response.  Through CubeSet
    # the edit is self-limiting (the inflated response no longer has 0 dimensions), but `inflate` is public: a second
    # `Cube(d).inflate()` on the same dict stacks a second dimension.  The inflated cube gets a response of its own.
    # NOT accepted (D23): stores of 'elements' / 'element_ids' / 'top' / 'bottom' into the CALLER's transforms dict by the id
    # shim.  The translation is a retraction only with respect to ONE dimension; the same dict used for a cube with other
    # sub-variables would find keys already rewritten to foreign aliases and drop them.  The shim rewrites a copy.
}


def run(ctx: Ctx):
    ctx.explanation = (
        "EFFECTS: complete inventory of writes (stores, augmented assignments, del, mutating method calls, out= arguments) "
        "with a freshness classification of the written object; every write to an object not created by the writing "
        "function must be one of the 4 listed sites, each with its idempotence argument (the retraction property of the "
        "id translation is decided by DECTAB); descriptor discipline of lazyproperty; read-only raw arrays; no module "
        "state; one-shot iterators are not cached for several readers; the raw response argument is only read through "
        "the normaliser (JSON / dict / envelope equivalence); who may call the two response-editing methods."
    )
    ctx.not_decided = ["equality of two concrete evaluations under two read schedules"]
    write_inventory(ctx)
    uninitialised_buffers(ctx)
    idempotence(ctx)
    descriptor(ctx)
    raw_arrays(ctx)
    module_state(ctx)
    memoisation(ctx)
    written_keys_not_read_back(ctx)
    iterators(ctx)
    raw_argument(ctx)
    who_may_call(ctx)
    from .common import generic_lints

    generic_lints(ctx)
    from .common import lazyproperty_call_form

    lazyproperty_call_form(ctx)
    from .common import set_order_lint

    set_order_lint(ctx)


def write_inventory(ctx: Ctx):
    sites = inventory(ctx.repo)
    ctx.count("write sites in the package", len(sites))
    seen = set()
    for w in sites:
        if w.cls in ("Fresh", "Self"):
            continue
        seen.add(w.class_key)
        if w.class_key in ACCEPTED_WRITES:
            ctx.held("write-inventory", w.key, f"{w.cls}: listed site {w.class_key}", ACCEPTED_WRITES[w.class_key])
        else:
            ctx.violated(
                "write-inventory",
                w.key,
                f"write to a {w.cls} object (root `{w.root}`) at line {w.lineno}",
                "writes only to objects created in the writing function, or one of the listed idempotent sites",
                "a write to a cached value or to a caller-owned dictionary makes results depend on which properties were read before / on whether the argument objects were used before",
            )
    ctx.count("non-fresh write sites", len(seen))
    missing = sorted(set(ACCEPTED_WRITES) - seen)
    for k in missing:
        ctx.note(f"listed write site no longer present: {k}")
    ctx.require_min("write sites in the package", 120)
    # positive control: the classifier must still recognise the known caller-owned writes
    ctx.require_min("non-fresh write sites", 4)
    # positive control of the Fresh class: the NaN stores of population_proportions go to a freshly assembled array
    fresh_stores = [w for w in sites if w.cls == "Fresh" and w.kind == "store" and w.member.cls.name in ("_Slice", "_Strand")]
    ctx.count("stores into freshly assembled arrays (_Slice/_Strand)", len(fresh_stores))
    ctx.require_min("stores into freshly assembled arrays (_Slice/_Strand)", 3)


def idempotence(ctx: Ctx):
    # translate_element_id is a retraction on its own range: T(T(x)) == T(x), T(None) is None
    ci = ctx.repo.cls("dimension.py", "_ElementIdShim")
    body = SUMMARIZER.summarize(ctx.repo.lookup(ci, "translate_element_id").node)
    from ..dectab import DTop, Raises

    bad = []
    n = 0
    for with_ins in (False, True):
        model = c19._model(with_ins)
        inputs = [None, "nope", 99, -1]
        for k in range(len(model["items"])):
            inputs += [sp for _k, sp in c19._spellings(model, k)]
        for x in inputs:
            try:
                y = c19._eval_translate(ctx, body, model, x, with_ins)
                z = c19._eval_translate(ctx, body, model, y, with_ins)
            except Raises as r:
                bad.append(f"T({x!r}) or T(T(.)) raises {r.etype}")
                continue
            except DTop as t:
                ctx.undecided("idempotence.retraction", "dimension.py::_ElementIdShim.translate_element_id", "DECTAB: " + str(t), "")
                return
            n += 1
            if z != y:
                bad.append(f"T({x!r}) = {y!r} but T(T(.)) = {z!r}")
    ctx.count("retraction cases", n)
    ctx.ob("idempotence.retraction", "dimension.py::_ElementIdShim.translate_element_id", bad or f"{n} cases: T(T(x)) == T(x), nothing raises", "re-shimming an already shimmed transforms dict is a fixed point", not bad, "the library rewrites the caller's transforms in place; a second Cube built from the same dict must see the same ids")
    e = expand(ctx.repo, ci, "_subvar_aliases", stop=lambda m: True)
    ok = "subvar_alias" not in u(e)
    ctx.ob("idempotence.added-key", "dimension.py::_ElementIdShim._subvar_aliases", ok, True, ok, "the value written under 'subvar_alias' is computed without reading 'subvar_alias'")
    for member in ("shimmed_dimension_dict", "shimmed_dimension_transforms_dict"):
        m = ctx.repo.lookup(ci, member)
        rets = [n.value for n in ast.walk(m.node) if isinstance(n, ast.Return)]
        none_rets = [r for r in rets if r is None or (isinstance(r, ast.Constant) and r.value is None)]
        ctx.ob("idempotence.cached", f"dimension.py::_ElementIdShim.{member}", f"{len(rets)} returns, {len(none_rets)} of them None", "no path returns None", not none_rets and bool(rets),
               "a mutating lazyproperty returns a (non-None) object on every path, so it is evaluated once per instance (lazyproperty re-evaluates a None)")
    # augment_response: the writes falsify the guard (whatever the temporaries are called)
    cube = ctx.repo.cls("cube.py", "Cube")
    m = ctx.repo.lookup(cube, "augment_response")
    res = resolver(m.node)
    where = "cube.py::Cube.augment_response"
    import re

    CUBC = "self._cube_response['result']['counts']"
    SUMC = re.compile(r"summary_cube_resp\)?(\._cube_response)?\['result'\]\['counts'\]")
    guard_ok = None
    for n in ast.walk(m.node):
        if isinstance(n, ast.If):
            for a in atoms(n.test):
                for v in res(a):
                    t = u(v)
                    if isinstance(v, ast.Compare) and isinstance(v.ops[0], ast.NotEq) and t.count("len(") == 2 and CUBC in t and SUMC.search(t):
                        guard_ok = True
    store_ok = None
    for n in ast.walk(m.node):
        if isinstance(n, ast.Assign):
            for t in n.targets:
                if isinstance(t, ast.Subscript) and any(u(x) == CUBC for x in res(t)):
                    vals = [u(x) for x in res(n.value)]
                    store_ok = any(v.startswith("[0] * len(") and SUMC.search(v) for v in vals)
                    if not store_ok:
                        # the stored list is built by a LOCAL helper (`augmented(counts)`): the list it fills and returns is
                        # created as [0] * <something that resolves to len(summary counts)>
                        for fn in (x for x in ast.walk(m.node) if isinstance(x, ast.FunctionDef) and x is not m.node):
                            if not any(v.startswith(fn.name + "(") for v in vals):
                                continue
                            for a_ in ast.walk(fn):
                                if isinstance(a_, ast.Assign) and isinstance(a_.value, ast.BinOp) and isinstance(a_.value.op, ast.Mult) and u(a_.value.left) == "[0]":
                                    if any(u(x).startswith("len(") and SUMC.search(u(x)) for x in res(a_.value.right)):
                                        store_ok = True
                    if not store_ok:
                        ctx.undecided("idempotence.augment", where + " [counts store]", vals[:2], "[0] * len(<summary counts>)")
    from ..effects import inventory as _inv

    owned_writes = [w for w in _inv(ctx.repo) if w.member.cls.name == "Cube" and w.member.name == "augment_response" and w.cls in ("Owned", "Shared")]
    if store_ok is None and not owned_writes:
        ctx.held("idempotence.augment", where, "the caller's response is not written at all: the padded cube gets a response of its own", "no edit, nothing to be idempotent")
    elif guard_ok and store_ok:
        ctx.held("idempotence.augment", where, "guard len(cube counts) != len(summary counts); the edit stores counts of the summary's length", "after the edit the guard is false on any later call")
    elif store_ok is None or guard_ok is None:
        ctx.undecided("idempotence.augment", where, f"guard found={guard_ok} store found={store_ok}", "guard compares the lengths the edit equalises")


def descriptor(ctx: Ctx):
    lp = ctx.repo.cls("util.py", "lazyproperty")
    m = ctx.repo.lookup(lp, "__set__")
    body = [s for s in m.node.body if not (isinstance(s, ast.Expr) and isinstance(s.value, ast.Constant))]
    ok = len(body) == 1 and isinstance(body[0], ast.Raise) and u(body[0].exc).startswith("AttributeError(")
    ctx.ob("descriptor", "util.py::lazyproperty.__set__", [ast.unparse(s) for s in body], "raise AttributeError unconditionally", ok, "a lazyproperty cannot be assigned: the cached value is immutable")
    g = ctx.repo.lookup(lp, "__get__")
    res = resolver(g.node, multi=True)
    CACHE = ["obj.__dict__[self.__name__]", "obj.__dict__.get(self.__name__)"]
    FGET = "self._fget(obj)"
    stores = []
    for n in ast.walk(g.node):
        if isinstance(n, ast.Assign):
            for t in n.targets:
                if isinstance(t, ast.Subscript):
                    stores.append((t, n.value))
    where = "util.py::lazyproperty.__get__"
    ok_store = None
    for t, v in stores:
        tt = [u(x) for x in res(t)]
        vv = [u(x) for x in res(v)]
        if any(x == CACHE[0] for x in tt):
            ok_store = FGET in vv and all(x in CACHE + [FGET] for x in vv)
            if not ok_store:
                ctx.violated("descriptor", where + " [cache store]", vv, FGET, "the value stored under the wrapped name is the computed value")
        else:
            ctx.undecided("descriptor", where + f" [store {u(t)[:50]}]", "a store other than the cache store", CACHE[0])
    rets = []
    for n in ast.walk(g.node):
        if isinstance(n, ast.Return) and n.value is not None:
            rets += [u(x) for x in res(n.value)]
    other = sorted(set(r for r in rets if r not in CACHE + [FGET, "self"]))
    if ok_store is None:
        ctx.undecided("descriptor", where, "no store into obj.__dict__[self.__name__] found", "computed once, stored in the instance __dict__")
    elif ok_store and not other:
        ctx.held("descriptor", where, f"stores {FGET} under obj.__dict__[self.__name__]; returns {sorted(set(rets))}", "computed once, stored in the instance __dict__ under the wrapped name, returned thereafter")
    elif ok_store:
        ctx.undecided("descriptor", where, f"returns {other}", "returns the cached or the freshly computed value")
    # nobody else touches __dict__, setattr, delattr
    offenders = []
    for m in ctx.repo.all_members():
        if m.cls.name == "lazyproperty":
            continue
        for n in ast.walk(m.node):
            if isinstance(n, ast.Attribute) and n.attr == "__dict__":
                offenders.append(f"{m.qual}: __dict__")
            if isinstance(n, ast.Call) and u(n.func) in ("setattr", "delattr", "object.__setattr__"):
                offenders.append(f"{m.qual}: {u(n.func)}")
    ctx.ob("descriptor.exclusive", "package", offenders or "no other code touches __dict__ / setattr / delattr", "only the descriptor manages the cache", not offenders)
    # attribute stores on self outside __init__ (would bypass the cache discipline)
    stores = []
    for m in ctx.repo.all_members():
        if m.name == "__init__":
            continue
        for n in ast.walk(m.node):
            if isinstance(n, (ast.Assign, ast.AugAssign)):
                targets = n.targets if isinstance(n, ast.Assign) else [n.target]
                for t in targets:
                    if isinstance(t, ast.Attribute) and isinstance(t.value, ast.Name) and t.value.id == "self":
                        stores.append(f"{m.qual}: self.{t.attr}")
    ctx.ob("descriptor.no-late-fields", "package", stores or "no `self.x = ...` outside __init__", "instance state is fixed at construction", not stores)


def raw_arrays(ctx: Ctx):
    bm = ctx.repo.cls("cube.py", "_BaseMeasure")
    m = ctx.repo.lookup(bm, "raw_cube_array")
    where = "cube.py::_BaseMeasure.raw_cube_array"
    # names flagged read-only (either numpy spelling), in statement order
    flagged: Dict[str, int] = {}
    for n in ast.walk(m.node):
        if isinstance(n, ast.Assign) and len(n.targets) == 1 and u(n.targets[0]).endswith(".flags.writeable") and u(n.value) == "False":
            root = n.targets[0].value.value
            if isinstance(root, ast.Name):
                flagged[root.id] = n.lineno
        if isinstance(n, ast.Call) and isinstance(n.func, ast.Attribute) and n.func.attr == "setflags" and isinstance(n.func.value, ast.Name):
            if [k.arg for k in n.keywords] == ["write"] and u(n.keywords[0].value) == "False" and not n.args:
                flagged[n.func.value.id] = n.lineno
    res = resolver(m.node)
    bad, unknown, good = [], [], 0
    for r in ast.walk(m.node):
        if not (isinstance(r, ast.Return) and r.value is not None):
            continue
        if isinstance(r.value, ast.Constant) and r.value.value is None:
            continue
        if isinstance(r.value, ast.Name) and r.value.id in flagged and flagged[r.value.id] < r.lineno:
            good += 1
            continue
        vals = [u(x) for x in res(r.value)]
        if any(".reshape(" in v or "_flat_values" in v for v in vals):
            bad.append(f"line {r.lineno}: returns {vals[0][:60]} without the read-only flag")
        else:
            unknown.append(vals[0][:60])
    if bad:
        ctx.violated("read-only-raw", where, bad, "every array-returning path flags the array read-only first", "the cached raw tensor could be modified through a view handed out")
    elif good and not unknown:
        ctx.held("read-only-raw", where, f"{good} array-returning path(s), each returns a name flagged read-only before", "the only array-returning path sets the write flag to False first", "the cached raw tensor cannot be modified through any view handed out")
    else:
        ctx.undecided("read-only-raw", where, f"flagged={sorted(flagged)} other returns={unknown}", "every array-returning path flags the array read-only first")
    overriders = [c.name for c in bm.all_subclasses() if "raw_cube_array" in c.members]
    ctx.ob("read-only-raw.overrides", "cube.py::_BaseMeasure subclasses", overriders, "[]", not overriders, "no measure class bypasses the read-only base implementation")


def module_state(ctx: Ctx):
    bad = []
    for mod in ctx.repo.modules.values():
        module_names = set(mod.consts)
        for ci in mod.classes.values():
            for m in ci.members.values():
                for n in ast.walk(m.node):
                    if isinstance(n, (ast.Global, ast.Nonlocal)):
                        bad.append(f"{m.qual}: {type(n).__name__.lower()} {n.names}")
        for w in inventory_cache(ctx):
            if w.member.cls.module is mod and w.root in module_names and w.cls != "Fresh":
                bad.append(f"{w.key}: writes module-level `{w.root}`")
    ctx.ob("no-module-state", "package", sorted(set(bad)) or "no global/nonlocal statement, no write to a module-level object", "no state outlives an object", not bad)


_INV = {}


def inventory_cache(ctx: Ctx):
    if id(ctx) not in _INV:
        _INV.clear()
        _INV[id(ctx)] = inventory(ctx.repo)
    return _INV[id(ctx)]


def iterators(ctx: Ctx):
    """A lazyproperty whose value is a one-shot iterator may have exactly one reader, itself cached."""
    n = 0
    for m in ctx.repo.all_members():
        if m.kind != "lazyproperty":
            continue
        rets = [r.value for r in ast.walk(m.node) if isinstance(r, ast.Return) and r.value is not None]
        is_gen = any(isinstance(r, ast.GeneratorExp) or (isinstance(r, ast.Call) and u(r.func) in ("iter", "zip", "map", "filter", "enumerate", "reversed")) for r in rets)
        nested = {id(y) for f in ast.walk(m.node) if isinstance(f, ast.FunctionDef) and f is not m.node for y in ast.walk(f)}
        has_yield = any(isinstance(x, (ast.Yield, ast.YieldFrom)) and id(x) not in nested for x in ast.walk(m.node))
        if not (is_gen or has_yield):
            continue
        n += 1
        readers = []
        for other in ctx.repo.all_members():
            if other is m:
                continue
            if not (other.cls is m.cls or m.cls in other.cls.mro or other.cls in m.cls.mro):
                continue
            cnt = sum(1 for x in ast.walk(other.node) if isinstance(x, ast.Attribute) and x.attr == m.name and isinstance(x.value, ast.Name) and x.value.id == "self")
            if cnt:
                readers.append((other.qual, other.kind, cnt))
        ok = len(readers) == 1 and readers[0][1] == "lazyproperty" and readers[0][2] == 1
        ctx.ob("one-shot-iterators", m.qual, readers, "exactly one read, from a cached property", ok, "a cached generator is exhausted by its first consumer; a second reader would see it empty")
    ctx.count("iterator-valued lazyproperties", n)
    ctx.require_min("iterator-valued lazyproperties", 1)


def raw_argument(ctx: Ctx):
    cube = ctx.repo.cls("cube.py", "Cube")
    readers = []
    for m in ctx.repo.all_members():
        for n in ast.walk(m.node):
            if isinstance(n, ast.Attribute) and n.attr == "_cube_response_arg" and isinstance(n.ctx, ast.Load):
                readers.append(m.qual)
    ok = set(readers) <= {"cube.py::Cube._cube_response"} and readers
    ctx.ob("raw-response", "cube.py::Cube._cube_response_arg", sorted(set(readers)), "['cube.py::Cube._cube_response']", bool(ok), "the response argument (JSON text, dict or {'value': ...} envelope) is only read by the normaliser")
    e = expand(ctx.repo, cube, "_cube_response", stop=lambda m: True)
    want = (
        "__try__((self._cube_response_arg if isinstance(self._cube_response_arg, dict) else json.loads(self._cube_response_arg)).get('value', "
        "self._cube_response_arg if isinstance(self._cube_response_arg, dict) else json.loads(self._cube_response_arg)), "
        "(TypeError, __raise__(TypeError(f'Unsupported type <{type(self._cube_response_arg).__name__}> provided. Cube response must be JSON (str) or dict.'))))"
    )
    ctx.check_expr("raw-response.normaliser", "cube.py::Cube._cube_response", e, want, "dict as is, text parsed as JSON, then the 'value' envelope unwrapped")
    # CubeSet: raw responses only go into Cube(...) (or a parameter that is normalised before use)
    cs = ctx.repo.cls("cube.py", "CubeSet")
    bad = []
    n_uses = 0
    for m in cs.members.values():
        parents = {}
        for x in ast.walk(m.node):
            for c in ast.iter_child_nodes(x):
                parents[id(c)] = x
        raw_names = set()
        for x in ast.walk(m.node):
            if isinstance(x, ast.For) and isinstance(x.iter, ast.Call) and u(x.iter.func) == "enumerate" and x.iter.args and u(x.iter.args[0]) == "self._cube_responses":
                if isinstance(x.target, ast.Tuple) and isinstance(x.target.elts[1], ast.Name):
                    raw_names.add(x.target.elts[1].id)
        for x in ast.walk(m.node):
            is_raw = (isinstance(x, ast.Attribute) and u(x) == "self._cube_responses" and isinstance(x.ctx, ast.Load)) or (isinstance(x, ast.Name) and x.id in raw_names and isinstance(x.ctx, ast.Load))
            if not is_raw:
                continue
            n_uses += 1
            p = parents.get(id(x))
            if isinstance(p, ast.Subscript) and p.value is x:
                x, p = p, parents.get(id(p))
            if isinstance(p, ast.keyword):  # handed over as a keyword argument: Cube(response=cube_response)
                p = parents.get(id(p))
            if isinstance(p, ast.Call) and (u(p.func) in ("len", "enumerate", "Cube") or u(p.func).endswith(".augment_response")):
                continue
            bad.append(f"{m.qual}: {u(p)[:80] if p is not None else u(x)}")
    ctx.ob("raw-response.cubeset", "cube.py::CubeSet", bad or f"{n_uses} uses: len / enumerate / Cube(...) / augment_response(...)", "raw responses are only counted, enumerated, or handed to Cube(...)", not bad)
    m = ctx.repo.lookup(cube, "augment_response")
    body = SUMMARIZER.summarize(m.node)
    raw_subs = [u(n)[:60] for n in ast.walk(body) if isinstance(n, ast.Subscript) and isinstance(n.value, ast.Name) and n.value.id == "summary_cube_resp"]
    _augment_normaliser_table(ctx, m)
    ctx.ob("raw-response.augment", "cube.py::Cube.augment_response", raw_subs or "summary response is normalised (Cube(...)._cube_response) before any subscript", "the summary response handed over by CubeSet is raw: it must be normalised before it is subscripted", not raw_subs, "JSON text, dict and {'value': ...} envelope must give the same results")


def who_may_call(ctx: Ctx):
    callers = {"inflate": [], "augment_response": []}
    for m in ctx.repo.all_members():
        for n in ast.walk(m.node):
            if isinstance(n, ast.Call) and isinstance(n.func, ast.Attribute) and n.func.attr in callers:
                callers[n.func.attr].append(m.qual)
    for meth, cs in callers.items():
        ctx.ob("who-may-call", f"cube.py::Cube.{meth}", sorted(set(cs)), "['cube.py::CubeSet._cubes']", sorted(set(cs)) == ["cube.py::CubeSet._cubes"], "the response-editing methods are reachable only from the guarded site in CubeSet._cubes")
    cs_ = ctx.repo.cls("cube.py", "CubeSet")
    readers = []
    for m in ctx.repo.all_members():
        for n in ast.walk(m.node):
            if isinstance(n, ast.Attribute) and n.attr == "_is_numeric_measure" and isinstance(n.ctx, ast.Load):
                readers.append(m.qual)
    ctx.ob("who-may-call.guard-reader", "cube.py::CubeSet._is_numeric_measure", sorted(set(readers)), "['cube.py::CubeSet._cubes']", sorted(set(readers)) == ["cube.py::CubeSet._cubes"], "the guard is evaluated (and cached) by the only site that inflates, so guard evaluation and insertion cannot be interleaved by another read")


# --------------------------------------------------------------------------- no value shared through a process-wide cache
_MEMO_DECORATORS = ("lru_cache", "cache", "memoize", "memoized", "cached")  # NOT lazyproperty / cached_property: those cache per object
_MEMO_CONTROL = """
import functools
_SEEN = {}

@functools.lru_cache(maxsize=64)
def _parsed_json(text):
    return json.loads(text)

@functools.lru_cache(maxsize=None)
def _kind(name):
    return (name, 1)

def remember(k, v):
    _SEEN[k] = v
    _SEEN.setdefault(k, v)
"""


def _immutable_expr(e: ast.expr, params=frozenset()) -> bool:
    """`params`: the memoised function's own parameters - hashable by construction of the cache key."""
    if isinstance(e, ast.Constant):
        return True
    if isinstance(e, ast.Name) and e.id in params:
        return True
    if isinstance(e, ast.Tuple):
        return all(_immutable_expr(x, params) for x in e.elts)
    if isinstance(e, ast.Call) and isinstance(e.func, ast.Name) and e.func.id in ("str", "int", "float", "bool", "frozenset", "len", "hash"):
        return True
    if isinstance(e, (ast.Compare, ast.BoolOp)) or (isinstance(e, ast.UnaryOp) and isinstance(e.op, ast.Not)):
        return True
    if isinstance(e, ast.IfExp):
        return _immutable_expr(e.body, params) and _immutable_expr(e.orelse, params)
    if isinstance(e, ast.JoinedStr):
        return True
    return isinstance(e, ast.Name) and e.id in ("None", "True", "False")


def _memo_scan(tree: ast.Module):
    """-> (functions seen, [(qualname, decorator, [mutable return texts])], [(qualname, module-level name written)])"""
    module_mutables = set()
    for n in tree.body:
        if isinstance(n, (ast.Assign, ast.AnnAssign)) and n.value is not None:
            v = n.value
            mutable = isinstance(v, (ast.Dict, ast.List, ast.Set, ast.DictComp, ast.ListComp, ast.SetComp)) or (
                isinstance(v, ast.Call) and u(v.func).split(".")[-1] in ("dict", "list", "set", "defaultdict", "OrderedDict", "Counter", "deque", "WeakValueDictionary"))
            if mutable:
                for t in (n.targets if isinstance(n, ast.Assign) else [n.target]):
                    if isinstance(t, ast.Name):
                        module_mutables.add(t.id)
    n_fn, memo, writes = 0, [], []

    def visit(body, prefix):
        nonlocal n_fn
        for node in body:
            if isinstance(node, ast.ClassDef):
                visit(node.body, prefix + node.name + ".")
            elif isinstance(node, (ast.FunctionDef, ast.AsyncFunctionDef)):
                n_fn += 1
                q = prefix + node.name
                for d in node.decorator_list:
                    head = d.func if isinstance(d, ast.Call) else d
                    if u(head).split(".")[-1] in _MEMO_DECORATORS:
                        rets = [r.value for r in ast.walk(node) if isinstance(r, ast.Return) and r.value is not None]
                        params = frozenset(a.arg for a in node.args.args + node.args.kwonlyargs)
                        memo.append((q, u(head), [u(r)[:80] for r in rets if not _immutable_expr(r, params)]))
                local = {a.arg for a in node.args.args + node.args.kwonlyargs} | {t.id for x in ast.walk(node) if isinstance(x, ast.Assign) for t in x.targets if isinstance(t, ast.Name)}
                for x in ast.walk(node):
                    root = None
                    if isinstance(x, (ast.Assign, ast.AugAssign)):
                        for t in (x.targets if isinstance(x, ast.Assign) else [x.target]):
                            if isinstance(t, (ast.Subscript, ast.Attribute)):
                                b = t
                                while isinstance(b, (ast.Subscript, ast.Attribute)):
                                    b = b.value
                                if isinstance(b, ast.Name):
                                    root = b.id
                    elif isinstance(x, ast.Call) and isinstance(x.func, ast.Attribute) and x.func.attr in ("append", "extend", "update", "setdefault", "add", "pop", "popitem", "clear", "insert", "remove", "discard") and isinstance(x.func.value, ast.Name):
                        root = x.func.value.id
                    elif isinstance(x, ast.Delete):
                        for t in x.targets:
                            if isinstance(t, ast.Subscript) and isinstance(t.value, ast.Name):
                                root = t.value.id
                    if root in module_mutables and root not in local:
                        writes.append((q, root))
                visit(node.body, q + ".")

    visit(tree.body, "")
    return n_fn, memo, sorted(set(writes))


def memoisation(ctx: Ctx):
    """Caching is per object (lazyproperty) everywhere in this package.  A PROCESS-WIDE cache (functools.lru_cache,
    a module-level dict written by a function) hands the same object to every caller with equal arguments; since the
    library rewrites response / transform dictionaries in place (write inventory above), whatever one cube did to the
    object is seen by the next: results then depend on the access history.  Allowed: a memoised function all of whose
    returns are immutable."""
    from ..loader import AnalysisError

    _n, memo, writes = _memo_scan(ast.parse(_MEMO_CONTROL))
    if [m[0] for m in memo if m[2]] != ["_parsed_json"] or [m[0] for m in memo if not m[2]] != ["_kind"] or writes != [("remember", "_SEEN")]:
        raise AnalysisError("memoisation rule: the positive control is no longer recognised")
    n_fn = 0
    bad = False
    for mod in ctx.repo.modules.values():
        short = mod.path.split("cr/cube/")[-1]
        n, memo, writes = _memo_scan(mod.tree)
        n_fn += n
        for q, deco, mutable in memo:
            if mutable:
                bad = True
                ctx.violated("no-shared-cache", f"{short}::{q} [@{deco}]", mutable, "a per-object cache (lazyproperty) or an immutable result",
                             "every caller with an equal argument receives the SAME mutable object; the library edits such objects in place, so a result depends on what was evaluated before")
            else:
                ctx.held("no-shared-cache", f"{short}::{q} [@{deco}]", "all returns immutable", "")
        for q, root in writes:
            bad = True
            ctx.violated("no-shared-cache", f"{short}::{q} [module-level `{root}`]", f"writes module-level container `{root}`", "no state outlives an object")
    ctx.count("functions scanned for process-wide caches", n_fn)
    ctx.require_min("functions scanned for process-wide caches", 900)
    if not bad:
        ctx.held("no-shared-cache", "package: every function", "no memoising decorator with a mutable result, no function writes a module-level container", "", "positive control: 3 of 3 recognised")


def written_keys_not_read_back(ctx: Ctx):
    """`subvar_alias` and `datetime_value` are keys the shim WRITES into the caller's dimension dict, in place, when (and
    only when) `shimmed_dimension_dict` is evaluated.  Code of the shim that READS them from `self._dimension_dict` - the
    same caller-owned object - sees them or not depending on whether that lazy step (or an earlier cube on the same
    response) has run: the result depends on the read schedule.  They may be read only from the shimmed copy, i.e.
    outside the shim (`_build_element_id` gets the shimmed dict by construction)."""
    ci = ctx.repo.cls("dimension.py", "_ElementIdShim")
    KEYS = ("subvar_alias", "datetime_value")
    n, bad = 0, []
    for m in ci.members.values():
        for node in ast.walk(m.node):
            key = None
            if isinstance(node, ast.Subscript) and isinstance(node.ctx, ast.Load) and isinstance(node.slice, ast.Constant) and node.slice.value in KEYS:
                key = node.slice.value
            elif isinstance(node, ast.Call) and isinstance(node.func, ast.Attribute) and node.func.attr == "get" and node.args and isinstance(node.args[0], ast.Constant) and node.args[0].value in KEYS:
                key = node.args[0].value
            elif isinstance(node, ast.Compare) and isinstance(node.left, ast.Constant) and node.left.value in KEYS and any(isinstance(o, (ast.In, ast.NotIn)) for o in node.ops):
                key = node.left.value
            if key is not None:
                n += 1
                bad.append(f"{m.name}: reads '{key}' ({u(node)[:50]})")
    ctx.count("reads of library-written keys inside the shim", n)
    where = "dimension.py::_ElementIdShim"
    if bad:
        ctx.violated("written-keys-not-read-back", where, bad, "the shim never reads back the keys it writes into the caller's dict", "what is read depends on whether shimmed_dimension_dict (or an earlier cube built from the same response) has already written the key")
    else:
        ctx.held("written-keys-not-read-back", where, "no read of 'subvar_alias' / 'datetime_value' inside the shim", "")


def uninitialised_buffers(ctx: Ctx):
    """`np.empty` / `np.empty_like` hand out RECYCLED memory.  Filled completely it is as good as any array; used as the
    `out=` of a ufunc under a `where=` mask the unselected cells keep whatever the allocator's last tenant left there: the
    value reported depends on which arrays were freed before - on the access history, on sibling cubes."""
    from ..stmts import resolver

    ctl = ast.parse("def f(self, margin):\n    bases = self.table_weighted_bases\n    out = np.empty_like(margin, dtype=np.float64)\n    np.divide(margin, bases, out=out, where=bases != 0)\n    return out\ndef ok(self, margin):\n    bases = self.table_weighted_bases\n    return np.divide(margin, bases, out=np.full(margin.shape, np.nan), where=bases != 0)\n")

    def hits_in(fn):
        res = resolver(fn, multi=True)
        out = []
        for c in ast.walk(fn):
            if isinstance(c, ast.Call) and any(k.arg == "where" for k in c.keywords):
                for k in c.keywords:
                    if k.arg == "out":
                        for v in res(k.value):
                            if isinstance(v, ast.Call) and u(v.func) in ("np.empty", "np.empty_like", "np.ndarray"):
                                out.append(u(c)[:100])
                                break
        return out

    if len(hits_in(ctl.body[0])) != 1 or hits_in(ctl.body[1]):
        from ..loader import AnalysisError

        raise AnalysisError("uninitialised-buffers: the controls are no longer recognised")
    n, hits = 0, []
    for m in ctx.repo.all_members():
        n += 1
        for t in hits_in(m.node):
            hits.append((f"{m.cls.module.short}::{m.cls.name}.{m.name}", t))
    ctx.count("members scanned for masked writes into uninitialised buffers", n)
    for where, t in hits:
        ctx.violated("uninitialised-memory", where, t, "a buffer initialised with the value the unselected cells are to have (np.full(.., np.nan), np.zeros)", "cells outside the mask report whatever the recycled memory held: different values for different access schedules")
    if not hits:
        ctx.held("uninitialised-memory", "package: every ufunc call with out= and where=", f"{n} members, no masked write into an np.empty buffer", "", "controls recognised")


def _augment_normaliser_table(ctx: Ctx, m):
    """How `augment_response` turns the raw summary response into a dict: through the shared normaliser
    (`Cube(x)._cube_response`), or by an expression of its own - which is then evaluated over the four forms a response
    arrives in (dict, {'value': ..} envelope, JSON text, JSON text of an envelope): each must give the bare response."""
    import json as _json

    from ..dectab import DTop, ModelInterp, Raises

    where = "cube.py::Cube.augment_response [normalisation of the summary response]"
    param = next((p_ for p_ in m.params if p_ not in ("self", "cls")), None)
    rebinds = [n for n in ast.walk(m.node) if isinstance(n, ast.Assign) and len(n.targets) == 1 and isinstance(n.targets[0], ast.Name) and n.targets[0].id == param]
    if param is None or len(rebinds) != 1:
        ctx.undecided("raw-response.augment.forms", where, f"{len(rebinds)} re-bindings of the parameter", "one normalising re-binding")
        return
    e = rebinds[0].value
    if u(e) == f"Cube({param})._cube_response":
        ctx.held("raw-response.augment.forms", where, u(e), "the shared normaliser")
        return
    bare = {"result": {"counts": [1, 2]}}
    forms = {"dict": bare, "envelope": {"value": bare}, "JSON text": _json.dumps(bare), "JSON text of an envelope": _json.dumps({"value": bare})}
    bad = []
    for label, raw in forms.items():
        class _I(ModelInterp):
            def _call(self, c, it):
                if u(c.func) == "json.loads" and len(c.args) == 1:
                    v = self.ev(c.args[0])
                    if not isinstance(v, str):
                        raise Raises("TypeError", "json.loads of a non-string")
                    return _json.loads(v)
                return super()._call(c, it)

        try:
            got = _I(lambda x: (_ for _ in ()).throw(KeyError()), {param: raw}).ev(e)
        except Raises as r:
            bad.append(f"{label}: raises {r.etype}")
            continue
        except DTop as t_:
            ctx.undecided("raw-response.augment.forms", where, "DECTAB: " + str(t_), "each form of the response gives the bare dict")
            return
        if got != bare:
            bad.append(f"{label}: not unwrapped / parsed ({str(got)[:50]})")
    ctx.ob("raw-response.augment.forms", where, bad or "4 forms give the bare response", "dict, envelope, JSON text and JSON text of an envelope all give the bare response", not bad, "the forms of one response must give the same results; no read fails")
