"""C09 - visibility: hidden iff asked, pruned iff empty by unweighted counts."""
from __future__ import annotations

import ast
from typing import List, Optional

from ..axes import source
from ..core import Ctx
from ..loader import AnalysisError
from ..specs import layout as L
from ..symex import SUMMARIZER, expand, u
from . import layouts as LY
from .common import data_labels, measure_blocks_reads, slice_measures_obj, strand_measures_obj

PAIRS = [(a, b) for a in L.KINDS for b in L.KINDS]
MA = "matrix/assembler.py"


def run(ctx: Ctx):
    ctx.explanation = (
        "FLOW: pruning masks derive from unweighted counts only; AXIS: support of the pruning base of all 9+3 count "
        "classes against the emptiness rule (incl. the MR x MR exception); symbolic comparison of the hidden-set "
        "formula, the subtotal-pruning rule and its row/column mirror, and presence of the hidden filter in every "
        "display order."
    )
    ctx.assumptions = ["counts are non-negative (a sum of bases is zero exactly when every base is)"]
    provenance(ctx)
    # "emptiness is decided from unweighted counts only": what `Cube.unweighted_counts` hands out is never a weighted measure,
    # whichever helper resolves the valid-counts cascade (decision table over the count measures present)
    from . import c16

    c16.count_cascade(ctx, "provenance.count-source", "unweighted_counts", ["unweighted_valid_counts", "unweighted_counts"],
                      "unweighted valid counts, else the response's unweighted counts (never a weighted measure)",
                      "a vector of zero-weight respondents has a positive unweighted count: it is not empty")
    layouts(ctx)
    hidden_set(ctx)
    subtotal_rule(ctx)
    subtotal_rule_dependence(ctx)
    filters(ctx)
    from .common import order_index_sign_tests

    order_index_sign_tests(ctx, "order-index-sign")
    from .common import generic_lints

    generic_lints(ctx)
    from .common import shim_leaves_transforms_alone

    shim_leaves_transforms_alone(ctx)
    from .common import subtotal_free_types

    subtotal_free_types(ctx)
    from .common import dependency_footprints

    dependency_footprints(ctx)
    from .common import id_truthiness

    id_truthiness(ctx)
    element_transform_lookup(ctx)
    insertion_hide_survives(ctx)
    stale_reference_table(ctx)
    from .common import value_any_lint

    value_any_lint(ctx)
    empties_from_pruning_base(ctx)
    from .common import transform_pairing_table

    transform_pairing_table(ctx)


def provenance(ctx: Ctx):
    som = slice_measures_obj(ctx)
    for name in ("rows_pruning_mask", "columns_pruning_mask"):
        labels = data_labels(measure_blocks_reads(ctx, som, name))
        ctx.ob("provenance", f"matrix/measure.py::SecondOrderMeasures.{name}", sorted(labels), "['U']", (labels == {"U"}) if labels else None, "emptiness is decided from unweighted counts only (weights play no part)")
    sm = strand_measures_obj(ctx)
    labels = data_labels(measure_blocks_reads(ctx, sm, "pruning_base"))
    ctx.ob("provenance", "stripe/measure.py::StripeMeasures.pruning_base", sorted(labels), "['U']", (labels == {"U"}) if labels else None)
    # the masks read by the order helpers are those
    for cname, short in (("_BaseOrderHelper", MA),):
        ci = ctx.repo.cls(short, cname)
        e = expand(ctx.repo, ci, "_empty_row_idxs")
        ctx.check_expr("empties", f"{short}::{cname}._empty_row_idxs", e, "tuple(np.where(self._second_order_measures.rows_pruning_mask)[0])")
        e = expand(ctx.repo, ci, "_empty_column_idxs")
        ctx.check_expr("empties", f"{short}::{cname}._empty_column_idxs", e, "tuple(np.where(self._second_order_measures.columns_pruning_mask)[0])")
    ci = ctx.repo.cls("stripe/assembler.py", "_BaseOrderHelper")
    e = expand(ctx.repo, ci, "_empty_row_idxs")
    ctx.check_expr("empties", "stripe/assembler.py::_BaseOrderHelper._empty_row_idxs", e, "tuple((i for i, N in enumerate(self._measures.pruning_base) if N == 0))")


def layouts(ctx: Ctx):
    disp = LY.factory_dispatch(ctx, LY.MCM, "_BaseCubeCounts", PAIRS, lambda t: t == "cube.dimension_types[-2:]")
    for pair in PAIRS:
        picked = disp.get(pair)
        if picked is None:
            ctx.undecided("dispatch", f"{LY.MCM}::_BaseCubeCounts.factory[{pair}]", "no class derived for this kind (the dispatch is not in a form the table understands)", "total dispatch")
            continue
        ci, _ = picked
        leaves = {"self._counts": source("_counts", L.src_roles(*pair))}
        why = f"kind pair {pair}: a vector is empty iff nobody is eligible for it (support of the unweighted base); MR item crossed with MR counts selected only"
        LY.check_layout(ctx, "pruning-base", ci, "_rows_pruning_base", leaves, L.rows_pruning_base(*pair), why, support_only=True)
        LY.check_layout(ctx, "pruning-base", ci, "_columns_pruning_base", leaves, L.columns_pruning_base(*pair), why, support_only=True)
        ctx.count("pruning-base obligations", 2)
        for d in ("rows", "columns"):
            e = expand(ctx.repo, ci, f"{d}_pruning_mask", stop=lambda m: m.name.endswith("_pruning_base"))
            ctx.check_expr("pruning-mask", f"{LY.MCM}::{ci.name}.{d}_pruning_mask", e, f"self._{d}_pruning_base == 0", "empty = base equal to zero")
    ctx.require_min("pruning-base obligations", 18)
    sd = LY.factory_dispatch(ctx, LY.SCM, "_BaseCubeCounts", [("CAT",), ("MR",), ("NUM",)], lambda t: False)
    for (k,), picked in sd.items():
        if picked is None:
            continue
        ci, _ = picked
        kind = "ARR" if k == "NUM" else k
        LY.check_layout(ctx, "pruning-base", ci, "pruning_base", {"self._counts": source("_counts", L.stripe_roles(kind))}, L.stripe(kind, "pruning_base"), f"stripe kind {k}", support_only=True)


def hidden_set(ctx: Ctx):
    ci = ctx.repo.cls("collator.py", "_BaseCollator")
    e = expand(ctx.repo, ci, "_hidden_idxs", stop=lambda m: True)
    ctx.check_expr(
        "hidden-set",
        "collator.py::_BaseCollator._hidden_idxs",
        e,
        "frozenset((self._empty_idxs if self._dimension.prune else ()) + self._dimension.hidden_idxs)",
        "hidden = explicit hides + (empties only if pruning is enabled on the dimension)",
    )
    e = expand(ctx.repo, ci, "_hidden_idxs", stop=lambda m: True)
    guarded = any(isinstance(n, ast.IfExp) and u(n.test) == "self._dimension.prune" and "_empty_idxs" in u(n.body) and "_empty_idxs" not in u(n.orelse) for n in ast.walk(e))
    uses_empties = "_empty_idxs" in u(e)
    uses_hides = "self._dimension.hidden_idxs" in u(e)
    where = "collator.py::_BaseCollator._hidden_idxs [dependence]"
    if uses_empties and not guarded and "prune" not in u(e):
        ctx.violated("hidden-set.dependence", where, "empties are hidden regardless of the prune flag", "empties are hidden only if pruning is enabled on the dimension")
    elif not uses_hides:
        ctx.violated("hidden-set.dependence", where, "explicit hides do not enter the hidden set", "hidden = explicit hides + (empties if prune)")
    elif guarded:
        ctx.held("hidden-set.dependence", where, "empties enter only under `self._dimension.prune`; explicit hides always", "hidden = explicit hides + (empties if prune)")
    else:
        ctx.undecided("hidden-set.dependence", where, u(e)[:120], "empties guarded by the prune flag")
    dim = ctx.repo.cls("dimension.py", "Dimension")
    e = expand(ctx.repo, dim, "prune", stop=lambda m: True)
    ctx.check_expr("hidden-set", "dimension.py::Dimension.prune", e, "self._dimension_transforms_dict.get('prune') is True")
    e = expand(ctx.repo, dim, "hidden_idxs", stop=lambda m: True)
    ctx.check_expr("hidden-set", "dimension.py::Dimension.hidden_idxs", e, "tuple((idx for idx, element in enumerate(self.valid_elements) if element.is_hidden))")
    el = ctx.repo.cls("dimension.py", "Element")
    e = expand(ctx.repo, el, "is_hidden", stop=lambda m: True)
    ctx.check_expr("hidden-set", "dimension.py::Element.is_hidden", e, "{True: True, False: False, None: False}[self._element_transforms.hide]")
    et = ctx.repo.cls("dimension.py", "_ElementTransforms")
    e = expand(ctx.repo, et, "hide", stop=lambda m: True)
    ctx.check_expr(
        "hidden-set",
        "dimension.py::_ElementTransforms.hide",
        e,
        "True if self._element_transforms_dict.get('hide') is True else False if self._element_transforms_dict.get('hide') is False else None",
    )
    # hidden insertions are dropped when the subtotals are enumerated
    st = ctx.repo.cls("dimension.py", "_Subtotals")
    from ..stmts import collect_test_atoms, match_atom

    if ctx.repo.lookup(st, "_iter_valid_subtotal_dicts") is None:
        raise AnalysisError("_Subtotals._iter_valid_subtotal_dicts vanished")
    cands = collect_test_atoms(ctx.repo, st, "_iter_valid_subtotal_dicts")
    ok, why = match_atom(cands, "insertion_dict.get('hide') is True")
    ctx.ob("hidden-insertions", "dimension.py::_Subtotals._iter_valid_subtotal_dicts", [u(c)[:60] for c in cands][:8], "insertion_dict.get('hide') is True", ok, why or "an insertion flagged hidden is skipped")


def subtotal_rule(ctx: Ctx):
    row = ctx.repo.cls(MA, "_RowOrderHelper")
    col = ctx.repo.cls(MA, "_ColumnOrderHelper")
    stop = lambda m: m.name in ("_empty_column_idxs", "_empty_row_idxs", "_columns_dimension", "_rows_dimension")
    e = expand(ctx.repo, row, "_prune_subtotals", stop=stop)
    ctx.check_expr(
        "subtotal-pruning",
        f"{MA}::_RowOrderHelper._prune_subtotals",
        e,
        "len(self._empty_column_idxs) == len(self._columns_dimension.element_ids) if self._columns_dimension.prune else False",
        "row subtotals disappear only when pruning is enabled on the COLUMNS dimension and every column base vector is empty",
    )
    e = expand(ctx.repo, col, "_prune_subtotals", stop=stop)
    ctx.check_expr(
        "subtotal-pruning",
        f"{MA}::_ColumnOrderHelper._prune_subtotals",
        e,
        "len(self._empty_row_idxs) == len(self._rows_dimension.element_ids) if self._rows_dimension.prune else False",
        "mirror of the row rule",
    )
    base = ctx.repo.cls(MA, "_BaseOrderHelper")
    e = expand(ctx.repo, base, "_display_order", stop=lambda m: True)
    ctx.check_expr(
        "subtotal-pruning",
        f"{MA}::_BaseOrderHelper._display_order",
        e,
        [
            "np.array([idx for idx in self._order if not isinstance(idx, str) and idx >= 0], dtype=None if self._format == ORDER_FORMAT.BOGUS_IDS else int) "
            "if self._prune_subtotals else np.array(self._order, dtype=None if self._format == ORDER_FORMAT.BOGUS_IDS else int)",
            "np.array([idx for idx in self._order if idx >= 0], dtype=None if self._format == ORDER_FORMAT.BOGUS_IDS else int) "
            "if self._prune_subtotals else np.array(self._order, dtype=None if self._format == ORDER_FORMAT.BOGUS_IDS else int)",
        ],
        "subtotals (negative idx) are dropped exactly when the subtotal-pruning rule fires; base elements are never dropped here",
    )


def subtotal_rule_dependence(ctx: Ctx):
    """FLOW footprint of the subtotal-pruning decision: opposing prune flag, number of opposing elements and
    the opposing emptiness mask (unweighted counts) - explicit hides and the order play no part."""
    from ..flow import BOT
    from .common import slice_obj

    sl = slice_obj(ctx)
    dims = ctx.flow.member_val(sl, "_dimensions")
    som = ctx.flow.member_val(sl, "_measures")
    for cname in ("_RowOrderHelper", "_ColumnOrderHelper"):
        ci = ctx.repo.cls(MA, cname)
        obj = ctx.flow.construct(ci, [dims, som, BOT], {})
        reads = ctx.flow.member_val(obj, "_prune_subtotals").reads
        forbidden = sorted(r for r in reads if r in ("Dimension.hidden_idxs", "Element.is_hidden", "Dimension.order_spec") or r.startswith("_OrderSpec."))
        required = {"Dimension.prune", "Dimension.element_ids"}
        missing = sorted(required - set(reads))
        where = f"{MA}::{cname}._prune_subtotals [dependence]"
        if forbidden:
            ctx.violated("subtotal-pruning.dependence", where, f"depends on {forbidden}", "depends only on the opposing prune flag, the opposing element count and the opposing emptiness mask", "subtotals disappear only when pruning is enabled on the opposing dimension and every opposing base vector is EMPTY - a hidden but non-empty vector does not count as empty")
        elif missing and not reads:
            ctx.undecided("subtotal-pruning.dependence", where, "FLOW derives no reads at all for this member", "depends on the opposing prune flag and the opposing element count")
        elif missing:
            ctx.violated("subtotal-pruning.dependence", where, f"does not depend on {missing}", "depends on the opposing prune flag and the opposing element count")
        else:
            labels = sorted(data_labels(reads))
            ctx.ob("subtotal-pruning.dependence", where, f"reads prune flag, element ids, emptiness from {labels}", "... from ['U']", labels == ["U"], "emptiness of the opposing vectors is decided from unweighted counts")


def _hidden_cond(cond: ast.expr, targets=()) -> Optional[bool]:
    """`<the comprehension's own element> not in <a hidden set>` -> True; a membership filter on the element against a set
    this analysis cannot name -> None; anything else -> False.  The element may carry any name."""
    from ..exprdiff import canon

    c = canon(cond)
    if not (isinstance(c, ast.Compare) and len(c.ops) == 1 and isinstance(c.ops[0], ast.NotIn)):
        return False
    left_names = {n.id for n in ast.walk(c.left) if isinstance(n, ast.Name)}
    if targets and not (left_names & set(targets)):
        return False
    return True if "hidden" in u(c.comparators[0]) else None


def _unfiltered_sources(e: ast.expr, out: List[str]) -> Optional[bool]:
    """Must-pass-through on the value of a display order: does every source sequence reach the result through a
    `idx not in hidden` filter?  -> True (all filtered) / False (an unfiltered source, appended to `out`) / None
    (an expression form this analysis does not understand)."""
    if isinstance(e, (ast.ListComp, ast.GeneratorExp, ast.SetComp, ast.DictComp)):
        verdicts = [_hidden_cond(c, {n.id for n in ast.walk(g.target) if isinstance(n, ast.Name)}) for g in e.generators for c in g.ifs]
        if any(v is True for v in verdicts):
            return True
        if any(v is None for v in verdicts):
            return None
        if len(e.generators) != 1:
            return None
        return _unfiltered_sources(e.generators[0].iter, out)
    if isinstance(e, ast.Call):
        f = u(e.func)
        if f in ("tuple", "list", "sorted", "dict.fromkeys", "reversed", "iter", "frozenset", "set") and e.args:
            return _unfiltered_sources(e.args[0], out)
        if f in ("__mutated__",) and e.args:
            return _unfiltered_sources(e.args[0], out)
        if f == "itertools.chain":
            rs = [_unfiltered_sources(a, out) for a in e.args]
            return None if None in rs else all(rs)
        return None
    if isinstance(e, ast.BinOp) and isinstance(e.op, ast.Add):
        l, r = _unfiltered_sources(e.left, out), _unfiltered_sources(e.right, out)
        return None if None in (l, r) else (l and r)
    if isinstance(e, ast.IfExp):
        l, r = _unfiltered_sources(e.body, out), _unfiltered_sources(e.orelse, out)
        return None if None in (l, r) else (l and r)
    if isinstance(e, (ast.Attribute, ast.Name)):
        out.append(u(e))
        return False
    if isinstance(e, ast.Tuple) and not e.elts:
        return True
    return None


def filters(ctx: Ctx):
    """Every display order filters `idx not in hidden` - on every source sequence that reaches it."""
    for cname, member in (
        ("_BaseAnchoredCollator", "_display_order"),
        ("PayloadOrderCollator", "payload_order"),
        ("SortByValueCollator", "_display_order"),
    ):
        ci = ctx.repo.cls("collator.py", cname)
        m = ctx.repo.lookup(ci, member)
        if m is None:
            raise AnalysisError(f"collator.py::{cname}.{member} vanished")
        value = SUMMARIZER.summarize(m.node)
        leaks: List[str] = []
        verdict = _unfiltered_sources(value, leaks)
        where = f"collator.py::{cname}.{member}"
        if verdict is False:
            ctx.violated("hidden-filter", where, f"unfiltered source(s): {sorted(set(leaks))}", "every idx of the order passed `idx not in hidden`", "the assembled order keeps an idx only if it is not in the hidden set")
        else:
            ctx.ob("hidden-filter", where, u(value)[:160], "every idx of the order passed `idx not in hidden`", verdict, "the assembled order keeps an idx only if it is not in the hidden set")
        ctx.count("hidden filters")
    ctx.require_min("hidden filters", 3)


def stale_reference_table(ctx: Ctx, rule: str = "hidden-set.stale-reference"):
    """"Hidden exactly when it is explicitly hidden": a transform key that names NO item of an array dimension (unknown
    string, out-of-range or NEGATIVE position, None) resolves to nothing - it must not be wrapped around to the last
    item.  The decision list of `_ElementIdShim.translate_element_id` evaluated (DECTAB, models of C19) on those keys."""
    from ..dectab import DTop, Raises
    from ..symex import SUMMARIZER as _S
    from . import c19

    ci = ctx.repo.cls("dimension.py", "_ElementIdShim")
    m = ctx.repo.lookup(ci, "translate_element_id")
    if m is None:
        raise AnalysisError("_ElementIdShim.translate_element_id vanished")
    body = _S.summarize(m.node)
    where = "dimension.py::_ElementIdShim.translate_element_id [keys naming no item]"
    bad, n = [], 0
    try:
        for with_ins in (False, True):
            model = c19._model(with_ins)
            nitems = len(model["items"])
            for label, val in (("unknown string", "nope"), ("out-of-range int", 99), ("out-of-range numeric string", "99"), ("negative int", -1), ("negative numeric string", "-1"), ("negative int (-n)", -nitems)):
                n += 1
                try:
                    got = c19._eval_translate(ctx, body, model, val, with_ins)
                except Raises:
                    continue  # a raising key hides nothing (reported by C19)
                if got is not None:
                    bad.append(f"{label} ({val!r}) -> {got!r}")
    except DTop as t:
        ctx.undecided(rule, where, "DECTAB: " + str(t), "keys naming no item resolve to None")
        return
    ctx.count("stale keys evaluated", n)
    ctx.ob(rule, where, bad[:4] or f"{n} keys naming no item -> None", "a key that names no item hides (orders, fixes) nothing", not bad,
           "a stale key such as '-1' (the No Data category id of a variable since replaced by an array) hides the LAST item although nobody asked for it")
    ctx.require_min("stale keys evaluated", 12)


def element_transform_lookup(ctx: Ctx):
    """Which transforms (hide ...) an element gets: the lookup of the element's id among the keys of the `elements`
    transforms, evaluated (DECTAB) over the spellings that occur - the key is a JSON object name, so an int id arrives as
    "3"; a datetime / digit-only alias id IS the string "1950".  Every (key spelling, id) pair that names the same
    element must find the transforms."""
    from ..dectab import DTop, ModelInterp, Raises
    from ..stmts import resolver
    from ..symex import Expander

    els = ctx.repo.cls("dimension.py", "Elements")
    m = ctx.repo.lookup(els, "from_typedef")
    where = "dimension.py::Elements.from_typedef [element transforms lookup]"
    if m is None:
        raise AnalysisError("Elements.from_typedef vanished")
    calls = [c for c in ast.walk(m.node) if isinstance(c, ast.Call) and u(c.func) == "_ElementTransforms" and c.args]
    if not calls:
        ctx.undecided("hidden-set.lookup", where, "no _ElementTransforms(...) construction found", "")
        return
    res = resolver(m.node, multi=False)
    T = {"hide": True}
    cases = [("int id, int key", {3: T}, 3), ("int id, string key", {"3": T}, 3), ("digit-string id (year / numeric alias)", {"1950": T}, "1950"), ("alias id", {"A0": T}, "A0"), ("negative int id, string key", {"-1": T}, -1)]
    bad, n = [], 0
    for variant in res(calls[0].args[0]):
        e = Expander(ctx.repo, els, stop=lambda mm: mm.name == "_build_element_id", self_name="cls").visit(variant)
        for label, xf, eid in cases:
            def atoms(x, xf=xf, eid=eid):
                t = u(x)
                if t == "all_xforms" or t == "dimension_transforms_dict.get('elements', {})":
                    return xf
                if t == "element_id" or t.startswith("_build_element_id("):
                    return eid
                raise KeyError

            try:
                got = ModelInterp(atoms).ev(e)
            except Raises as r:
                bad.append(f"{label}: raises {r.etype}")
                continue
            except DTop as t:
                ctx.undecided("hidden-set.lookup", where, "DECTAB: " + str(t), "the element's transforms are found under either spelling of its id")
                return
            n += 1
            if got != T:
                bad.append(f"{label}: transforms not found (key {list(xf)[0]!r}, id {eid!r})")
        break
    ctx.count("element-transform lookup cases", n)
    ctx.ob("hidden-set.lookup", where, bad or f"{n} (key spelling, id) cases", "the transforms keyed by the element's id are found whether the id is an int, its string, or a digit-only string id", not bad,
           "an explicit hide on such an element is silently dropped: the element stays visible")


def empties_from_pruning_base(ctx: Ctx):
    """Which elements are "empty" (dropped when the dimension is pruned) is decided from the UNWEIGHTED pruning base and from
    nothing else.  Every `<Collator>.display_order(...)` call of the order helpers (matrix and stripe) binds its `empty_idxs`
    parameter to a value whose full expansion inside the helper class reads the pruning base / pruning mask of the measures
    only: a value that also depends on the sort VALUES (rows whose sort measure is NaN), on weights or on a display
    transform prunes rows that have respondents."""
    from ..symex import expand
    from .common import positional_args

    ALLOWED = ("pruning_base", "rows_pruning_mask", "columns_pruning_mask", "rows_pruning_base", "columns_pruning_base")
    n = 0
    for short in (MA, "stripe/assembler.py"):
        mod = ctx.repo.module(short)
        for ci in mod.classes.values():
            for name, m in ci.members.items():
                for c in ast.walk(m.node):
                    if not (isinstance(c, ast.Call) and isinstance(c.func, ast.Attribute) and c.func.attr == "display_order" and "Collator" in u(c.func.value)):
                        continue
                    # the collator class may be chosen by a local (`CollatorCls.display_order`): every collator has `empty_idxs`
                    cands = [x for x in ctx.repo.module("collator.py").classes.values() if "display_order" in x.members]
                    callee = None
                    tname = u(c.func.value)
                    for x in cands:
                        if x.name == tname:
                            callee = x.members["display_order"]
                    if callee is None:
                        callee = next((x.members["display_order"] for x in cands if len([p_ for p_ in x.members["display_order"].params if p_ not in ("cls", "self")]) == len(c.args) + len(c.keywords)), None)
                    args = positional_args(ctx, c, callee) if callee is not None else None
                    params = [p_ for p_ in callee.params if p_ not in ("cls", "self")] if callee is not None else []
                    where = f"{short}::{ci.name}.{name} [{tname}.display_order]"
                    if args is None or "empty_idxs" not in params or params.index("empty_idxs") >= len(args):
                        ctx.undecided("empties.source", where, u(c)[:100], "the argument bound to `empty_idxs`")
                        continue
                    n += 1
                    arg = args[params.index("empty_idxs")]
                    # expand `self.<member>` chains of the helper class
                    reads, opaque_ = set(), False
                    todo, seen = [arg], set()
                    while todo:
                        x = todo.pop()
                        for a in ast.walk(x):
                            if isinstance(a, ast.Attribute) and isinstance(a.value, ast.Name) and a.value.id == "self":
                                if a.attr in seen:
                                    continue
                                seen.add(a.attr)
                                mm = ctx.repo.lookup(ci, a.attr)
                                if mm is not None and mm.kind in ("lazyproperty", "property"):
                                    try:
                                        todo.append(expand(ctx.repo, ci, a.attr, stop=lambda q: True))
                                    except Exception:
                                        opaque_ = True
                            if isinstance(a, ast.Attribute) and u(a.value) in ("self._measures", "self._second_order_measures"):
                                reads.add(a.attr)
                    extra = sorted(r for r in reads if r not in ALLOWED)
                    own = sorted(s_ for s_ in seen if s_ in ("_element_values", "_subtotal_values", "_measure", "_format", "_order_spec"))
                    if extra or own:
                        ctx.violated("empties.source", where, f"`empty_idxs` <- {u(arg)[:60]}: also depends on {extra + ['self.' + o for o in own]}", "the pruning base / pruning mask (unweighted counts) only",
                                     "an element with respondents is dropped under `prune` because of the value it is sorted by (NaN), a weight, or a transform")
                    elif reads:
                        ctx.held("empties.source", where, f"`empty_idxs` <- {u(arg)[:60]}: reads {sorted(reads)}", "the pruning base / pruning mask only")
                    else:
                        ctx.undecided("empties.source", where, f"`empty_idxs` <- {u(arg)[:60]}: no measure read derived", "the pruning base / pruning mask")
    ctx.count("collator calls with an empties argument", n)
    ctx.require_min("collator calls with an empties argument", 6)


def insertion_hide_survives(ctx: Ctx):
    """A derived multiple-response item hidden through a `"hide": true` copy of its insertion stays hidden whatever ELSE the
    transforms say about that element (a fill colour, a name): `Elements.from_typedef` is executed over a model MR
    dimension up to the construction of the element transforms, and the transforms each element ends up with are read
    off.  "Hidden iff asked": hiding was asked for, an element transform without a word on visibility does not take it back."""
    from ..dectab import DTop, ModelInterp, Raises, exec_function

    els = ctx.repo.cls("dimension.py", "Elements")
    m = ctx.repo.lookup(els, "from_typedef")
    where = "dimension.py::Elements.from_typedef [insertion-level hide + element transforms]"
    if m is None:
        raise AnalysisError("Elements.from_typedef vanished")
    calls = [c for c in ast.walk(m.node) if isinstance(c, ast.Call) and u(c.func) == "_ElementTransforms" and c.args]
    if not calls:
        ctx.undecided("hidden-set.insertion-hide", where, "no _ElementTransforms(...) construction found", "")
        return
    element_defs = [
        {"id": 1, "value": {"id": "A&B", "derived": True, "references": {"alias": "A&B"}}},
        {"id": 2, "value": {"id": "0001", "references": {"alias": "bool1"}}},
        {"id": 3, "value": {"id": "0002", "references": {"alias": "bool2"}}},
    ]
    insertion = {"function": "any_selected", "name": "A&B", "anchor": "top", "hide": True}
    cases = [
        ("hide on the insertion only", {}, 1, True),
        ("+ a fill colour on the element (keyed by id)", {1: {"fill": "#ff0000"}}, 1, True),
        ("+ a name on the element (string key)", {"1": {"name": "both"}}, 1, True),
        ("+ a fill on ANOTHER element", {2: {"fill": "#00ff00"}}, 1, True),
        ("another element, not hidden", {2: {"fill": "#00ff00"}}, 2, False),
        ("another element explicitly hidden", {3: {"hide": True}}, 3, True),
    ]
    bad, n = [], 0
    for label, element_xforms, eid, want_hidden in cases:
        def atoms(x, eid=eid):
            t = u(x)
            if t == "DT.MR_SUBVAR":
                return "MR_SUBVAR"
            if isinstance(x, ast.Attribute) and isinstance(x.value, ast.Name) and x.value.id == "DT":
                return x.attr
            if t.startswith("_build_element_id("):
                return eid
            raise KeyError

        it = ModelInterp(atoms, {})
        it.methods = lambda name: (lambda mm: mm.node if mm is not None and mm.kind in ("method", "staticmethod", "classmethod") else None)(ctx.repo.lookup(els, name))
        bind = {
            "typedef": {"class": "enum", "elements": [dict(e) for e in element_defs]},
            "dimension_transforms_dict": {"insertions": [dict(insertion)], "elements": {k: dict(v) for k, v in element_xforms.items()}},
            "dimension_type": "MR_SUBVAR",
            "element_data_format": None,
        }
        try:
            env = exec_function(it, m.node, bind, until=lambda st: isinstance(st, ast.For) and any(c in list(ast.walk(st)) for c in calls[:1]))
            if not isinstance(env, dict) or "typedef" not in env:
                raise DTop("the loop constructing the element transforms was not reached")
            env = dict(env)
            env["element_id"] = eid
            got = it._sub(env).ev(calls[0].args[0])
        except Raises as r:
            bad.append(f"{label}: raises {r.etype}")
            continue
        except DTop as t:
            ctx.undecided("hidden-set.insertion-hide", where, "DECTAB: " + str(t), "the hide asked for on the insertion reaches the element")
            return
        n += 1
        hidden = isinstance(got, dict) and got.get("hide") is True
        if hidden != want_hidden:
            bad.append(f"{label}: element {eid} gets transforms {got!r} - " + ("the hide asked for on its insertion is gone" if want_hidden else "hidden without being asked"))
    ctx.count("insertion-hide cases", n)
    ctx.ob("hidden-set.insertion-hide", where, bad[:3] or f"{n} cases", "an item whose insertion carries \"hide\": true is hidden whatever other element transforms name it", not bad,
           "hidden iff asked: a fill colour says nothing about visibility")
    ctx.require_min("insertion-hide cases", 6)
