"""C10 - transposing the response transposes the result."""
from __future__ import annotations

import ast
import re
from typing import List, Optional

from ..axes import AV, source
from ..blocks import matrix_templates
from ..core import Ctx
from ..mirror import compare_twins, swap_ident, transpose
from ..specs import layout as L
from ..symex import SUMMARIZER, expand, u
from . import layouts as LY
from .blockaxis import derive_block

MM = "matrix/measure.py"
MS = "matrix/subtotals.py"
MA = "matrix/assembler.py"
PAIRS = [(a, b) for a in L.KINDS for b in L.KINDS]
_ROLE_SWAP = {"R": "C", "C": "R", "Rsel": "Csel", "Csel": "Rsel", "Rins": "Cins", "Cins": "Rins"}


def run(ctx: Ctx):
    ctx.explanation = (
        "Mirror comparison under the transposition rewrite T: the count classes for (A,B) and (B,A) have transposed AXIS "
        "normal forms; every Row*/Column* measure class pair, every ROWS/COLUMNS branch pair of the marginals, the "
        "row/column methods of every subtotal class, the row/column order helpers and sort helpers, and the paired "
        "row_*/column_* and rows_*/columns_* properties of _Slice are mirror images (T(row twin) == column twin on "
        "canonicalised expressions; a token that differs is reported, a different shape is undecided)."
    )
    ctx.not_decided = ["listed one-sided features (smoothing, squared base, pairwise tests, payload_order, rows_dimension_fills/alias, tab_label) are excluded by name"]
    count_layouts(ctx)
    base_blocks(ctx)
    measure_pairs(ctx)
    marginal_branches(ctx)
    subtotal_methods(ctx)
    order_helpers(ctx)
    order_dispatch_mirror(ctx)
    slice_properties(ctx)
    measure_dependence_mirror(ctx)
    from .common import axis_role_lint

    axis_role_lint(ctx, "axis-roles")
    # a twin rewritten as "copy the defaults, overwrite by the position among the DIFFERENCES" addresses the block by positions
    # counted in a filtered list: the row and the column direction then disagree as soon as a plain subtotal precedes a difference
    from .common import index_space_lints

    index_space_lints(ctx, "index-space", ["matrix/subtotals.py", "stripe/insertion.py"], kinds=("filtered-enumeration",))
    from .common import generic_lints

    # a vector laid out along rows or columns by comparing its length with an extent of the block is right for one
    # orientation and wrong for its mirror image whenever the block is square
    generic_lints(ctx, kinds=("extent-guessed-orientation",), scope=lambda short, cls, member: short in ("matrix/measure.py", "matrix/subtotals.py", "matrix/cubemeasure.py", "cubepart.py", "min_base_size_mask.py"))


def _swap_nf(nf: str) -> str:
    # "out=(R,C) R:K Rsel:F0 C:Σ" -> roles swapped and re-sorted into canonical source order
    m = re.match(r"out=\(([^)]*)\) (.*)$", nf)
    outs = [r for r in m.group(1).split(",") if r]
    outs = [_ROLE_SWAP.get(r, r) for r in outs][::-1] if len(outs) == 2 else [_ROLE_SWAP.get(r, r) for r in outs]
    items = []
    for it in m.group(2).split(" "):
        if ":" in it and not it.startswith("x|"):
            r, op = it.split(":", 1)
            op = re.sub(r"->(\w+)", lambda mm: "->" + _ROLE_SWAP.get(mm.group(1), mm.group(1)), op)
            items.append((_ROLE_SWAP.get(r, r), op))
    order = {"R": 0, "Rsel": 1, "C": 2, "Csel": 3}
    items.sort(key=lambda x: order.get(x[0], 9))
    return f"out=({','.join(outs)}) " + " ".join(f"{r}:{op}" for r, op in items)


def count_layouts(ctx: Ctx):
    disp = LY.factory_dispatch(ctx, LY.MCM, "_BaseCubeCounts", PAIRS, lambda t: t == "cube.dimension_types[-2:]")
    twin = {
        "counts": "counts", "row_bases": "column_bases", "column_bases": "row_bases", "table_bases": "table_bases",
        "rows_base": "columns_base", "columns_base": "rows_base", "rows_table_base": "columns_table_base",
        "columns_table_base": "rows_table_base", "table_base": "table_base",
        "_rows_pruning_base": "_columns_pruning_base", "_columns_pruning_base": "_rows_pruning_base",
    }
    for pair in PAIRS:
        a, b = disp.get(pair), disp.get((pair[1], pair[0]))
        if a is None or b is None:
            continue
        ca, cb = a[0], b[0]
        la = {"self._counts": source("_counts", L.src_roles(*pair))}
        lb = {"self._counts": source("_counts", L.src_roles(pair[1], pair[0]))}
        for member, tw in twin.items():
            support = member.endswith("pruning_base")
            ka, ta, _ = LY.derive(ctx, ca, member, la, support)
            kb, tb, _ = LY.derive(ctx, cb, tw, lb, support)
            where = f"{LY.MCM}::{ca.name}.{member} <-> {cb.name}.{tw}"
            ctx.count("layout mirror obligations")
            if ka == "none" and kb == "none":
                ctx.held("layout-mirror", where, "None", "None")
            elif ka == "nf" and kb == "nf":
                ctx.ob("layout-mirror", where, _swap_nf(ta), tb, _swap_nf(ta) == tb, "the layout for (A,B) is the transpose of the layout for (B,A)")
            elif "top" in (ka, kb):
                ctx.undecided("layout-mirror", where, f"{ka}:{ta} / {kb}:{tb}", "transposed normal forms")
            else:
                ctx.violated("layout-mirror", where, f"{ka}:{ta}", f"{kb}:{tb}", "one side is defined, the other is not")
    ctx.require_min("layout mirror obligations", 99)


def base_blocks(ctx: Ctx):
    pos_twin = {"_base_values": "_base_values", "_subtotal_rows": "_subtotal_columns", "_subtotal_columns": "_subtotal_rows", "_intersections": "_intersections"}
    for rname, cname in (("_RowWeightedBases", "_ColumnWeightedBases"), ("_RowUnweightedBases", "_ColumnUnweightedBases")):
        r, c = ctx.repo.cls(MM, rname), ctx.repo.cls(MM, cname)
        for member, tw in pos_twin.items():
            kr, tr = derive_block(ctx, r, member)
            kc, tc = derive_block(ctx, c, tw)
            where = f"{MM}::{rname}.{member} <-> {cname}.{tw}"
            if kr == "nf" and kc == "nf":
                # compare structure modulo the accepted spellings of "the base vector" (own-direction 1-D base or first column/row of the 2-D base)
                sr = _norm_block_nf(_swap_block_nf(tr))
                sc = _norm_block_nf(tc)
                ctx.ob("base-block-mirror", where, sr, sc, sr == sc, "row-direction base block is the mirror image of the column-direction one")
            elif "clash" in (kr, kc):
                ctx.violated("base-block-mirror", where, f"{kr}:{tr[:120]} / {kc}:{tc[:120]}", "mirrored normal forms", "operands with different axis roles are combined on one side")
            else:
                ctx.undecided("base-block-mirror", where, f"{kr}:{tr[:60]} / {kc}:{tc[:60]}", "mirrored normal forms")
            ctx.count("base block mirror obligations")
    for cname in ("_TableWeightedBases", "_TableUnweightedBases"):
        c = ctx.repo.cls(MM, cname)
        for member, tw in pos_twin.items():
            kr, tr = derive_block(ctx, c, member)
            kc, tc = derive_block(ctx, c, tw)
            where = f"{MM}::{cname}.{member} <-> {cname}.{tw}"
            if kr == "nf" and kc == "nf":
                sr, sc = _norm_block_nf(_swap_block_nf(tr)), _norm_block_nf(tc)
                ctx.ob("base-block-mirror", where, sr, sc, sr == sc, "a direction-free measure is invariant under T")
            else:
                ctx.undecided("base-block-mirror", where, f"{kr}/{kc}", "")
            ctx.count("base block mirror obligations")
    ctx.require_min("base block mirror obligations", 16)


def _swap_block_nf(nf: str) -> str:
    def sw(m):
        return _ROLE_SWAP.get(m.group(0), m.group(0))

    s = re.sub(r"\b(Rins|Cins|Rsel|Csel|R|C)\b", sw, nf)
    s = s.replace("row_bases", "§c").replace("column_bases", "row_bases").replace("§c", "column_bases")
    s = s.replace("rows_base", "§c").replace("columns_base", "rows_base").replace("§c", "columns_base")
    s = s.replace("SumSubRows", "§s").replace("SumSubCols", "SumSubRows").replace("§s", "SumSubCols")
    s = s.replace("diff_rows_nan", "§d").replace("diff_cols_nan", "diff_rows_nan").replace("§d", "diff_cols_nan")
    return s


def _norm_block_nf(nf: str) -> str:
    """Order-insensitive form: out roles as a set-ordered list, per-axis ops sorted; the two accepted
    spellings of the base vector are unified."""
    nf = nf.replace(" (+empty short-cut)", "")
    m = re.match(r"out=\(([^)]*)\) src=(.*?) ((?:\w+:\S+ ?)+)$", nf)
    if not m:
        return nf
    outs = sorted(m.group(1).split(","))
    src = m.group(2)
    ops = sorted(m.group(3).split())
    # unify "first column of the 2-D base" with "the 1-D base vector"
    src = re.sub(r"(\w)\.row_bases$", r"\1.rowbase", src)
    src = re.sub(r"(\w)\.rows_base$", r"\1.rowbase", src)
    src = re.sub(r"(\w)\.column_bases$", r"\1.colbase", src)
    src = re.sub(r"(\w)\.columns_base$", r"\1.colbase", src)
    ops = [o for o in ops if not o.endswith(":F0") or "rowbase" not in src and "colbase" not in src]
    inner = re.sub(r"out=\(([^)]*)\)", lambda mm: "out=(" + ",".join(sorted(mm.group(1).split(","))) + ")", src)
    inner = re.sub(r"((?:\w+:\S+ ?)+);", lambda mm: " ".join(sorted(mm.group(1).split())) + ";", inner)
    return f"out=({','.join(outs)}) src={inner} {' '.join(ops)}"


def _grid(ctx, ci):
    kind, g, _ = matrix_templates(ctx.repo, ci)
    return g if kind == "grid" else None


def _package_helpers(ctx: Ctx, e, mirrored: bool):
    """Heads `Class.method` of the calls to classes of the package inside an expression (T applied to the method name)."""
    out = set()
    mod = ctx.repo.module(MM)
    for n in ast.walk(e):
        if isinstance(n, ast.Call) and isinstance(n.func, ast.Attribute) and isinstance(n.func.value, ast.Name) and ctx.repo.resolve_class(mod, n.func.value.id) is not None:
            meth = swap_ident(n.func.attr) if mirrored else n.func.attr
            out.add(f"{n.func.value.id}.{meth}")
    return out


def measure_pairs(ctx: Ctx):
    for rname, cname in (("_RowProportions", "_ColumnProportions"), ("_RowStandardError", "_ColumnStandardError")):
        gr, gc = _grid(ctx, ctx.repo.cls(MM, rname)), _grid(ctx, ctx.repo.cls(MM, cname))
        if gr is None or gc is None:
            ctx.undecided("measure-mirror", f"{MM}::{rname} <-> {cname}", "blocks is not a grid", "")
            continue
        for i in (0, 1):
            for j in (0, 1):
                v, tt, why = compare_twins(gr[i][j], gc[j][i])
                where = f"{MM}::{rname}.blocks[{i}][{j}] <-> {cname}.blocks[{j}][{i}]"
                ctx.ob("measure-mirror", where, tt[:300], u(gc[j][i])[:300], v, "block (i,j) of the row measure mirrors block (j,i) of the column measure. " + why)
                ctx.count("measure mirror obligations")
                # independent of the spelling: the twins go through the same subtotal machinery (mirrored)
                hr, hc = _package_helpers(ctx, gr[i][j], mirrored=True), _package_helpers(ctx, gc[j][i], mirrored=False)
                ctx.ob("measure-mirror.helpers", where, f"row twin: {sorted(hr)}; column twin: {sorted(hc)}", "the same subtotal helpers, mirrored", hr == hc,
                       "one twin applies a subtotal rule (wave difference, NaN blanking ...) the other does not")
    # share of sum: compare the block references (numerator / denominator positions) only, spellings differ by design
    from ..blocks import block_refs

    gr, gc = _grid(ctx, ctx.repo.cls(MM, "_RowShareSum")), _grid(ctx, ctx.repo.cls(MM, "_ColumnShareSum"))
    if gr is not None and gc is not None:
        for i in (0, 1):
            for j in (0, 1):
                rr = sorted((r.j, r.i) for r in block_refs(gr[i][j]))
                cc = sorted((r.i, r.j) for r in block_refs(gc[j][i]))
                ctx.ob("measure-mirror", f"{MM}::_RowShareSum.blocks[{i}][{j}] <-> _ColumnShareSum.blocks[{j}][{i}]", rr, cc, rr == cc, "numerator and denominator block positions are mirrored")
                ctx.count("measure mirror obligations")
    for rname, cname in (("_RowComparableCounts", "_ColumnComparableCounts"),):
        for member in ("blocks", "is_defined"):
            er = expand(ctx.repo, ctx.repo.cls(MM, rname), member, stop=lambda m: m.name == "is_defined" and member == "blocks")
            ec = expand(ctx.repo, ctx.repo.cls(MM, cname), member, stop=lambda m: m.name == "is_defined" and member == "blocks")
            v, tt, why = compare_twins(_strip_raise(er), _strip_raise(ec))
            ctx.ob("measure-mirror", f"{MM}::{rname}.{member} <-> {cname}.{member}", tt[:200], u(_strip_raise(ec))[:200], v, why)
            ctx.count("measure mirror obligations")
    # direction-free grids are T-invariant
    for cname in ("_TableProportions", "_TableStandardError", "_Pvalues", "_TotalShareSum"):
        g = _grid(ctx, ctx.repo.cls(MM, cname))
        if g is None:
            continue
        for (i, j) in ((0, 1),):
            v, tt, why = compare_twins(g[i][j], g[j][i])
            ctx.ob("measure-invariant", f"{MM}::{cname}.blocks[{i}][{j}] <-> blocks[{j}][{i}]", tt[:200], u(g[j][i])[:200], v, "a direction-free measure is invariant under T. " + why)
            ctx.count("measure mirror obligations")
    ctx.require_min("measure mirror obligations", 14)


def _strip_raise(e: ast.expr) -> ast.expr:
    while isinstance(e, ast.IfExp):
        if u(e.body).startswith("__raise__"):
            e = e.orelse
        elif u(e.orelse).startswith("__raise__"):
            e = e.body
        else:
            break
    return e


_ROWS_TESTS = ("self._orientation == MO.ROWS", "self.orientation == MO.ROWS")
_COLS_TESTS = ("self._orientation == MO.COLUMNS", "self.orientation == MO.COLUMNS")


class _Specialise(ast.NodeTransformer):
    """Resolve every conditional on the orientation for one orientation (the conditional may sit anywhere inside the
    expression: `dims[0 if rows else 1]` and `dims[0] if rows else dims[1]` specialise to the same two expressions)."""

    def __init__(self, rows: bool):
        self.rows = rows
        self.hits = 0

    def visit_IfExp(self, node: ast.IfExp):
        t = u(node.test)
        neg = False
        if isinstance(node.test, ast.UnaryOp) and isinstance(node.test.op, ast.Not):
            t, neg = u(node.test.operand), True
        t2 = t.replace("!=", "==") if "!=" in t else t
        flipped = ("!=" in t) != neg
        if t2 in _ROWS_TESTS or t2 in _COLS_TESTS:
            self.hits += 1
            is_rows_test = (t2 in _ROWS_TESTS) != flipped
            take_body = is_rows_test == self.rows
            return self.visit(node.body if take_body else node.orelse)
        return self.generic_visit(node)


def _orientation_branches(e: ast.expr):
    """-> [(expression specialised for ROWS, expression specialised for COLUMNS)] (empty when it does not depend on the orientation)"""
    import copy as _copy

    sr, sc = _Specialise(True), _Specialise(False)
    from ..symex import fold

    rows_e = fold(sr.visit(_copy.deepcopy(e)))
    cols_e = fold(sc.visit(_copy.deepcopy(e)))
    return [(rows_e, cols_e)] if sr.hits else []


def marginal_branches(ctx: Ctx):
    targets = [
        ("_BaseMarginal", "_counts"), ("_BaseMarginal", "_counts_are_defined"), ("_BaseScaledCountMarginal", "_opposing_numeric_values"),
        ("_MarginTableBase", "_base_values"), ("_MarginTableBase", "_subtotal_shape"), ("_MarginWeightedBase", "_base_values"),
        ("_MarginWeightedBase", "blocks"), ("_MarginUnweightedBase", "blocks"), ("_MarginTableProportion", "_proportion_numerators"),
        ("_MarginTableProportion", "_proportion_denominators"), ("_ScaleMean", "_proportions"), ("_ScaleMeanStddev", "_scale_means"),
        ("_ScaleMeanStddev", "_stddev_func"), ("_ScaleMeanStderr", "_margin"), ("_ScaleMeanStderr", "_scale_mean_stddev"),
    ]
    for cname, member in targets:
        ci = ctx.repo.cls(MM, cname)
        e = expand(ctx.repo, ci, member, stop=lambda m: m.name in ("is_defined", "_apply_along_orientation"))
        br = _orientation_branches(e)
        where = f"{MM}::{cname}.{member}"
        if not br:
            ctx.undecided("marginal-mirror", where, "no ROWS/COLUMNS branch found", "mirrored branches")
            continue
        for rows_e, cols_e in br[:1]:
            from ..symex import fold, fold_consts

            # a comprehension over literal block positions (`for i, j in ((0, 0), (1, 0))`) is unrolled on both sides
            rows_e, cols_e = fold_consts(fold(rows_e)), fold_consts(fold(cols_e))
            v, tt, why = compare_twins(rows_e, cols_e)
            ctx.ob("marginal-mirror", where, tt[:300], u(cols_e)[:300], v, "the ROWS branch of a marginal is the mirror image of its COLUMNS branch. " + why)
            ctx.count("marginal branch pairs")
    # axis selection: ROWS -> axis 1, COLUMNS -> axis 0
    ci = ctx.repo.cls(MM, "_ScaleMedian")
    e = expand(ctx.repo, ci, "_sorted_counts", stop=lambda m: m.name in ("_counts", "_values_sort_order"))
    ctx.check_expr("marginal-mirror.axis", f"{MM}::_ScaleMedian._sorted_counts", e, "(count.take(self._values_sort_order, 1 if self._orientation == MO.ROWS else 0) for count in self._counts)", "ROWS marginals work along axis 1, COLUMNS along axis 0")
    # the two static std-dev helpers
    sd = ctx.repo.cls(MM, "_ScaleMeanStddev")
    from ..symex import fold_consts as _fc

    # a shared static helper taking the axis (`_weighted_mean_stddev(counts, values, scale_mean, axis)`) is inlined into both twins
    er = _fc(expand(ctx.repo, sd, "_rows_weighted_mean_stddev", stop=lambda mm: mm.kind in ("lazyproperty", "property")))
    ec = _fc(expand(ctx.repo, sd, "_columns_weighted_mean_stddev", stop=lambda mm: mm.kind in ("lazyproperty", "property")))
    lr, lc = _last_leaf(er), _last_leaf(ec)
    # spellings differ (.T placement); compare axis / subscript orientation tokens
    ax_r = sorted(u(k.value) for n in ast.walk(lr) for k in getattr(n, "keywords", []) if k.arg == "axis")
    ax_c = sorted(u(k.value) for n in ast.walk(lc) for k in getattr(n, "keywords", []) if k.arg == "axis")
    sub_r = sorted({u(n.slice) for n in ast.walk(lr) if isinstance(n, ast.Subscript) and "not_a_nan" in u(n.slice)})
    sub_c = sorted({u(n.slice) for n in ast.walk(lc) if isinstance(n, ast.Subscript) and "not_a_nan" in u(n.slice)})
    ok = ax_r == ["1", "1"] and ax_c == ["0", "0"] and all("(slice(None, None, None), " in s or s.startswith("(:") or s.startswith("slice") or ":, " in s for s in sub_r)
    good = bool(ax_r) and bool(ax_c) and set(ax_r) == {"1"} and set(ax_c) == {"0"} and len(ax_r) == len(ax_c) and all(s.replace(" ", "").startswith(":,") or s.replace(" ","").startswith("(:,") for s in sub_r) and all(s.replace(" ", "").endswith(",:") or s.replace(" ","").endswith(",:)") for s in sub_c)
    # positive evidence of a swapped direction: a literal axis of the OTHER direction, or the mask on the other side
    swapped = "0" in ax_r or "1" in ax_c or any(s.replace(" ", "").endswith(",:") or s.replace(" ", "").endswith(",:)") for s in sub_r) or any(s.replace(" ", "").startswith(":,") or s.replace(" ", "").startswith("(:,") for s in sub_c)
    ctx.ob("marginal-mirror.stddev", f"{MM}::_ScaleMeanStddev._rows/_columns_weighted_mean_stddev", f"rows: axis={ax_r} mask={sub_r}; columns: axis={ax_c} mask={sub_c}", "rows: axis 1, mask on columns; columns: axis 0, mask on rows", True if good else (False if swapped else None))
    ctx.require_min("marginal branch pairs", 15)
    twin_arithmetic(ctx)
    twin_constructs(ctx)


_ARITH_CALLS = {"np.sum", "np.nansum", "np.sqrt", "pow", "np.power", "np.mean", "np.nanmean", "np.dot", "np.matmul", "np.einsum", "np.average", "np.square", "np.multiply", "np.divide",
                "np.true_divide", "np.subtract", "np.add", "np.inner", "np.tensordot", "np.var", "np.std", "np.cumsum", "np.prod", "np.median", "np.convolve"}


def _arith_profile(fns):
    import collections

    # one name per operation, whatever its spelling (x ** 2 = pow(x, 2) = np.square(x); a.sum() = np.sum(a); a @ b = np.dot(a, b))
    same = {"pow": "Pow", "np.power": "Pow", "np.square": "Pow", "np.multiply": "Mult", "np.divide": "Div", "np.true_divide": "Div", "np.subtract": "Sub", "np.add": "Add",
            "np.dot": "MatMult", "np.matmul": "MatMult", ".dot": "MatMult", ".sum": "np.sum", ".mean": "np.mean", ".prod": "np.prod", ".cumsum": "np.cumsum"}
    c = collections.Counter()
    for fn in fns:
        for n in ast.walk(fn):
            name = None
            if isinstance(n, ast.BinOp):
                name = type(n.op).__name__
            elif isinstance(n, ast.Call) and u(n.func) in _ARITH_CALLS:
                name = u(n.func)
            elif isinstance(n, ast.Call) and isinstance(n.func, ast.Attribute) and n.func.attr in ("sum", "dot", "mean", "prod", "cumsum") and not u(n.func).startswith("np."):
                name = "." + n.func.attr
            if name is not None:
                c[same.get(name, name)] += 1
    return c


def twin_arithmetic(ctx: Ctx):
    """Row / column twins written as two separate functions compute by the SAME arithmetic (the same operations the same
    number of times, helpers they call included) - only the axes differ.  Algebraically equal but differently arranged
    arithmetic (an expanded square on one side, a deviation form on the other) rounds differently: a zero-variance
    column then gives NaN or 1e-8 where its row twin gives 0.0, and A x B is no longer the transpose of B x A."""
    from ..stmts import reachable_functions

    pairs = [(MM, "_ScaleMeanStddev", "_rows_weighted_mean_stddev", "_columns_weighted_mean_stddev")]
    for cname in ("SumSubtotals", "PositiveTermSubtotals", "NegativeTermSubtotals", "NanSubtotals", "WaveDiffSubtotal"):
        pairs.append((MS, cname, "_subtotal_row", "_subtotal_column"))
    n = 0
    for short, cname, rname, cname_ in pairs:
        ci = ctx.repo.opt_cls(short, cname)
        if ci is None or ctx.repo.lookup(ci, rname) is None or ctx.repo.lookup(ci, cname_) is None:
            continue
        pr = _arith_profile(reachable_functions(ctx.repo, ci, rname))
        pc = _arith_profile(reachable_functions(ctx.repo, ci, cname_))
        n += 1
        only_r, only_c = dict(pr - pc), dict(pc - pr)
        ctx.ob("twin-arithmetic", f"{short}::{cname}.{rname} <-> {cname_}", f"rows only: {only_r}; columns only: {only_c}" if (only_r or only_c) else f"same arithmetic on both sides: {dict(pr)}",
               "the same operations on both sides (only the axes differ)", not (only_r or only_c), "twins that round differently are not each other's transposes")
    ctx.count("twin function pairs compared by arithmetic", n)
    ctx.require_min("twin function pairs compared by arithmetic", 4)


def twin_constructs(ctx: Ctx):
    """A class that overrides how the subtotal ROWS are stacked overrides the subtotal COLUMNS the same way (and vice versa):
    both twins in the class's own body, built from the same kinds of constructs (loop / comprehension / stores by index /
    stacking call, hstack and vstack being each other's mirror).  One twin rewritten - say as "copy the defaults, overwrite
    by the position among the differences" - while the other still stacks one vector per subtotal is an asymmetry whatever
    the rewritten twin computes."""
    import collections

    from ..mirror import swap_ident

    def profile(fn, mirror=False):
        c = collections.Counter()
        for n in ast.walk(fn):
            if isinstance(n, (ast.For, ast.While)):
                c["loop"] += 1
            elif isinstance(n, (ast.ListComp, ast.GeneratorExp)):
                c["comprehension"] += 1
            elif isinstance(n, (ast.Assign, ast.AugAssign)) and any(isinstance(t, ast.Subscript) for t in (n.targets if isinstance(n, ast.Assign) else [n.target])):
                c["store-by-index"] += 1
            elif isinstance(n, ast.Call) and u(n.func).startswith("np."):
                name = u(n.func)[3:]
                c["np." + (swap_ident(name) if mirror else name)] += 1
            elif isinstance(n, ast.Call) and isinstance(n.func, ast.Name) and n.func.id in ("enumerate", "zip", "filter", "sorted"):
                c[n.func.id] += 1
        return c

    mod = ctx.repo.module(MS)
    n = 0
    for ci in mod.classes.values():
        own = {k for k in ("_subtotal_rows", "_subtotal_columns") if k in ci.members}
        if not own:
            continue
        n += 1
        where = f"{MS}::{ci.name}._subtotal_rows <-> _subtotal_columns"
        # one confirmed exception (read, not inferred): the overlaps tensor exists for MULTIPLE-RESPONSE COLUMNS only - an MR
        # dimension carries no subtotals, so there are inserted rows (which repeat the base row) and never inserted columns
        if len(own) == 1 and ci.name == "OverlapSubtotals" and own == {"_subtotal_rows"}:
            ctx.held("twin-constructs", where, "only _subtotal_rows is overridden (listed exception)", "the overlaps measure has no inserted columns: its columns dimension is multiple response")
            continue
        # a different construct profile is NOT evidence of different behaviour (one twin may be vectorised on its own):
        # it is reported as undecided - the twins could not be compared - never as a violation
        if len(own) == 1:
            ctx.undecided("twin-constructs", where, f"only {sorted(own)[0]} is overridden in {ci.name}", "both twins overridden together")
            continue
        pr = profile(ci.members["_subtotal_rows"].node, mirror=True)
        pc = profile(ci.members["_subtotal_columns"].node)
        only_r, only_c = dict(pr - pc), dict(pc - pr)
        if only_r or only_c:
            ctx.undecided("twin-constructs", where, f"rows only: {only_r}; columns only: {only_c}", "the same constructs on both sides (hstack <-> vstack): the twins are built differently, the mirror comparison cannot relate them")
        else:
            ctx.held("twin-constructs", where, f"same constructs on both sides: {dict(pc)}", "the same constructs on both sides (hstack <-> vstack)")
    ctx.count("classes overriding the subtotal stacks", n)
    ctx.require_min("classes overriding the subtotal stacks", 2)


def _last_leaf(e):
    while isinstance(e, ast.IfExp):
        e = e.orelse
    return e


def subtotal_methods(ctx: Ctx):
    b2 = lambda *n: {x: ast.Name(id=x, ctx=ast.Load()) for x in n}
    for cname in ("SumSubtotals", "PositiveTermSubtotals", "NegativeTermSubtotals", "NanSubtotals"):
        ci = ctx.repo.cls(MS, cname)
        # private helper METHODS inlined (a shared `_subtrahend_sums(subtotal, axis)` called with 0 / 1), properties symbolic
        er = expand(ctx.repo, ci, "_subtotal_row", bind=b2("subtotal"), stop=lambda m: m.kind in ("lazyproperty", "property"))
        ec = expand(ctx.repo, ci, "_subtotal_column", bind=b2("subtotal"), stop=lambda m: m.kind in ("lazyproperty", "property"))
        from ..symex import fold_consts

        er, ec = fold_consts(er), fold_consts(ec)
        v, tt, why = compare_twins(er, ec)
        ctx.ob("subtotal-mirror", f"{MS}::{cname}._subtotal_row <-> _subtotal_column", tt[:250], u(ec)[:250], v, why)
        ctx.count("subtotal method pairs")
    wd = ctx.repo.cls(MS, "WaveDiffSubtotal")
    er = expand(ctx.repo, wd, "_subtotal_row", bind=b2("subtotal", "default"), stop=lambda m: m.kind in ("lazyproperty", "property"))
    ec = expand(ctx.repo, wd, "_subtotal_column", bind=b2("subtotal", "default"), stop=lambda m: m.kind in ("lazyproperty", "property"))
    from ..symex import fold_consts

    er, ec = fold_consts(er), fold_consts(ec)  # a shared helper taking the axis number, inlined into both twins
    v, tt, why = compare_twins(er, ec)
    ctx.ob("subtotal-mirror", f"{MS}::WaveDiffSubtotal._subtotal_row <-> _subtotal_column", tt[:250], u(ec)[:250], v, why)
    ctx.count("subtotal method pairs")
    base = ctx.repo.cls(MS, "_BaseSubtotals")
    er = expand(ctx.repo, base, "_subtotal_rows", stop=lambda m: m.name not in ("_subtotal_rows",))
    ec = expand(ctx.repo, base, "_subtotal_columns", stop=lambda m: m.name not in ("_subtotal_columns",))
    ctx.check_expr("subtotal-mirror.stack", f"{MS}::_BaseSubtotals._subtotal_rows", er, "np.empty((0, self._ncols)) if len(self._row_subtotals) == 0 else np.vstack([self._subtotal_row(subtotal) for subtotal in self._row_subtotals])", "row subtotals are stacked vertically")
    ctx.check_expr("subtotal-mirror.stack", f"{MS}::_BaseSubtotals._subtotal_columns", ec, "np.empty((self._nrows, 0)) if len(self._column_subtotals) == 0 else np.hstack([self._subtotal_column(subtotal).reshape(self._nrows, 1) for subtotal in self._column_subtotals])", "column subtotals are stacked horizontally")
    er = expand(ctx.repo, base, "_nrows")
    ctx.check_expr("subtotal-mirror.stack", f"{MS}::_BaseSubtotals._nrows", er, "self._base_values.shape[0]")
    er = expand(ctx.repo, base, "_ncols")
    ctx.check_expr("subtotal-mirror.stack", f"{MS}::_BaseSubtotals._ncols", er, "self._base_values.shape[1]")
    ctx.require_min("subtotal method pairs", 5)


def order_helpers(ctx: Ctx):
    pairs = [
        ("_RowOrderHelper", "_ColumnOrderHelper", ["_order", "_order_spec", "_prune_subtotals"]),
        ("_BaseSortRowsByValueHelper", "_BaseSortColumnsByValueHelper", ["_order"]),
        ("_SortRowsByBaseColumnHelper", "_SortColumnsByBaseRowHelper", ["_element_values", "_subtotal_values", ("_column_idx", "_row_idx")]),
        ("_SortRowsByInsertedColumnHelper", "_SortColumnsByInsertedRowHelper", ["_element_values", "_subtotal_values", "_insertion_idx"]),
        ("_SortRowsByLabelHelper", "_SortColumnsByLabelHelper", ["_element_values", "_subtotal_values"]),
        ("_BaseOrderHelper", "_BaseOrderHelper", [("_empty_row_idxs", "_empty_column_idxs"), ("_rows_dimension", "_columns_dimension")]),
    ]
    stop = lambda m: m.name in ("_measure", "_order_spec", "_rows_dimension", "_columns_dimension", "_empty_row_idxs", "_empty_column_idxs", "_element_values", "_subtotal_values", "_column_idx", "_row_idx", "_insertion_idx")
    for rname, cname, members in pairs:
        r, c = ctx.repo.cls(MA, rname), ctx.repo.cls(MA, cname)
        for mem in members:
            mr, mc = (mem, mem) if isinstance(mem, str) else mem
            er = expand(ctx.repo, r, mr, stop=lambda m, mr=mr: stop(m) and m.name != mr)
            ec = expand(ctx.repo, c, mc, stop=lambda m, mc=mc: stop(m) and m.name != mc)
            v, tt, why = compare_twins(er, ec)
            ctx.ob("order-helper-mirror", f"{MA}::{rname}.{mr} <-> {cname}.{mc}", tt[:250], u(ec)[:250], v, "row-ordering code is the mirror image of column-ordering code. " + why)
            ctx.count("order helper pairs")
    ctx.require_min("order helper pairs", 13)


def slice_properties(ctx: Ctx):
    sl = ctx.repo.cls("cubepart.py", "_Slice")
    excluded = {
        "row_order": "method", "rows_dimension_fills": "one-sided", "rows_dimension_alias": "one-sided",
    }
    n = 0
    for name, m in sorted(sl.members.items()):
        if m.kind != "lazyproperty":
            continue
        if not (name.startswith("row_") or name.startswith("rows_") or name.startswith("_row_") or name.startswith("_rows_")):
            continue
        tw = swap_ident(name)
        if tw not in sl.members or name in excluded:
            continue
        # `self._rows_dimension` is by definition `self._dimensions[0]`: expand only that alias
        # ... and private helper METHODS the twins share (`_assemble_share_sum(name)`, `_scale_mean_of_margin(margin, values)`),
        # with their literal arguments folded in
        from ..symex import fold, fold_consts

        def _stop(mm):
            if mm.name == "_rows_dimension":
                return False
            return mm.kind in ("lazyproperty", "property") or mm.name in ("_assemble_matrix", "_assemble_marginal", "_assemble_vector") or not mm.name.startswith("_")

        er = fold_consts(fold(expand(ctx.repo, sl, name, stop=_stop)))
        ec = fold_consts(fold(expand(ctx.repo, sl, tw, stop=_stop)))
        v, tt, why = compare_twins(er, ec)
        where = f"cubepart.py::_Slice.{name} <-> {tw}"
        n += 1
        ctx.count("slice property pairs")
        ctx.ob("slice-mirror", where, tt[:250], u(ec)[:250], v, "paired row/column properties of the slice are mirror images. " + why)
        # independent of the spelling: mirror twins depend on the SAME kinds of facts (FLOW read labels name the leaf
        # class and member, not the orientation): a twin that additionally depends on the display order / hidden set,
        # or on other data, is not the mirror image of the other
        from .common import slice_obj

        so = slice_obj(ctx)
        rr, rc = set(ctx.flow.member_val(so, name).reads), set(ctx.flow.member_val(so, tw).reads)
        # what the two display orders themselves depend on is set aside (sorting rows by a marginal is a listed
        # one-sided feature, so the row order reads more than the column order); WHETHER a twin goes through a
        # display order at all is compared
        order_reads = set(ctx.flow.member_val(so, "_row_order_signed_indexes").reads) | set(ctx.flow.member_val(so, "_column_order_signed_indexes").reads)
        uses_r, uses_c = "ORDER" in rr, "ORDER" in rc
        only_r, only_c = sorted((rr - rc) - order_reads), sorted((rc - rr) - order_reads)
        same = not (only_r or only_c) and uses_r == uses_c
        detail = f"{len(rr)} / {len(rc)} read labels; through a display order: {uses_r} / {uses_c}"
        if only_r or only_c:
            detail = f"only {name}: {only_r}; only {tw}: {only_c}"
        # coercions applied by one twin only (a cast, a NaN replacement, a clip ...), whatever the shape of the code
        COERCIONS = ("astype", "nan_to_num", "clip", "round", "around", "abs", "floor", "ceil", "trunc", "rint")

        def coercions(name_):
            out = []
            from ..stmts import reachable_functions as _reach

            for fn in _reach(ctx.repo, sl, name_, depth=2):
                for c in ast.walk(fn):
                    if isinstance(c, ast.Call):
                        head = c.func.attr if isinstance(c.func, ast.Attribute) else (c.func.id if isinstance(c.func, ast.Name) else "")
                        if head in COERCIONS:
                            out.append(head)
            return sorted(out)

        cr_, cc_ = coercions(name), coercions(tw)
        ctx.ob("slice-mirror.coercions", where, f"{name}: {cr_}; {tw}: {cc_}", "the same casts / NaN replacements / roundings on both sides", cr_ == cc_,
               "one twin truncates / replaces / rounds where the other does not: the two orientations of the same analysis give different values")
        ctx.ob("slice-mirror.dependence", where, detail, "both twins read the same leaf facts, and both or neither go through the display order", same,
               "one twin depends on facts (display order / hidden set, another measure) the other does not depend on")
    ctx.require_min("slice property pairs", 25)


def measure_dependence_mirror(ctx: Ctx):
    """Row / column twins among the measures of the collection depend on the SAME kinds of leaf facts (FLOW read labels
    carry no orientation): `row_proportions` <-> `column_proportions`, `rows_scale_mean` <-> `columns_scale_mean`, ...  A
    twin that stops consulting the dimension type (the wave-difference rule), or starts to read other data, is not the
    mirror image of the other - whatever shape its code has."""
    from .common import measure_blocks_reads, slice_measures_obj

    coll = slice_measures_obj(ctx)
    names = {n for c in coll.cls.mro for n, m in c.members.items() if m.kind in ("lazyproperty", "property") and not n.startswith("_")}
    n = 0
    for name in sorted(names):
        if not (name.startswith("row_") or name.startswith("rows_")):
            continue
        tw = swap_ident(name)
        if tw not in names:
            continue
        rr, rc = set(measure_blocks_reads(ctx, coll, name)), set(measure_blocks_reads(ctx, coll, tw))
        only_r, only_c = sorted(rr - rc), sorted(rc - rr)
        n += 1
        ctx.ob("measure-mirror.dependence", f"{MM}::SecondOrderMeasures.{name} <-> {tw}", f"only {name}: {only_r}; only {tw}: {only_c}" if (only_r or only_c) else f"{len(rr)} read labels on both sides",
               "both twins read the same leaf facts", not (only_r or only_c), "one twin depends on facts the other does not depend on")
    ctx.count("measure twins compared by dependence", n)
    ctx.require_min("measure twins compared by dependence", 10)


def order_dispatch_mirror(ctx: Ctx):
    """Which order helper serves a collation method is decided by two dispatch tables (`row_display_order`,
    `column_display_order`); a transform mirrored onto the other dimension of the transposed response must be served by
    the MIRROR helper.  Decision table over (collation method x kind of opposing dimension): the helper class the rows
    dispatch picks, renamed by the transposition rewrite, must be the class the columns dispatch picks (and exist)."""
    from ..dectab import DTop, ModelInterp, Raises
    from ..mirror import swap_ident
    from ..symex import SUMMARIZER
    from ..typetab import dt_value

    helper = ctx.repo.cls("matrix/assembler.py", "_BaseOrderHelper")
    cm_cls = ctx.repo.cls("enums.py", "COLLATION_METHOD")
    methods = sorted(n for n, e in cm_cls.consts.items() if isinstance(e, ast.Constant) and isinstance(e.value, str))
    if len(methods) < 5:
        raise AnalysisError("COLLATION_METHOD members not recognised")
    tables = {}
    for member, own, opp in (("row_display_order", 0, 1), ("column_display_order", 1, 0)):
        m = ctx.repo.lookup(helper, member)
        if m is None:
            raise AnalysisError(f"_BaseOrderHelper.{member} vanished")
        body = SUMMARIZER.summarize(m.node)
        # the class whose `_display_order` is returned
        sel = body.value if isinstance(body, ast.Attribute) else body
        if isinstance(sel, ast.Call):
            sel = sel.func
        tab = {}
        for cm in methods:
            for opp_type in ("CAT", "MR_SUBVAR"):
                def atoms(x, cm=cm, opp_type=opp_type, own=own, opp=opp):
                    t = u(x)
                    if t == f"dimensions[{own}].order_spec.collation_method":
                        return cm
                    if t in (f"dimensions[{opp}].dimension_type",):
                        return opp_type
                    if t == f"dimensions[{own}].dimension_type":
                        return "CAT"
                    if isinstance(x, ast.Attribute) and isinstance(x.value, ast.Name) and x.value.id == "CM":
                        return x.attr
                    if isinstance(x, ast.Attribute) and isinstance(x.value, ast.Name) and x.value.id == "DT":
                        return dt_value(ctx.repo, x.attr)
                    if isinstance(x, ast.Name) and x.id.startswith("_") and x.id.endswith("Helper"):
                        return x.id
                    raise KeyError

                try:
                    got = ModelInterp(atoms).ev(sel)
                except (DTop, Raises) as exc:
                    ctx.undecided("order-dispatch-mirror", f"matrix/assembler.py::_BaseOrderHelper.{member}", "DECTAB: " + str(exc), "helper class per collation method")
                    return
                tab[(cm, opp_type)] = got
        tables[member] = tab
    module = ctx.repo.module("matrix/assembler.py")
    n = 0
    for key in sorted(tables["row_display_order"]):
        n += 1
        r, c = tables["row_display_order"][key], tables["column_display_order"][key]
        want = "_" + swap_ident(r.lstrip("_")) if isinstance(r, str) else None
        # _SortRowsByBaseColumnHelper -> _SortColumnsByBaseRowHelper (CamelCase segments)
        if isinstance(r, str):
            want = re.sub(r"Rows|Columns|Row|Column", lambda mo: {"Rows": "Columns", "Columns": "Rows", "Row": "Column", "Column": "Row"}[mo.group(0)], r)
        where = f"matrix/assembler.py::_BaseOrderHelper.column_display_order [{key[0]}, opposing dimension {'array' if key[1] != 'CAT' else 'categorical'}]"
        if not isinstance(r, str) or not isinstance(c, str):
            ctx.undecided("order-dispatch-mirror", where, f"rows: {r!r}, columns: {c!r}", "helper classes")
        elif c == want:
            ctx.held("order-dispatch-mirror", where, c, f"the mirror of {r}")
        else:
            ctx.violated("order-dispatch-mirror", where, f"{c} (rows get {r})", f"{want}" + ("" if want in module.classes else " - no such class"),
                         "the same order transform mirrored onto the columns of the transposed response is served by another helper (payload order / another measure): labels, index lists and every measure stop being each other's counterparts")
    ctx.count("order dispatch cases", n)
    ctx.require_min("order dispatch cases", 10)
