"""AXIS in block mode: derive the normal form of one block (base / inserted rows /
inserted columns / intersections) of a base-like measure in terms of cube-measure arrays
and ``SumSubtotals`` results."""
from __future__ import annotations

import ast
import re
from typing import Dict, List, Optional, Tuple

from ..axes import AV, AxisEval, Ratio, RoleClash, Shape, Top, source
from ..core import Ctx
from ..loader import ClassInfo
from ..symex import expand, u

HANDLES = {
    "self._cube_measures.weighted_cube_counts": "W",
    "self._cube_measures.unweighted_cube_counts": "U",
    "self._cube_measures.weighted_squared_cube_counts": "Q",
}
ARR2 = {"row_bases", "column_bases", "table_bases", "counts"}
ARR1 = {"rows_base": "R", "columns_base": "C", "rows_table_base": "R", "columns_table_base": "C"}

SUB_ROLES = {
    "subtotal_rows": ("Rins", "C"),
    "subtotal_columns": ("R", "Cins"),
    "intersections": ("Rins", "Cins"),
}


def _flag(kwargs: Dict[str, ast.expr], args: List[ast.expr], name: str, pos: int) -> str:
    v = kwargs.get(name)
    if v is None and len(args) > pos:
        v = args[pos]
    if v is None:
        return "F"
    if isinstance(v, ast.Constant) and isinstance(v.value, bool):
        return "T" if v.value else "F"
    return u(v)


def make_hook(ctx: Ctx):
    def hook(e: ast.expr, ev: AxisEval):
        t = u(e)
        # cube-measure arrays
        if isinstance(e, ast.Attribute):
            base = u(e.value)
            if base in HANDLES:
                h = HANDLES[base]
                if e.attr in ARR2:
                    return source(f"{h}.{e.attr}", ("R", "C"))
                if e.attr in ARR1:
                    return source(f"{h}.{e.attr}", (ARR1[e.attr],))
        # tuple(len(dimension.subtotals) for dimension in self._dimensions)
        if t == "tuple((len(dimension.subtotals) for dimension in self._dimensions))":
            return Shape(("Rins", "Cins"))
        if (
            isinstance(e, ast.Call)
            and isinstance(e.func, ast.Attribute)
            and isinstance(e.func.value, ast.Name)
            and e.func.value.id == "SumSubtotals"
            and e.func.attr in SUB_ROLES
        ):
            if len(e.args) < 2 or u(e.args[1]) != "self._dimensions":
                raise Top("SumSubtotals call without self._dimensions")
            x = ev.eval(e.args[0])
            if not isinstance(x, AV) or tuple(x.roles) != ("R", "C"):
                raise Top("SumSubtotals base is not a (R,C) array")
            kw = {k.arg: k.value for k in e.keywords if k.arg}
            cols = _flag(kw, e.args, "diff_cols_nan", 2)
            rows = _flag(kw, e.args, "diff_rows_nan", 3)
            meth = e.func.attr
            inner = x.normal_form(with_src=True)
            # only the flag of the summed direction influences values of that block
            if meth == "subtotal_rows":
                name = f"SumSubRows[{inner}; diff_rows_nan={rows}]"
            elif meth == "subtotal_columns":
                name = f"SumSubCols[{inner}; diff_cols_nan={cols}]"
            else:
                name = f"SumSubInts[{inner}; diff_rows_nan={rows},diff_cols_nan={cols}]"
            return source(name, SUB_ROLES[meth])
        return None

    return hook


_EMPTY_TEST = re.compile(r"\.shape\[(0|1)\] == 0$")


def derive_block(ctx: Ctx, ci: ClassInfo, member: str) -> Tuple[str, str]:
    """-> ('nf', text) | ('top', why) | ('clash', why).  Values used only through `.shape`
    contribute only their roles (their flags / contents are irrelevant)."""
    e = expand(ctx.repo, ci, member)
    ev = AxisEval({}, hook=make_hook(ctx))
    note = ""
    try:
        while isinstance(e, ast.IfExp):
            tt = u(e.test)
            if _EMPTY_TEST.search(tt):
                short = ev.eval(e.body)
                main = ev.eval(e.orelse)
                if isinstance(short, AV) and isinstance(main, AV) and short.roles == main.roles:
                    note = " (+empty short-cut)"
                    e = e.orelse
                    continue
                return ("top", f"empty short-cut with different roles: {tt}")
            return ("top", f"guard {tt[:80]}")
        v = ev.eval(e)
    except Top as t:
        return ("top", f"{t} in {u(e)[:100]}")
    except RoleClash as rc:
        return ("clash", str(rc))
    if isinstance(v, AV):
        return ("nf", v.normal_form(with_src=True))
    return ("top", f"non-array {v!r}")
