"""C19 - array items may be referenced by alias, sub-variable id or element id alike."""
from __future__ import annotations

import ast
from typing import Any, Dict, List, Optional, Tuple

from ..core import Ctx
from ..dectab import DTop, ModelInterp, Raises
from ..symex import SUMMARIZER, expand, strip_ifexp_paths, u

DIM = "dimension.py"
MA = "matrix/assembler.py"


def run(ctx: Ctx):
    ctx.explanation = (
        "DECTAB: the resolution cascade of translate_element_id is evaluated over models of an array dimension (with and "
        "without inserted items) and of a datetime dimension for every spelling class of every item (alias, element id as "
        "int / str, sub-variable id, position as int / str) and for stale / malformed references (unknown string, "
        "out-of-range and NEGATIVE numbers, None): every spelling of item k must resolve to item k, everything else to "
        "'no item', nothing may raise; must-pass-through: every transform slot that takes an element reference is "
        "rewritten through it, the three late translations use the OPPOSING dimension; unknown references are dropped."
    )
    ctx.not_decided = ["spellings that collide across namespaces in real data (an alias equal to another item's sub-variable id ...)"]
    ctx.assumptions = ["aliases, sub-variable ids and element ids of one dimension are pairwise disjoint namespaces, except numeric strings vs numbers"]
    cascade_array(ctx)
    cascade_datetime(ctx)
    identity_other(ctx)
    slots(ctx)
    slot_independence(ctx)
    fresh_partition_dimension(ctx)
    late_translations(ctx)
    element_id(ctx)
    unknown_refs(ctx)
    element_transform_keys(ctx)
    cascade_tables_model(ctx)
    from .common import generic_lints

    generic_lints(ctx)
    from .common import shim_leaves_transforms_alone

    shim_leaves_transforms_alone(ctx)
    from .common import nullable_key_agreement

    nullable_key_agreement(ctx)
    from .common import zip_pairing

    zip_pairing(ctx, "pairing", "dimension.py", "_ElementIdShim")
    from .common import id_truthiness

    id_truthiness(ctx)


def _model(with_insertions: bool, items=None) -> Dict[str, Any]:
    """A model array dimension: items (alias, raw element id, sub-variable id, is-insertion)."""
    if items is not None:
        pass
    elif not with_insertions:
        items = [("A0", 1, "0001", False), ("A1", 2, "0002", False), ("A2", 3, "0003", False)]
    else:
        # zz9 places derived items among the real ones; raw ids are positions incl. insertions
        items = [("INS_top", 0, "a+b", True), ("A0", 1, "1", False), ("INS_mid", 2, "b+c", True), ("A1", 3, "2", False), ("A2", 4, "3", False)]
    elements = []
    for alias, rid, sid, ins in items:
        refs = {"alias": alias}
        if ins:
            refs["anchor"] = "top"
        elements.append({"id": rid, "value": {"id": sid, "references": refs, "derived": ins}})
    return {
        "items": items,
        "dimension_dict": {"type": {"elements": elements}, "references": {"view": {"transform": {"insertions": [{"name": "x"}] if with_insertions else []}}}},
    }


def _spellings(model, k: int) -> List[Tuple[str, Any]]:
    alias, rid, sid, ins = model["items"][k]
    raw_ids = [r for _a, r, _s, _i in model["items"]]
    out = [("alias", alias), ("element id (int)", rid), ("sub-variable id", sid)]
    if not any(i for *_x, i in model["items"]) or True:
        out.append(("element id (str)", str(rid)))
    # position k as a number that is no element id
    if k not in raw_ids:
        out.append(("position (int)", k))
        out.append(("position (str)", str(k)))
    return out


def _eval_translate(ctx: Ctx, body: ast.expr, model, _id, mr_insertion: bool):
    items = model["items"]

    def atoms(e: ast.expr):
        if isinstance(e, ast.Attribute):
            t = u(e)
            if t == "self._subvar_aliases":
                return tuple(a for a, *_ in items)
            if t == "self._raw_element_ids":
                return tuple(r for _a, r, *_ in items)
            if t == "self._subvar_ids":
                return tuple(s for _a, _r, s, _i in items)
            if t == "self._has_mr_insertion":
                return mr_insertion
            if t == "self._dimension_dict":
                return model["dimension_dict"]
            if t == "self.dimension_type":
                return "MR"
            if t == "DT.SHIMMED_TYPES":
                return {"MR", "CA", "NUM_ARRAY", "DATETIME"}
            if t == "DT.DATETIME":
                return "DATETIME"
        raise KeyError

    it = ModelInterp(atoms, {"_id": _id})
    ci = ctx.repo.cls(DIM, "_ElementIdShim")

    def members(name):
        m = ctx.repo.lookup(ci, name)
        return m.node if m is not None and m.kind in ("lazyproperty", "property") else None

    it.members = members
    return it.ev(body)


def cascade_array(ctx: Ctx):
    ci = ctx.repo.cls(DIM, "_ElementIdShim")
    m = ctx.repo.lookup(ci, "translate_element_id")
    body = SUMMARIZER.summarize(m.node)
    where = f"{DIM}::_ElementIdShim.translate_element_id"
    n = 0
    bad: List[str] = []
    undec = None
    for with_ins, shifted in ((False, False), (False, True), (True, False)):
        model = _model(with_ins) if not shifted else _model(False, _SHIFTED["items"])
        tag = "MR with inserted items" if with_ins else ("array, digit-string sub-variable ids" if shifted else "array")
        cases: List[Tuple[str, Any, Optional[str]]] = []
        for k, (alias, rid, sid, ins) in enumerate(model["items"]):
            for kind, spelling in _spellings(model, k):
                if with_ins and kind.startswith("position"):
                    continue
                if with_ins and kind == "element id (str)" and ins:
                    continue  # a numeric string names the k-th REAL item when insertions exist (documented special case)
                if with_ins and kind == "sub-variable id" and not ins and spelling.isdigit():
                    continue  # numeric sub-variable ids of real items collide with element-id strings by construction of this model
                cases.append((f"{kind} of item {k}", spelling, alias))
        nitems = len(model["items"])
        for label, val in (("unknown string", "nope"), ("out-of-range int", 99), ("out-of-range numeric string", "99"), ("None", None), ("negative int", -1), ("negative numeric string", "-1"), ("negative int (-n)", -nitems)):
            cases.append((f"stale reference: {label}", val, None))
        # a reference that is no id at all (an id wrapped in a list / an object): matches nothing, ignored like any other
        for label, val in (("a list", ["A0"]), ("an object", {"id": 1})):
            cases.append((f"malformed reference: {label}", val, None))
        for label, spelling, want in cases:
            n += 1
            try:
                got = _eval_translate(ctx, body, model, spelling, with_ins)
            except Raises as r:
                bad.append(f"[{tag}] {label} ({spelling!r}) raises {r.etype}")
                continue
            except DTop as t:
                undec = str(t)
                break
            if got != want:
                bad.append(f"[{tag}] {label} ({spelling!r}) -> {got!r}, specified {want!r}")
        if undec:
            break
    ctx.count("spelling cases (array)", n)
    if undec:
        ctx.undecided("cascade", where, "DECTAB: " + undec, "decision list over spellings")
    elif bad:
        ctx.violated("cascade", where, "; ".join(bad[:5]) + (f" ... ({len(bad)} cases)" if len(bad) > 5 else ""), "every spelling of item k -> alias of item k; references that match nothing -> None (ignored); nothing raises", "resolution cascade: alias, element id, [numeric string among real items], sub-variable id, int(element id), zero-based position, else None")
    else:
        ctx.held("cascade", where, f"{n} (model, spelling) cases resolve as specified, none raises", "all spellings of an item agree; stale references -> None")
    ctx.require_min("spelling cases (array)", 35)
    # structural order of the cascade (guards in order)
    guards = []
    for gs, _leaf in strip_ifexp_paths(body):
        for g, _p in gs:
            t = u(g)
            if t not in guards:
                guards.append(t)
    want_prefix = ["self.dimension_type not in DT.SHIMMED_TYPES", "self.dimension_type == DT.DATETIME", "_id in self._subvar_aliases", "_id in self._raw_element_ids", "self._has_mr_insertion"]
    # the wanted guards in this RELATIVE order (other guards may stand between them); all present in another order: violated
    pos = [guards.index(w) if w in guards else None for w in want_prefix]
    if None in pos:
        verdict = None
    else:
        verdict = pos == sorted(pos)
    ctx.ob("cascade.order", where, [g for g in guards if g in want_prefix], want_prefix, verdict, "an alias is recognised FIRST (which makes re-translation of an already translated id the identity)")


def cascade_datetime(ctx: Ctx):
    ci = ctx.repo.cls(DIM, "_ElementIdShim")
    m = ctx.repo.lookup(ci, "translate_element_id")
    body = SUMMARIZER.summarize(m.node)
    where = f"{DIM}::_ElementIdShim.translate_element_id [datetime]"
    # element 3 is the MISSING element: its "value" in the response is the dict {"?": -1}
    values = {0: "2020-01", 1: "2020-02", 2: "2020-03", 3: {"?": -1}}

    def atoms(e):
        if isinstance(e, ast.Attribute):
            t = u(e)
            if t == "self.dimension_type":
                return "DATETIME"
            if t == "DT.SHIMMED_TYPES":
                return {"MR", "CA", "NUM_ARRAY", "DATETIME"}
            if t == "DT.DATETIME":
                return "DATETIME"
            if t == "self._element_values_dict":
                return values
        raise KeyError

    cases = []
    HASHABLE = object()  # the reference names only the missing element: whatever it resolves to must be usable as a key
    for k, v in values.items():
        if isinstance(v, dict):
            cases += [(f"position id (int) of the missing element {k}", k, HASHABLE), (f"position id (str) of the missing element {k}", str(k), HASHABLE)]
            continue
        cases += [(f"position id (int) of element {k}", k, v), (f"position id (str) of element {k}", str(k), v), (f"value of element {k}", v, v)]
    cases += [("stale value", "1999-01", "1999-01"), ("stale position", 42, 42), ("None", None, None)]
    # strings str.isnumeric() accepts and int() rejects (superscripts, fractions); a reference that is no id at all
    NORAISE = object()
    cases += [("numeric-looking string int() rejects", "\u00b2", "\u00b2"), ("fraction character", "\u00bd", "\u00bd"), ("malformed reference: a list", [1], NORAISE), ("malformed reference: an object", {"id": 1}, NORAISE)]
    bad = []
    for label, val, want in cases:
        try:
            got = ModelInterp(atoms, {"_id": val}).ev(body)
        except Raises as r:
            bad.append(f"{label} ({val!r}) raises {r.etype}")
            continue
        except DTop as t:
            ctx.undecided("cascade-datetime", where, "DECTAB: " + str(t), "")
            return
        if want is NORAISE:
            continue
        if want is HASHABLE:
            if isinstance(got, (dict, list, set)):
                bad.append(f"{label} ({val!r}) -> {got!r}: an unhashable 'id' (TypeError wherever ids are looked up); a reference that matches no valid element is ignored")
            continue
        if got != want:
            bad.append(f"{label} ({val!r}) -> {got!r}, specified {want!r}")
    ctx.count("spelling cases (datetime)", len(cases))
    if bad:
        ctx.violated("cascade-datetime", where, "; ".join(bad[:5]), "position id (int or numeric string) -> the element's value; a value -> itself; anything else unchanged; nothing raises")
    else:
        ctx.held("cascade-datetime", where, f"{len(cases)} spellings resolve as specified", "datetime elements may be referenced by position id or by value")
    e = expand(ctx.repo, ci, "_element_values_dict", stop=lambda mm: True)
    ctx.check_expr("cascade-datetime", f"{DIM}::_ElementIdShim._element_values_dict", e, "{el['id']: el['value'] for el in self._dimension_dict['type']['elements']}")


def identity_other(ctx: Ctx):
    dim = ctx.repo.cls(DIM, "Dimension")
    m = ctx.repo.lookup(dim, "translate_element_id")
    body = SUMMARIZER.summarize(m.node)
    ctx.check_expr("cascade.entry", f"{DIM}::Dimension.translate_element_id", body, "self._element_id_shim.translate_element_id(_id)")
    # whatever the spelling: for EVERY dimension type the shim translates (array types and datetime) the public entry
    # point used by the late translation hands the reference to the same cascade as the early rewriting does
    from ..dectab import DTop, Raises, Sym, SymInterp
    from ..typetab import dt_members, dt_value

    SHIMMED_SPEC = {"CA_SUBVAR", "MR_SUBVAR", "NUM_ARRAY", "DATETIME"}
    bad, n, undec = [], 0, None
    for mem in dt_members(ctx.repo):
        def atoms(x, mem=mem):
            t = u(x)
            if t == "self.dimension_type":
                return mem
            if t == "self._element_id_shim.translate_element_id(_id)":
                return Sym("CASCADE")
            if t == "_id":
                return Sym("_id")
            if isinstance(x, ast.Attribute) and isinstance(x.value, ast.Name) and x.value.id == "DT":
                return dt_value(ctx.repo, x.attr)
            raise KeyError

        try:
            got = SymInterp(atoms).ev(body)
        except (DTop, Raises) as exc:
            undec = str(exc)
            break
        n += 1
        if mem in SHIMMED_SPEC and got != Sym("CASCADE"):
            bad.append(f"{mem}: {got!r} (specified: the shim's cascade)")
    if undec:
        ctx.undecided("cascade.entry-table", f"{DIM}::Dimension.translate_element_id", "DECTAB: " + undec, "delegation for every shimmed type")
    else:
        ctx.ob("cascade.entry-table", f"{DIM}::Dimension.translate_element_id", bad or f"{n} dimension types", "every shimmed type (array types, datetime) goes through the cascade", not bad,
               "a type translated early (hide / rename / order rewriting) but passed through untranslated late resolves the same spelling differently")
    e = expand(ctx.repo, dim, "_element_id_shim", stop=lambda mm: True)
    ctx.check_expr("cascade.entry", f"{DIM}::Dimension._element_id_shim", e, "_ElementIdShim(self.dimension_type, self._unshimmed_dimension_dict, self._unshimmed_dimension_transforms_dict)")
    ci = ctx.repo.cls(DIM, "_ElementIdShim")
    for prop, want in (
        ("_subvar_aliases", "tuple((element.get('value', {}).get('references', {}).get('alias', element['id']) for element in self._dimension_dict['type']['elements']))"),
        ("_raw_element_ids", "tuple((element['id'] for element in self._dimension_dict['type']['elements']))"),
    ):
        e = expand(ctx.repo, ci, prop, stop=lambda mm: True)
        ctx.check_expr("cascade.tables", f"{DIM}::_ElementIdShim.{prop}", e, want, "the three tables enumerate the same element list in the same order (position k of each refers to item k)")
    e = expand(ctx.repo, ci, "_subvar_ids", stop=lambda mm: True)
    ctx.check_expr("cascade.tables", f"{DIM}::_ElementIdShim._subvar_ids", e, "__try__(tuple((element['value']['id'] for element in self._dimension_dict['type']['elements'])), (KeyError, tuple()))")


def slots(ctx: Ctx):
    ci = ctx.repo.cls(DIM, "_ElementIdShim")
    from ..effects import inventory
    from ..exprdiff import canon
    from ..stmts import reachable_functions, resolver

    def passes_cascade(method: str) -> bool:
        # a call of the cascade, or the bound method taken as a value (`translate = self.translate_element_id`)
        return any(isinstance(n, ast.Attribute) and n.attr == "translate_element_id" for f in reachable_functions(ctx.repo, ci, method, depth=3) for n in ast.walk(f)) or method == "translate_element_id"

    wanted = {"store 'elements'": "element-transform keys", "store 'element_ids'": "explicit order ids", "store 'top'": "fixed top list", "store 'bottom'": "fixed bottom list"}
    seen = {}
    for w in inventory(ctx.repo):
        if w.member.cls is not ci or w.sig not in wanted or w.kind != "store":
            continue
        # the statement that performs the store
        stmt = next((n for n in ast.walk(w.member.node) if isinstance(n, ast.Assign) and getattr(n, "lineno", -1) == w.lineno), None)
        if stmt is None:
            continue
        res = resolver(w.member.node)
        through = False
        for v in res(stmt.value):
            for c in ast.walk(v):
                if isinstance(c, ast.Call) and isinstance(c.func, ast.Attribute) and isinstance(c.func.value, ast.Name) and c.func.value.id == "self" and passes_cascade(c.func.attr):
                    through = True
        seen.setdefault(w.sig, []).append((w.member.name, through, u(stmt.value)[:70]))
    for sig, what in wanted.items():
        where = f"{DIM}::_ElementIdShim [{what}]"
        if sig not in seen:
            ctx.undecided("slots", where, "no store of this slot found", "rewritten through the cascade")
            continue
        for member, through, val in seen[sig]:
            ctx.ob("slots", where + f" in {member}", val, "value passes through translate_element_id", through, "element-transform keys, explicit order ids and both fixed lists are rewritten through the cascade")
            ctx.count("rewritten transform slots")
    ctx.require_min("rewritten transform slots", 4)
    b = {"element_ids": ast.Name(id="element_ids", ctx=ast.Load())}
    body = SUMMARIZER.summarize(ctx.repo.lookup(ci, "_replaced_order_element_ids").node, b)
    ctx.check_expr("slots", f"{DIM}::_ElementIdShim._replaced_order_element_ids", body, "[self.translate_element_id(_id) for _id in element_ids]")
    m = ctx.repo.lookup(ci, "_replaced_element_transforms")
    body = SUMMARIZER.summarize(m.node)
    where = f"{DIM}::_ElementIdShim._replaced_element_transforms"
    comps = [n for n in ast.walk(body) if isinstance(n, ast.DictComp)]
    if not comps:
        ctx.undecided("slots.drop-unknown", where, u(body)[:160], "{nkey: ... if nkey is not None}")
    for dc in comps[:1]:
        conds = [u(canon(i)) for g in dc.generators for i in g.ifs]
        key = u(dc.key)
        ok_drop = any(c == f"{key} is not None" for c in conds)
        ctx.ob("slots.drop-unknown", where, u(dc)[:200], "{nkey: ... if nkey is not None}", True if ok_drop else (False if not conds else None), "element transforms whose key matches nothing are dropped, never raised")
    uses_translate = passes_cascade("_replaced_element_transforms")
    ctx.ob("slots", where + " [default keys]", uses_translate, True, True if uses_translate else None, "keys are translated by the same cascade")


def slot_independence(ctx: Ctx, rule: str = "slots.independent"):
    """The explicit order ids, the fixed top list and the fixed bottom list are three independent slots of one order dict (a
    sort-by-value order may carry a stale / empty `element_ids`): whether one is rewritten through the cascade may depend
    only on ITS OWN presence.  Guards of every slot store (dominance incl. early returns) are inspected for the key of a
    different slot."""
    from ..effects import inventory
    from ..stmts import enclosing_guards, resolver

    ci = ctx.repo.cls(DIM, "_ElementIdShim")
    own = {"store 'element_ids'": ("element_ids",), "store 'top'": ("top", "fixed"), "store 'bottom'": ("bottom", "fixed")}
    others = {"store 'element_ids'": ("'fixed'", "'top'", "'bottom'"), "store 'top'": ("'element_ids'", "'bottom'"), "store 'bottom'": ("'element_ids'", "'top'")}
    n = 0
    for w in inventory(ctx.repo):
        if w.member.cls is not ci or w.sig not in own or w.kind != "store":
            continue
        fn = w.member.node
        stmt = next((x for x in ast.walk(fn) if isinstance(x, ast.Assign) and getattr(x, "lineno", -1) == w.lineno), None)
        if stmt is None:
            continue
        n += 1
        res = resolver(fn, multi=True)
        foreign = []
        for test, pol in enclosing_guards(fn, stmt):
            for v in res(test):
                t = u(v)
                for key in others[w.sig]:
                    # `for anchor in ("top", "bottom")`: the loop variable stands for the slot's own key
                    if key in t and not any(f"'{o}'" == key for o in own[w.sig]):
                        foreign.append(f"{'' if pol else 'not '}({u(test)[:70]}) mentions {key}")
        where = f"{DIM}::_ElementIdShim.{w.member.name} [{w.sig}]"
        if foreign:
            ctx.violated(rule, where, sorted(set(foreign))[:3], "guarded by the slot's own presence only",
                         "an order dict carrying both an `element_ids` list and fixed lists gets only one of them translated: items pinned by id / sub-variable id are silently not pinned")
        else:
            ctx.held(rule, where, "guards mention no other slot", "")
    ctx.count("order slot stores", n)
    if n < 3:
        ctx.undecided(rule, f"{DIM}::_ElementIdShim", f"{n} of 3 slot stores located", "stores of element_ids / top / bottom")


def fresh_partition_dimension(ctx: Ctx):
    """The dimension a partition translates opposing-element ids with is built by `Dimension.apply_transforms`, from the
    UNSHIMMED dimension dict and the dimension's FINAL type.  The cube-level object is not a substitute: `Dimensions.from_dicts`
    promotes CA_SUBVAR to MR_SUBVAR after members of the dimension (hence its cached id shim) may already have been read, so
    that object can carry a shim of the stale type (no MR-insertion special case).  Every path of `apply_transforms` returns a
    new Dimension; a path returning `self` is the violation."""
    dc = ctx.repo.cls(DIM, "Dimension")
    m = ctx.repo.lookup(dc, "apply_transforms")
    where = f"{DIM}::Dimension.apply_transforms"
    if m is None:
        ctx.undecided("late-translation.fresh-dimension", where, "member not found", "")
        return
    body = SUMMARIZER.summarize(m.node)
    leaves = [l for _g, l in strip_ifexp_paths(body)]
    shared = [u(l) for l in leaves if u(l) in ("self",) or (isinstance(l, ast.Attribute) and isinstance(l.value, ast.Name) and l.value.id == "self")]
    fresh = [l for l in leaves if isinstance(l, ast.Call) and u(l.func) in ("Dimension", "type(self)", "self.__class__", "cls")]
    verdict = False if shared else (True if fresh and len(fresh) == len(leaves) else None)
    ctx.ob("late-translation.fresh-dimension", where, shared or [u(l)[:90] for l in leaves][:2], "Dimension(self._unshimmed_dimension_dict, self.dimension_type, <transforms>) on every path", verdict,
           "the shared cube-level dimension may hold an id shim cached before its type was promoted to MR_SUBVAR: ids of an MR with inserted items written as numeric strings then resolve to ANOTHER item in sort-by-opposing-element transforms")
    for l in fresh:
        args = [u(a) for a in l.args]
        ok = len(args) >= 2 and args[0] == "self._unshimmed_dimension_dict" and args[1] == "self.dimension_type"
        ctx.ob("late-translation.fresh-dimension", where + " [arguments]", args[:2], "['self._unshimmed_dimension_dict', 'self.dimension_type']", True if ok else None, "re-shimmed from the raw dict with the final type")


def late_translations(ctx: Ctx):
    for cname, member, dim, spec_attr in (
        ("_SortRowsByBaseColumnHelper", "_column_idx", "self._columns_dimension", "element_id"),
        ("_SortRowsByDerivedColumnHelper", "_column_idx", "self._columns_dimension", "insertion_id"),
        ("_SortColumnsByBaseRowHelper", "_row_idx", "self._rows_dimension", "element_id"),
    ):
        ci = ctx.repo.cls(MA, cname)
        e = expand(ctx.repo, ci, member, stop=lambda m: m.name in ("_columns_dimension", "_rows_dimension", "_order_spec"))
        want = f"{dim}.element_ids.index({dim}.translate_element_id(self._order_spec.{spec_attr}))"
        ctx.check_expr("late-translation", f"{MA}::{cname}.{member}", e, want, "the opposing element reference is translated by the OPPOSING dimension before it is looked up among that dimension's element ids")
        # must-pass-through, independent of the spelling: the argument of .index(...) is a translate_element_id(...) call
        idx_calls = [n for n in ast.walk(e) if isinstance(n, ast.Call) and isinstance(n.func, ast.Attribute) and n.func.attr == "index"]
        raw = [u(c.args[0]) for c in idx_calls if c.args and not (isinstance(c.args[0], ast.Call) and isinstance(c.args[0].func, ast.Attribute) and c.args[0].func.attr == "translate_element_id")]
        if idx_calls:
            ctx.ob("late-translation.pass-through", f"{MA}::{cname}.{member}", raw or "index(translate_element_id(...))", "the id looked up among the shimmed element ids went through translate_element_id", not raw, "element ids of an array dimension are aliases after shimming; an untranslated sub-variable id / element id matches nothing")
        ctx.count("late translations")
        if spec_attr == "element_id":
            _late_model(ctx, f"{MA}::{cname}.{member}", e, dim)
    ctx.require_min("late translations", 3)
    ctx.require_min("late-translation spelling cases", 20)


_SHIFTED = {
    # sub-variable ids that are all-digit strings whose VALUE is another item's element id: "0001" names item 1,
    # but int("0001") == 1 is the element id of item 0
    "items": [("A0", 1, "0000", False), ("A1", 2, "0001", False), ("A2", 3, "0002", False)],
}


def _late_model(ctx: Ctx, where: str, e: ast.expr, dim: str):
    """DECTAB over the WHOLE late translation (whatever is done to the reference before and after the cascade):
    every spelling of item k of the opposing array dimension must select index k."""
    ci = ctx.repo.cls(DIM, "_ElementIdShim")
    cascade = SUMMARIZER.summarize(ctx.repo.lookup(ci, "translate_element_id").node)
    models = [_model(False), _model(False, _SHIFTED["items"])]
    bad: List[str] = []
    n = 0
    for mi, model in enumerate(models):
        aliases = tuple(a for a, *_ in model["items"])
        for k in range(len(model["items"])):
            for kind, spelling in _spellings(model, k):
                if kind.startswith("position"):
                    continue

                def atoms(x: ast.expr, spelling=spelling):
                    t = u(x)
                    if t == "self._order_spec.element_id":
                        return spelling
                    if t == dim:
                        return {".element_ids": aliases}
                    raise KeyError

                class _I(ModelInterp):
                    def _call(self, c: ast.Call, it):
                        if isinstance(c.func, ast.Attribute) and c.func.attr == "translate_element_id" and u(c.func.value) == dim and len(c.args) == 1:
                            return _eval_translate(ctx, cascade, model, self.ev(c.args[0]), False)
                        return super()._call(c, it)

                    def ev(self, x):
                        # nested interpreters created by the base class must keep the override
                        return super().ev(x)

                n += 1
                try:
                    got = _I(atoms).ev(e)
                except Raises as r:
                    bad.append(f"{kind} of item {k} ({spelling!r}) raises {r.etype}")
                    continue
                except DTop as t:
                    ctx.undecided("late-translation.model", where, "DECTAB: " + str(t), "index of the referenced item")
                    ctx.count("late-translation spelling cases", n)
                    return
                if got != k:
                    bad.append(f"{kind} of item {k} ({spelling!r}) selects index {got!r}")
    ctx.count("late-translation spelling cases", n)
    if bad:
        ctx.violated("late-translation.model", where, "; ".join(bad[:4]) + (f" ... ({len(bad)} cases)" if len(bad) > 4 else ""), "every spelling of item k selects index k",
                     "whatever is done to the reference before the cascade changes which rule captures it")
    else:
        ctx.held("late-translation.model", where, f"{n} (model, item, spelling) cases select the referenced item", "every spelling of item k selects index k")


def element_id(ctx: Ctx):
    mod = ctx.repo.module(DIM)
    fn = mod.functions.get("_build_element_id")
    if fn is None:
        from ..loader import AnalysisError

        raise AnalysisError("_build_element_id vanished")
    body = SUMMARIZER.summarize(fn)
    ctx.check_expr(
        "element-id",
        f"{DIM}::_build_element_id",
        body,
        "element_dict['datetime_value'] if dimension_type == DT.DATETIME and 'datetime_value' in element_dict else "
        "element_dict['subvar_alias'] if dimension_type in DT.ARRAY_TYPES and 'subvar_alias' in element_dict else element_dict['id']",
        "after shimming, an array item's id is its alias and a datetime element's id is its value",
    )
    en = ctx.repo.cls("enums.py", "DIMENSION_TYPE")
    ctx.check_expr("element-id", "enums.py::DIMENSION_TYPE.SHIMMED_TYPES", en.consts["SHIMMED_TYPES"], "frozenset((CA_SUBVAR, MR_SUBVAR, NUM_ARRAY, DATETIME))")
    ctx.check_expr("element-id", "enums.py::DIMENSION_TYPE.ARRAY_TYPES", en.consts["ARRAY_TYPES"], "frozenset((CA_SUBVAR, MR_SUBVAR, NUM_ARRAY))")


def unknown_refs(ctx: Ctx):
    sv = ctx.repo.cls("collator.py", "SortByValueCollator")
    m = ctx.repo.lookup(sv, "_iter_fixed_idxs")
    # decision table (DECTAB) of the generator summarised as the list it yields: known ids (0 included) give their payload
    # idx in the listed order, ids matching nothing (stale, None) are skipped, nothing raises
    from ..dectab import DTop, ModelInterp, Raises

    where_f = "collator.py::SortByValueCollator._iter_fixed_idxs"
    body = expand(ctx.repo, sv, "_iter_fixed_idxs", bind={"fixed_element_ids": ast.Name(id="fixed_element_ids", ctx=ast.Load())}, stop=lambda mm: mm.name == "_element_ids")
    ids = (5, 0, "x", 7)
    bad, undec = [], None
    for fixed, want_v in (((0,), [1]), ((7, 5), [3, 0]), ((9, "x", None, 0), [2, 1]), ((), []), ((None,), []), (("zz",), [])):
        def atoms(x, fixed=fixed):
            t = u(x)
            if t == "self._element_ids":
                return ids
            if t == "fixed_element_ids":
                return fixed
            raise KeyError

        try:
            got = list(ModelInterp(atoms).ev(body))
        except Raises as r:
            bad.append(f"fixed ids {fixed}: raises {r.etype}")
            continue
        except DTop as t:
            undec = str(t)
            break
        if got != want_v:
            bad.append(f"fixed ids {fixed} -> {got}, specified {want_v}")
    if undec:
        ctx.undecided("unknown-ignored", where_f, "DECTAB: " + undec, "known ids -> their idx in listed order; unknown ids skipped")
    else:
        ctx.ob("unknown-ignored", where_f, bad[:3] or "6 id lists", "known ids (0 included) -> their payload idx in listed order; ids matching nothing (incl. None) skipped; nothing raises", not bad, "a fixed id that matches nothing (incl. None) is skipped")
    ex = ctx.repo.cls("collator.py", "ExplicitOrderCollator")
    m = ctx.repo.lookup(ex, "_element_order_descriptors")
    from ..orderkit import explicit_order_facts

    f = explicit_order_facts(m.node)
    where = "collator.py::ExplicitOrderCollator._element_order_descriptors"
    if f["unguarded_pop"]:
        ctx.violated("unknown-ignored", where, f["unguarded_pop"], "pop under `id in map`", "an explicit-order id that matches nothing would raise KeyError")
    else:
        ctx.ob("unknown-ignored", where, f"pop guarded by membership: {f['listed_pop_guarded']}", "an explicit-order id that matches nothing (incl. None) is ignored", True if f["listed_pop_guarded"] else None)


# --------------------------------------------------------------------------- element-transform keys, as a model
def element_transform_keys(ctx: Ctx):
    """DECTAB over `_replaced_element_transforms` (with the cascade it calls): an `elements` transform dict whose keys
    spell items as alias, sub-variable id or element id - uniformly or MIXED in one dict - is rewritten to the aliases
    of the same items; keys that match nothing are dropped; a dict flagged `key: alias` is left alone."""
    ci = ctx.repo.cls(DIM, "_ElementIdShim")
    m = ctx.repo.lookup(ci, "_replaced_element_transforms")
    where = f"{DIM}::_ElementIdShim._replaced_element_transforms"
    if m is None:
        ctx.undecided("slots.keys-model", where, "member not found", "")
        return
    body = expand(ctx.repo, ci, "_replaced_element_transforms", bind={"element_transforms": ast.Name(id="element_transforms", ctx=ast.Load())}, stop=lambda mm: mm.name in ("translate_element_id", "_subvar_aliases", "_subvar_ids", "_raw_element_ids", "_has_mr_insertion", "_dimension_dict"))
    cascade = SUMMARIZER.summarize(ctx.repo.lookup(ci, "translate_element_id").node)
    model = _model(False, _SHIFTED["items"])
    items = model["items"]
    T = {"hide": True}

    def spell(k, kind):
        alias, rid, sid, _ = items[k]
        return {"alias": alias, "subvar": sid, "int": rid, "str": str(rid)}[kind]

    cases = []
    for kinds in (("alias", "alias"), ("subvar", "subvar"), ("int", "int"), ("str", "str"), ("alias", "subvar"), ("alias", "int"), ("alias", "str"), ("subvar", "str"), ("subvar", "alias")):
        d = {spell(0, kinds[0]): T, spell(2, kinds[1]): T}
        cases.append((f"item 0 as {kinds[0]}, item 2 as {kinds[1]}", d, {items[0][0]: T, items[2][0]: T}))
    cases.append(("stale key next to an alias", {"nope": T, items[1][0]: T}, {items[1][0]: T}))
    cases.append(("flagged key: alias", {"key": "alias", items[1][0]: T}, {"key": "alias", items[1][0]: T}))
    bad, n = [], 0
    for label, d, want in cases:
        def atoms(x, d=d):
            t = u(x)
            if t == "element_transforms":
                return d
            if t == "self._subvar_aliases":
                return tuple(a for a, *_ in items)
            if t == "self._subvar_ids":
                return tuple(s_ for _a, _r, s_, _i in items)
            if t == "self._raw_element_ids":
                return tuple(r for _a, r, *_ in items)
            if t == "self.dimension_type":
                return "MR_SUBVAR"
            if isinstance(x, ast.Attribute) and isinstance(x.value, ast.Name) and x.value.id == "DT":
                from ..typetab import dt_value

                return dt_value(ctx.repo, x.attr)
            raise KeyError

        class _I(ModelInterp):
            def _call(self, c, it):
                if isinstance(c.func, ast.Attribute) and c.func.attr == "translate_element_id" and len(c.args) == 1:
                    return _eval_translate(ctx, cascade, model, self.ev(c.args[0]), False)
                return super()._call(c, it)

        try:
            got = _I(atoms).ev(body)
        except Raises as r:
            bad.append(f"{label}: raises {r.etype}")
            continue
        except DTop as t:
            ctx.undecided("slots.keys-model", where, "DECTAB: " + str(t), "every spelling of a key -> the item's alias")
            return
        n += 1
        if got != want:
            bad.append(f"{label}: {sorted(map(str, got)) if isinstance(got, dict) else got!r} (specified {sorted(map(str, want))})")
    ctx.count("element-transform key cases", n)
    ctx.ob("slots.keys-model", where, bad[:3] or f"{n} dicts (uniform and mixed spellings, stale and flagged keys)", "every key -> alias of the same item; unknown keys dropped; a flagged dict unchanged", not bad,
           "hide / rename apply to the same item whichever way - and in whichever company - its key is spelled")


def cascade_tables_model(ctx: Ctx):
    """The three parallel tables the cascade looks ids up in - aliases, raw element ids, sub-variable ids - hold, for EVERY item of
    the dimension (inserted / derived items included), the alias, the element id and `value.id` of that item, in payload
    order.  The lazyproperties are executed over the model dimensions of the cascade rule: a table that leaves out or blanks
    some kind of item (None for derived ones) makes that spelling of those items resolve to nothing - or to another item."""
    from ..dectab import DTop, ModelInterp, Raises, exec_function

    ci = ctx.repo.cls(DIM, "_ElementIdShim")
    n, bad, undec = 0, [], None
    for with_ins in (False, True):
        model = _model(with_ins)
        items = model["items"]
        want = {"_subvar_aliases": tuple(a for a, *_ in items), "_raw_element_ids": tuple(r for _a, r, *_ in items), "_subvar_ids": tuple(s for _a, _r, s, _i in items),
                # the "MR with inserted items" special case is switched by what the DIMENSION carries (its view's insertions are
                # its derived items), whatever the analysis transforms list - here an empty "insertions" list
                "_has_mr_insertion": (with_ins,)}
        for member, expected in want.items():
            m = ctx.repo.lookup(ci, member)
            if m is None or m.kind not in ("lazyproperty", "property"):
                continue

            def atoms(e, model=model):
                t = u(e)
                if t == "self._dimension_dict":
                    return model["dimension_dict"]
                if t == "self._dimension_transforms_dict":
                    return {"insertions": []}
                if t == "self.dimension_type":
                    return "MR_SUBVAR"
                if isinstance(e, ast.Attribute) and isinstance(e.value, ast.Name) and e.value.id == "DT":
                    return e.attr
                raise KeyError

            it = ModelInterp(atoms, {})
            it.members = lambda name: (lambda mm: mm.node if mm is not None and mm.kind in ("lazyproperty", "property") else None)(ctx.repo.lookup(ci, name))
            it.methods = lambda name: (lambda mm: mm.node if mm is not None and mm.kind in ("method", "staticmethod", "classmethod") else None)(ctx.repo.lookup(ci, name))
            try:
                got = exec_function(it, m.node, {})
            except Raises as r:
                bad.append(f"{member} ({'with' if with_ins else 'without'} inserted items) raises {r.etype}")
                continue
            except DTop as t_:
                undec = f"{member}: {t_}"
                continue
            n += 1
            if member == "_has_mr_insertion":
                got = (bool(got),)
            if tuple(got) != expected:
                bad.append(f"{member} ({'with' if with_ins else 'without'} inserted items) = {tuple(got)!r}, the items' own values are {expected!r}")
    ctx.count("id tables executed over the model", n)
    where = f"{DIM}::_ElementIdShim [_subvar_aliases, _raw_element_ids, _subvar_ids]"
    if bad:
        ctx.violated("cascade.tables.model", where, "; ".join(bad[:3]), "each table lists the alias / element id / value.id of every item in payload order", "a spelling of the blanked items resolves to nothing or to another item")
    elif undec or n < 8:
        ctx.undecided("cascade.tables.model", where, "DECTAB: " + str(undec), "each table lists its value for every item")
    else:
        ctx.held("cascade.tables.model", where, f"{n} (table, model) evaluations", "each table lists the alias / element id / value.id of every item in payload order")
