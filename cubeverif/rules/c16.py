"""C16 - column index compares column share with the unconditional row share."""
from __future__ import annotations

import ast
import itertools

from ..axes import AV, AxisEval, Ratio, RoleClash, Top, source
from ..core import Ctx
from ..loader import AnalysisError
from ..normform import equal
from ..specs import layout as L
from ..symex import SUMMARIZER, expand, strip_ifexp_paths, u
from . import layouts as LY
from .common import data_labels, measure_blocks_reads, slice_measures_obj, transform_reads
from .gridcheck import SOM, check_divisions

MM = "matrix/measure.py"
MRPAIRS = [("CAT", "CAT"), ("CAT", "MR"), ("MR", "CAT"), ("MR", "MR")]


def run(ctx: Ctx):
    ctx.explanation = (
        "AXIS on the four baseline variants (sel axes of extent 3, element axes including missing): the column side is "
        "reduced over its FULL range, the row side is the row element (selected plane for MR) over everybody eligible "
        "for it, restricted to valid rows; the factory feeds counts-with-missings, which never passes the valid-element "
        "grid; NORM: index = 100 (N/colbase)/baseline on the base blocks; NaN subtotals; FLOW: the baseline depends on "
        "no display transform."
    )
    # first: the public accessors each have a cache slot of their own (attributes produced by one lazyproperty factory share
    # the slot of the wrapped function's name - `column_index` would return whatever `smoothed_column_index` cached)
    from .common import shared_cache_slots

    shared_cache_slots(ctx, "public-alias.cache-slot", "cubepart.py", "_Slice", ("column_index", "smoothed_column_index"))
    baselines(ctx)
    valid_rows_by_index_not_range(ctx)
    source_table(ctx)
    factory(ctx)
    from .common import slice_index_space

    slice_index_space(ctx, "baseline-source.index-space")
    slice_argument(ctx)
    valid_rows_table(ctx)
    formula(ctx)
    independence(ctx)
    from .common import no_shared_writes

    no_shared_writes(ctx, "no-shared-write")
    from .common import generic_lints

    generic_lints(ctx)
    from .common import dependency_footprints

    dependency_footprints(ctx)
    no_explicit_nan(ctx)
    from .common import public_values_assembled

    public_values_assembled(ctx, "public-assembled", "_Slice", ("column_index",))


def _ops_text(av: AV) -> str:
    return " ".join(f"{r}:{op.text()}" for r, op in zip(av.src_roles, av.ops))


def baselines(ctx: Ctx):
    disp = LY.factory_dispatch(ctx, LY.MCM, "_BaseUnconditionalCubeCounts", MRPAIRS, lambda t: t == "cube.dimension_types[-2:]")
    for pair in MRPAIRS:
        picked = disp.get(pair)
        where0 = f"{LY.MCM}::_BaseUnconditionalCubeCounts.factory[{pair}]"
        if picked is None:
            ctx.undecided("dispatch", where0, "no class derived for this pair", "a baseline class for every MR/non-MR pair")
            continue
        ci, _leaf = picked
        rmr, cmr = pair[0] == "MR", pair[1] == "MR"
        leaves = {"self._counts_with_missings": source("cwm", L.src_roles(*pair))}
        e = expand(ctx.repo, ci, "baseline")
        where = f"{LY.MCM}::{ci.name}.baseline"
        ctx.count("baseline variants")
        try:
            v = AxisEval(leaves).eval(e)
        except Top as t:
            ctx.undecided("baseline-layout", where, f"AXIS: {t}", L.baseline(rmr, cmr))
            continue
        except RoleClash as rc:
            ctx.violated("baseline-layout", where, f"role clash: {rc}", L.baseline(rmr, cmr))
            continue
        if not isinstance(v, Ratio) or not isinstance(v.num, AV) or not isinstance(v.den, AV):
            ctx.undecided("baseline-layout", where, f"not a ratio of two reductions: {v!r}", L.baseline(rmr, cmr))
            continue
        text = _ops_text(v.num) + "  /  " + _ops_text(v.den)
        if rmr:
            text = text.replace("R:K[valid]", "R:K*").replace("R:K ", "R:K* ")
        exp = L.baseline(rmr, cmr)
        ctx.ob(
            "baseline-layout",
            where,
            text,
            exp,
            text == exp,
            "unconditional row share: members of the row element over everybody eligible for it, counted regardless of whether the column answer is valid or missing (column axes summed over their full range)",
        )
        want_shape = ["R", "C"] if cmr else ["R", "1"]
        ctx.ob("baseline-shape", where, v.roles, want_shape, list(v.roles) == want_shape, "one baseline per row (per cell for MR columns), aligned with the rows of the column proportions")
    ctx.require_min("baseline variants", 4)
    base = ctx.repo.cls(LY.MCM, "_BaseUnconditionalCubeCounts")
    e = expand(ctx.repo, base, "_valid_row_idxs")
    ctx.check_expr("baseline-valid-rows", f"{LY.MCM}::_BaseUnconditionalCubeCounts._valid_row_idxs", e, "np.ix_(self._dimensions[-2].valid_elements.element_idxs)", "valid rows of the ROWS dimension")


def source_table(ctx: Ctx):
    """`Cube.counts_with_missings` is a decision over which count measures the response carries.  Evaluated (DECTAB) for
    all 16 presence combinations against the specified cascade - the SAME precedence by which the numerator's counts
    are chosen (weighted valid counts, else unweighted valid counts, else weighted counts when the cube is weighted,
    else unweighted counts): otherwise a weighted column share is divided by an unweighted row share."""
    import itertools

    count_cascade(ctx, "baseline-source.cascade", "counts_with_missings", ["weighted_valid_counts", "unweighted_valid_counts", "weighted_counts", "unweighted_counts"],
                  "weighted valid > unweighted valid > weighted > unweighted counts (raw arrays incl. missing elements)",
                  "the baseline uses the same counts (and weighting) as the column proportion it is compared with")


def inline_measures_calls(ctx: Ctx, e: ast.expr) -> ast.expr:
    """`self._measures.<method>(args)` replaced by the summary of `_Measures.<method>` with its parameters bound (literal flags
    decide its branches) and `self.` inside it re-rooted at `self._measures.`."""
    import copy as _copy

    from ..symex import SUMMARIZER, fold_consts

    ms = ctx.repo.cls("cube.py", "_Measures")

    class _Reroot(ast.NodeTransformer):
        def visit_Name(self, n):
            return ast.Attribute(value=ast.Name(id="self", ctx=ast.Load()), attr="_measures", ctx=ast.Load()) if n.id == "self" else n

    class _Inline(ast.NodeTransformer):
        def visit_Call(self, n):
            self.generic_visit(n)
            if isinstance(n.func, ast.Attribute) and u(n.func.value) == "self._measures":
                m = ctx.repo.lookup(ms, n.func.attr)
                if m is not None and m.kind in ("method", "staticmethod", "classmethod") and isinstance(m.node, ast.FunctionDef):
                    params = [p_ for p_ in m.params if p_ not in ("self", "cls")]
                    bind = dict(zip(params, n.args))
                    bind.update({k.arg: k.value for k in n.keywords if k.arg in params})
                    if len(bind) == len(params):
                        try:
                            body = fold_consts(SUMMARIZER.summarize(m.node, {k: _copy.deepcopy(v) for k, v in bind.items()}))
                        except Exception:
                            return n
                        return _Reroot().visit(body)
            return n

    return ast.fix_missing_locations(_Inline().visit(_copy.deepcopy(e)))


def count_source_table(ctx: Ctx, member: str):
    """{(weighted valid counts present, unweighted valid counts present, weighted counts present): name of the count
    measure `Cube.<member>` hands out} - or a string saying why the table could not be derived."""
    from ..dectab import DTop, Raises, Sym, SymInterp
    from ..symex import distribute_attr, fold_consts

    cube = ctx.repo.cls("cube.py", "Cube")
    if ctx.repo.lookup(cube, member) is None:
        raise AnalysisError(f"Cube.{member} vanished")
    e = expand(ctx.repo, cube, member, stop=lambda m: m.name not in (member, "has_weighted_counts", "weighted_counts", "counts_with_missings") and not (m.name.startswith("_") and m.cls.name == "Cube" and m.name not in ("_measures", "_valid_idxs", "_all_dimensions", "_cube_response")))
    e = distribute_attr(fold_consts(inline_measures_calls(ctx, e)))
    names = ["weighted_valid_counts", "unweighted_valid_counts", "weighted_counts", "unweighted_counts"]
    table = {}
    for combo in itertools.product((True, False), repeat=3):
        present = dict(zip(names[:3], combo))
        present["unweighted_counts"] = True

        def atoms(x, present=present):
            t = u(x)
            for nm in names:
                if t == f"self._measures.{nm}":
                    return Sym(f"self._measures.{nm}") if present[nm] else None
            raise KeyError

        class _I(SymInterp):
            def compare(self, op, a, b):
                if isinstance(op, (ast.Is, ast.IsNot)) and (a is None or b is None):
                    same = a is None and b is None
                    return same if isinstance(op, ast.Is) else not same
                return super().compare(op, a, b)

        try:
            got = _I(atoms).ev(e)
        except (DTop, Raises) as exc:
            return "DECTAB: " + str(exc)
        got_t = got.text if isinstance(got, Sym) else repr(got)
        sel = [nm for nm in names if f"self._measures.{nm}" in got_t]
        if len(sel) != 1:
            return f"selected measure not recognisable in {got_t[:80]}"
        table[combo] = sel[0]
    return table


def count_cascade(ctx: Ctx, rule: str, member: str, order, expected_text: str, detail: str):
    """Which count measure a Cube accessor hands out, as a decision table over the measures PRESENT in the response."""
    from ..dectab import DTop, Raises, Sym, SymInterp
    from ..symex import distribute_attr, fold_consts

    cube = ctx.repo.cls("cube.py", "Cube")
    where = f"cube.py::Cube.{member}"
    if ctx.repo.lookup(cube, member) is None:
        raise AnalysisError(f"Cube.{member} vanished")
    e = expand(ctx.repo, cube, member, stop=lambda m: m.name not in (member, "has_weighted_counts", "weighted_counts") and not (m.name.startswith("_") and m.cls.name == "Cube" and m.name not in ("_measures", "_valid_idxs", "_all_dimensions", "_cube_response")))
    e = distribute_attr(fold_consts(inline_measures_calls(ctx, e)))
    names = ["weighted_valid_counts", "unweighted_valid_counts", "weighted_counts", "unweighted_counts"]
    bad, n, undec = [], 0, None
    for combo in itertools.product((True, False), repeat=3):
        present = dict(zip(names[:3], combo))
        present["unweighted_counts"] = True

        def atoms(x, present=present):
            t = u(x)
            for nm in names:
                if t == f"self._measures.{nm}":
                    return Sym(f"self._measures.{nm}") if present[nm] else None
            raise KeyError

        class _I(SymInterp):
            def compare(self, op, a, b):  # `X is None` / `is not None` on a present measure object
                if isinstance(op, (ast.Is, ast.IsNot)) and (a is None or b is None):
                    same = a is None and b is None
                    return same if isinstance(op, ast.Is) else not same
                return super().compare(op, a, b)

        try:
            got = _I(atoms).ev(e)
        except (DTop, Raises) as exc:
            undec = str(exc)
            break
        n += 1
        want = next(f"self._measures.{nm}" for nm in order if present[nm])
        got_t = got.text if isinstance(got, Sym) else repr(got)
        # the measure object that is selected, whatever is read off it afterwards (.raw_cube_array, [valid idxs], .astype)
        sel = [nm for nm in names if f"self._measures.{nm}" in got_t]
        if len(sel) != 1:
            undec = f"selected measure not recognisable in {got_t[:80]}"
            break
        if f"self._measures.{sel[0]}" != want:
            bad.append(f"{ {k: v for k, v in present.items() if k != 'unweighted_counts'} }: {sel[0]} (specified {want.split('.')[-1]})")
    ctx.count("count-measure presence combinations", n)
    if undec:
        ctx.undecided(rule, where, "DECTAB: " + undec, "cascade over the count measures present")
    else:
        ctx.ob(rule, where, bad[:3] or f"{n} presence combinations", expected_text, not bad, detail)


def factory(ctx: Ctx):
    ci = ctx.repo.cls(LY.MCM, "_BaseUnconditionalCubeCounts")
    body = LY.factory_body(ctx, ci)
    want = ["cube.counts_with_missings[cls._slice_idx_expr(cube, slice_idx)]",
            "(cube.counts_with_missings[np.array(cube.dimensions[0].valid_elements.element_idxs)] if len(cube.dimension_types) > 2 else cube.counts_with_missings)[cls._slice_idx_expr(cube, slice_idx)]"]
    n_leaves = 0
    for guards, leaf in strip_ifexp_paths(body):
        if isinstance(leaf, ast.Call) and len(leaf.args) >= 2 and not (isinstance(leaf.func, ast.Name) and leaf.func.id.startswith("__")):
            n_leaves += 1
            tag = " & ".join(("" if pol else "not ") + u(g)[:50] for g, pol in guards if "dimension_types[-2:]" not in u(g) and "dimension_types ==" not in u(g))
            ctx.check_expr("baseline-source", f"{LY.MCM}::_BaseUnconditionalCubeCounts.factory" + (f" [{tag}]" if tag else ""), leaf.args[1], want,
                           "the baseline is computed from the counts INCLUDING missing elements, restricted to this slice by the shared slice-index expression (selected plane of an MR tabs dimension)")
            # must-pass-through: the table of a 3-D cube is selected by the shared slice-index expression (which picks
            # the SELECTED plane of a multiple-response tabs dimension); a bare `[slice_idx]` keeps all three planes
            subs = [n for n in ast.walk(leaf.args[1]) if isinstance(n, ast.Subscript) and "counts_with_missings" in u(n.value)]
            for sub in subs:
                idx = u(sub.slice)
                where = f"{LY.MCM}::_BaseUnconditionalCubeCounts.factory [{u(sub)[:70]}]"
                if "_slice_idx_expr" in idx:
                    ctx.held("baseline-source.slice-restriction", where, idx, "cls._slice_idx_expr(cube, slice_idx)")
                elif idx == "slice_idx":
                    ctx.violated("baseline-source.slice-restriction", where, idx, "cls._slice_idx_expr(cube, slice_idx)",
                                 "the numerator (column proportion) is restricted to respondents who SELECTED the tabs item; a baseline over all planes of the tabs dimension compares it with a different population")
                elif "valid_elements.element_idxs" in idx:
                    pass  # the restriction of the table axis to its valid elements (index-space rule)
                else:
                    ctx.undecided("baseline-source.slice-restriction", where, f"table selected by {idx}", "cls._slice_idx_expr(cube, slice_idx)")
    ctx.count("baseline constructor leaves", n_leaves)
    ctx.require_min("baseline constructor leaves", 1)
    som = slice_measures_obj(ctx)
    cm = next(iter(ctx.flow.member_val(som, "_cube_measures").objs))
    v = ctx.flow.member_val(cm, "unconditional_cube_counts")
    reads = set()
    for o in v.objs:
        reads |= ctx.flow.member_val(o, "baseline").reads
    labels = data_labels(reads)
    ctx.ob("baseline-provenance", f"{LY.MCM}::CubeMeasures.unconditional_cube_counts.baseline", sorted(labels), "['W*']", (labels == {"W*"}) if labels else None, "only counts-with-missings feed the baseline")
    ctx.ob("baseline-independence", f"{LY.MCM}::CubeMeasures.unconditional_cube_counts.baseline", sorted(transform_reads(reads)), "[]", not transform_reads(reads), "hiding / pruning / ordering plays no part in who is eligible")


def valid_rows_table(ctx: Ctx):
    """`_valid_row_idxs` selects, from the with-missings rows, exactly the valid rows of the rows dimension - wherever the
    missing ones sit.  The selector is evaluated (DECTAB) on models of the valid offsets: missing last, missing FIRST,
    interleaved, a single valid row, and compared with the offsets themselves."""
    from ..dectab import DTop, IndexInterp, Raises, selected

    ci = ctx.repo.cls(LY.MCM, "_BaseUnconditionalCubeCounts")
    m = ctx.repo.lookup(ci, "_valid_row_idxs")
    where = f"{LY.MCM}::_BaseUnconditionalCubeCounts._valid_row_idxs"
    if m is None:
        ctx.undecided("baseline-valid-rows.table", where, "member not found", "selector of the valid rows")
        return
    body = SUMMARIZER.summarize(m.node)
    models = [(0, 1, 2), (1, 2, 3), (2, 3, 4, 5), (0, 2, 4), (0, 1, 3), (3,), (0,), (1, 4)]
    bad, n = [], 0
    try:
        for idxs in models:
            def atoms(x, idxs=idxs):
                t = u(x)
                if t in ("self._dimensions[-2].valid_elements.element_idxs", "self._dimensions[0].valid_elements.element_idxs", "self._rows_dimension.valid_elements.element_idxs"):
                    return idxs
                raise KeyError

            n += 1
            try:
                got = selected(IndexInterp(atoms).ev(body), (6,))[0]
            except Raises as r:
                bad.append(f"valid offsets {idxs}: raises {r.etype}")
                continue
            if tuple(got) != tuple(idxs):
                bad.append(f"valid offsets {idxs}: rows {tuple(got)} selected")
    except DTop as t:
        ctx.undecided("baseline-valid-rows.table", where, "DECTAB: " + str(t), "selector evaluated on models of the valid offsets")
        return
    ctx.count("valid-row selector models", n)
    ctx.ob("baseline-valid-rows.table", where, bad[:4] or f"{n} layouts of missing rows: the valid offsets themselves are selected", "rows at the valid offsets, in order", not bad,
           "a missing category listed BEFORE the valid ones shifts every baseline onto another row's share")
    ctx.require_min("valid-row selector models", 8)


def slice_argument(ctx: Ctx):
    """The factory already restricts the table axis to the valid table elements, so the slice index it receives must be
    the ordinal among valid elements - i.e. the partition's own `_slice_idx`, untranslated (a second translation picks a
    later table's baseline)."""
    cm = ctx.repo.cls(LY.MCM, "CubeMeasures")
    where = f"{LY.MCM}::CubeMeasures.unconditional_cube_counts"
    body = SUMMARIZER.summarize(ctx.repo.lookup(cm, "unconditional_cube_counts").node)
    n = 0
    for _g, leaf in strip_ifexp_paths(body):
        if isinstance(leaf, ast.Call) and u(leaf.func).endswith(".factory"):
            from .common import positional_args

            callee = ctx.repo.lookup(ctx.repo.cls(LY.MCM, "_BaseUnconditionalCubeCounts"), "factory")
            args = positional_args(ctx, leaf, callee) if callee is not None else None
            if args is None:
                ctx.undecided("baseline-source.slice-argument", where, u(leaf)[:120], "arguments bound to (cube, dimensions, slice_idx)")
                n += 1
                continue
            tail = [u(a) for a in args[-3:]]
            n += 1
            ctx.ob("baseline-source.slice-argument", where, tail, "[self._cube, self._dimensions, self._slice_idx]", tail == ["self._cube", "self._dimensions", "self._slice_idx"],
                   "the factory indexes the valid-table-restricted array by the partition's ordinal")
    if not n:
        ctx.undecided("baseline-source.slice-argument", where, "factory call not found", "_BaseUnconditionalCubeCounts.factory(self._cube, self._dimensions, self._slice_idx)")


def formula(ctx: Ctx):
    ci = ctx.repo.cls(MM, "_ColumnIndex")
    e = expand(ctx.repo, ci, "_column_index")
    v, cnf, snf, _ = equal(
        e,
        f"100 * ({SOM}.weighted_counts.blocks[0][0] / {SOM}.column_weighted_bases.blocks[0][0]) / self._cube_measures.unconditional_cube_counts.baseline",
    )
    if v is None:
        ctx.undecided("index-formula", f"{MM}::_ColumnIndex._column_index", cnf, "")
    else:
        ctx.ob("index-formula", f"{MM}::_ColumnIndex._column_index", cnf, snf, v, "index = 100 x column proportion / baseline, on the base block")
    check_divisions(ctx, "errstate", ci, ["_column_index"])
    e = expand(ctx.repo, ci, "blocks", stop=lambda m: m.name == "_column_index")
    ctx.check_expr("index-subtotals", f"{MM}::_ColumnIndex.blocks", e, "NanSubtotals.blocks(self._column_index, self._dimensions)", "NaN for inserted subtotals")
    cs = ctx.repo.cls(MM, "_ColumnIndexSmoothed")
    e = expand(ctx.repo, cs, "blocks", stop=lambda m: m.name in ("_column_index", "_smoother"))
    ctx.check_expr("index-subtotals", f"{MM}::_ColumnIndexSmoothed.blocks", e, "NanSubtotals.blocks(self._smoother.smooth(self._column_index), self._dimensions)", "the smoothed variant differs only by the smoother")
    sl = ctx.repo.cls("cubepart.py", "_Slice")
    e = expand(ctx.repo, sl, "column_index", stop=lambda m: True)
    ctx.check_expr("public-wiring", "cubepart.py::_Slice.column_index", e, "self._assemble_matrix(self._measures.column_index.blocks)")


def independence(ctx: Ctx):
    som = slice_measures_obj(ctx)
    reads = measure_blocks_reads(ctx, som, "column_index")
    labels = data_labels(reads)
    ctx.ob("index-provenance", f"{MM}::SecondOrderMeasures.column_index", sorted(labels), "['W', 'W*']", (labels == {"W", "W*"}) if labels else None)


def no_explicit_nan(ctx: Ctx):
    """"NaN for inserted subtotals and where either share is undefined": undefinedness ARISES from the two divisions (0/0);
    the only explicit NaN is the subtotal machinery (NanSubtotals).  Any other explicit NaN in the column-index classes
    (np.where(mask, np.nan, ..), a masked store, np.full(.., np.nan)) blanks cells by some other criterion - e.g. rows
    empty by their VALID base, whose unconditional share is positive and whose index is 0, not NaN."""
    mod = ctx.repo.module(MM)
    n, bad = 0, []
    for ci in mod.classes.values():
        if "columnindex" not in ci.name.lower():
            continue
        for m in ci.members.values():
            n += 1
            for c in ast.walk(m.node):
                if isinstance(c, ast.Call) and u(c.func) in ("np.where", "np.full", "np.full_like", "np.putmask", "np.place") and any(u(a) in ("np.nan", "np.NaN", "float('nan')") for a in c.args):
                    bad.append(f"{ci.name}.{m.name}: {u(c)[:80]}")
                if isinstance(c, ast.Assign) and isinstance(c.targets[0], ast.Subscript) and u(c.value) in ("np.nan", "np.NaN", "float('nan')"):
                    bad.append(f"{ci.name}.{m.name}: {u(c)[:80]}")
    ctx.count("column-index members scanned for explicit NaN", n)
    ctx.require_min("column-index members scanned for explicit NaN", 3)
    if bad:
        ctx.violated("index-nan", f"{MM}::_ColumnIndex*", bad, "NaN only from the divisions and from NanSubtotals", "cells are blanked by another criterion than an undefined share")
    else:
        ctx.held("index-nan", f"{MM}::_ColumnIndex*", "no explicit NaN besides NanSubtotals", "")


def valid_rows_by_index_not_range(ctx: Ctx):
    """The counts-with-missings still carry the MISSING elements of every axis, wherever they stand in the payload: the valid
    rows are selected by their OFFSETS (`[self._valid_row_idxs]`).  A leading range of as many rows as there are valid
    elements (`[:len(valid_elements)]`) is the valid rows only while no missing element precedes a valid one."""
    from ..stmts import resolver

    ctl = ast.parse("def baseline(self):\n    nrows = len(self._dimensions[-2].valid_elements)\n    return np.sum(self._counts_with_missings[:nrows], axis=2)[:, 0]\ndef ok(self):\n    return np.sum(self._counts_with_missings, axis=2)[:, 0][self._valid_row_idxs]\n")

    def hits_in(fn):
        res = resolver(fn, multi=True)
        out = []
        for n in ast.walk(fn):
            if not (isinstance(n, ast.Subscript) and "with_missings" in u(n.value)):
                continue
            parts = n.slice.elts if isinstance(n.slice, ast.Tuple) else [n.slice]
            for p in parts:
                if isinstance(p, ast.Slice):
                    for bound in (p.lower, p.upper):
                        if bound is not None and any("valid_elements" in u(v) or "valid_row_idxs" in u(v) or "valid_idxs" in u(v) for v in res(bound)):
                            out.append(u(n)[:90])
        return out

    if len(hits_in(ctl.body[0])) != 1 or hits_in(ctl.body[1]):
        raise AnalysisError("valid-rows-by-index: the controls are no longer recognised")
    mod = ctx.repo.module(LY.MCM)
    n, hits = 0, []
    for ci in mod.classes.values():
        if "Unconditional" not in ci.name:
            continue
        for m in ci.members.values():
            n += 1
            for t in hits_in(m.node):
                hits.append((f"{LY.MCM}::{ci.name}.{m.name}", t))
    ctx.count("unconditional-count members scanned for ranged row selection", n)
    ctx.require_min("unconditional-count members scanned for ranged row selection", 5)
    for where, t in hits:
        ctx.violated("baseline-rows.by-index", where, t, "the valid rows selected by their offsets (self._valid_row_idxs)", "with a missing element ahead of a valid one the range drops the LAST row instead of the missing one: every later row is divided by another element's share")
    if not hits:
        ctx.held("baseline-rows.by-index", "unconditional cube counts", f"{n} members, no range of the raw axis bounded by the number of valid elements", "", "controls recognised")
