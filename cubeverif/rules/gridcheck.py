"""Helpers for block-wise (2x2) measure classes: per-block NORM comparison with a spec
template, errstate coverage of divisions."""
from __future__ import annotations

import ast
from typing import Callable, Dict, List, Optional, Tuple

from ..blocks import matrix_templates
from ..core import Ctx
from ..loader import ClassInfo, Member
from ..normform import equal
from ..symex import SUMMARIZER, u

SOM = "self._second_order_measures"
POS = {(0, 0): "base values", (0, 1): "inserted columns", (1, 0): "inserted rows", (1, 1): "intersections"}


def grid_of(ctx: Ctx, ci: ClassInfo):
    kind, val, guards = matrix_templates(ctx.repo, ci)
    return kind, val, guards


def check_grid_formula(ctx: Ctx, rule: str, ci: ClassInfo, spec: Callable[[int, int], str], why: str, allow_abs: bool = False) -> bool:
    """Every block (i,j) of `ci.blocks` equals spec(i,j) as a rational/radical normal form."""
    kind, grid, _g = grid_of(ctx, ci)
    where = f"{ci.module.short}::{ci.name}.blocks"
    if kind != "grid":
        ctx.undecided(rule, where, f"blocks is not a 2x2 list ({kind})", "2x2 grid of block formulas")
        return False
    for i in (0, 1):
        for j in (0, 1):
            verdict, code_nf, spec_nf, notes = equal(grid[i][j], spec(i, j))
            w = f"{where}[{i}][{j}] ({POS[(i, j)]})"
            ctx.count("block formula obligations")
            if verdict is None:
                ctx.undecided(rule, w, code_nf + " in " + u(grid[i][j])[:100], spec(i, j))
            else:
                ctx.ob(rule, w, code_nf, spec_nf, verdict, why + (" [" + ",".join(notes) + "]" if notes else ""))
    return True


def errstate_ok(with_node: ast.With) -> bool:
    for item in with_node.items:
        c = item.context_expr
        if isinstance(c, ast.Call) and u(c.func) == "np.errstate":
            kw = {k.arg: u(k.value) for k in c.keywords}
            if kw.get("divide") == "'ignore'" and kw.get("invalid") == "'ignore'":
                return True
    return False


def unguarded_divisions(fn: ast.FunctionDef) -> List[ast.BinOp]:
    """Division nodes of a function that are not lexically inside np.errstate(divide/invalid ignore)."""
    out: List[ast.BinOp] = []
    # a LOCAL function (or lambda bound to a name) runs where it is CALLED: its divisions are guarded when every call of it
    # in the enclosing function lies inside an errstate block (and it is not handed out as a value)
    local_fns = {n.name: n for n in ast.walk(fn) if isinstance(n, ast.FunctionDef) and n is not fn}
    calls_guarded = {name: [] for name in local_fns}
    escapes = set()

    def scan_calls(node, guarded, inside):
        if isinstance(node, ast.With) and errstate_ok(node):
            guarded = True
        if isinstance(node, ast.FunctionDef) and node is not fn:
            inside = node.name
        if isinstance(node, ast.Call) and isinstance(node.func, ast.Name) and node.func.id in local_fns:
            calls_guarded[node.func.id].append(guarded or (inside is not None and inside != node.func.id and None))
        elif isinstance(node, ast.Name) and node.id in local_fns and isinstance(node.ctx, ast.Load):
            escapes.add(node.id)  # refined below: a Name that is the func of a Call is not an escape
        for c in ast.iter_child_nodes(node):
            scan_calls(c, guarded, inside)

    scan_calls(fn, False, None)
    called = {c.func.id for c in ast.walk(fn) if isinstance(c, ast.Call) and isinstance(c.func, ast.Name)}
    n_name_loads = {name: sum(1 for x in ast.walk(fn) if isinstance(x, ast.Name) and x.id == name and isinstance(x.ctx, ast.Load)) for name in local_fns}
    n_calls = {name: sum(1 for c in ast.walk(fn) if isinstance(c, ast.Call) and isinstance(c.func, ast.Name) and c.func.id == name) for name in local_fns}
    safe_local = {name for name in local_fns if n_calls[name] >= 1 and n_calls[name] == n_name_loads[name] and all(g is True for g in calls_guarded[name])}

    def rec(node, guarded):
        if isinstance(node, ast.With) and errstate_ok(node):
            guarded = True
        if isinstance(node, ast.FunctionDef) and node is not fn and node.name in safe_local:
            guarded = True
        if isinstance(node, ast.BinOp) and isinstance(node.op, ast.Div) and not guarded:
            out.append(node)
        for c in ast.iter_child_nodes(node):
            rec(c, guarded)

    rec(fn, False)
    return out


def reads_guarded(ci: ClassInfo, ctx: Ctx, member: str) -> Optional[bool]:
    """True if every read `self.<member>` inside the class hierarchy of `ci` happens lexically
    inside an errstate block; None if there is no reader."""
    any_reader = False
    for c in ci.mro:
        for m in c.members.values():

            def rec(node, guarded):
                nonlocal any_reader
                ok = True
                if isinstance(node, ast.With) and errstate_ok(node):
                    guarded = True
                if isinstance(node, ast.Attribute) and node.attr == member and isinstance(node.value, ast.Name) and node.value.id == "self":
                    any_reader = True
                    if not guarded:
                        ok = False
                for ch in ast.iter_child_nodes(node):
                    ok = rec(ch, guarded) and ok
                return ok

            if not rec(m.node, False):
                return False
    return True if any_reader else None


def check_divisions(ctx: Ctx, rule: str, ci: ClassInfo, members: List[str]):
    for name in members:
        m = ctx.repo.lookup(ci, name)
        if m is None:
            continue
        bad = unguarded_divisions(m.node)
        where = f"{m.cls.module.short}::{ci.name}.{name}"
        if not bad:
            ctx.held(rule, where, "every division inside np.errstate(divide='ignore', invalid='ignore')", "zero bases give NaN without warning/exception")
            continue
        rg = reads_guarded(ci, ctx, name)
        ctx.ob(
            rule,
            where,
            f"{len(bad)} division(s) outside errstate: {u(bad[0])[:80]}; readers guarded: {rg}",
            "every division is evaluated under np.errstate(divide='ignore', invalid='ignore') (lexically, or in a member read only inside such a block)",
            rg is True,
            "NaN exactly where the base is zero - no exception, no warning promoted to an error",
        )
