"""C07 - anchored ordering: payload or explicit element order with subtotals at anchors."""
from __future__ import annotations

import ast
from typing import Any, List, Optional

from ..core import Ctx
from ..loader import AnalysisError
from ..dectab import DTop, ModelInterp, Raises
from ..symex import SUMMARIZER, expand, strip_ifexp_paths, u

COL = "collator.py"
DIM = "dimension.py"
MAXSIZE = 10**9  # stands for sys.maxsize in the key lattice


def run(ctx: Ctx):
    ctx.explanation = (
        "ORDERKIT: the sort keys (position, rel, idx) of base elements, insertions and derived elements form the lattice "
        "top < every base position < bottom, before < element < after, insertion idx negative and increasing in "
        "definition order; the raw anchor of an insertion is read only by the normalising property; DECTAB: its decision "
        "table (None / stale -> bottom, numeric string parsed, case folded); id assignment of id-less insertions; the "
        "signed and the insertion-id rendering index the SAME subtotal sequence; insertions taken from the analysis "
        "transforms are never numbered as view insertions."
    )
    ctx.not_decided = ["the ordering function as a whole (a combinatorial function of runtime values)"]
    key_lattice(ctx)
    payload_bogus_ids_domain(ctx)
    anchor_ownership(ctx)
    anchor_table(ctx)
    id_assignment(ctx)
    rendering_spaces(ctx)
    explicit_order(ctx)
    position_truthiness(ctx)
    from .common import order_index_sign_tests

    order_index_sign_tests(ctx, "order-index-sign")
    from .common import generic_lints

    generic_lints(ctx)
    from .common import shim_leaves_transforms_alone

    shim_leaves_transforms_alone(ctx)
    from .common import nullable_key_agreement

    nullable_key_agreement(ctx)
    from . import c05

    c05.order_inputs_payload(ctx)
    from . import c09

    # "ids that name nothing are ignored" in an explicit order: a stale key (unknown string, out-of-range or NEGATIVE position)
    # of an array dimension must not resolve to an item - wrapped around to the last item it moves that item
    c09.stale_reference_table(ctx, "explicit-order.stale-reference")
    order_spec_ids_by_type(ctx)
    from .common import id_truthiness

    id_truthiness(ctx)


def _const(e: ast.expr) -> Any:
    t = u(e)
    if t == "sys.maxsize":
        return MAXSIZE
    if isinstance(e, ast.Constant):
        return e.value
    if isinstance(e, ast.UnaryOp) and isinstance(e.op, ast.USub) and isinstance(e.operand, ast.Constant):
        return -e.operand.value
    return t


def key_lattice(ctx: Ctx):
    ci = ctx.repo.cls(COL, "_BaseAnchoredCollator")
    m = ctx.repo.lookup(ci, "_insertion_position")
    # private helper methods inlined (a shared `_position_relative_to(anchor_id, rel)`), properties kept symbolic
    body = expand(ctx.repo, ci, "_insertion_position", stop=lambda mm: mm.kind in ("lazyproperty", "property"))
    where = f"{COL}::_BaseAnchoredCollator._insertion_position"
    table = {}
    def _pos(g, p):
        # one polarity per test: `a not in b` is `not a in b`, `a != b` is `not a == b`
        if isinstance(g, ast.Compare) and len(g.ops) == 1 and isinstance(g.ops[0], (ast.NotIn, ast.NotEq)):
            g = ast.Compare(left=g.left, ops=[ast.In() if isinstance(g.ops[0], ast.NotIn) else ast.Eq()], comparators=g.comparators)
            p = not p
        return ("" if p else "not ") + u(g)

    for gs, leaf in strip_ifexp_paths(body):
        key = " & ".join(_pos(g, p) for g, p in gs)
        table[key] = tuple(_const(x) for x in leaf.elts) if isinstance(leaf, ast.Tuple) else u(leaf)
    want = {
        "subtotal.anchor == 'top'": (-1, 0),
        "not subtotal.anchor == 'top' & subtotal.anchor == 'bottom'": (MAXSIZE, 0),
        "not subtotal.anchor == 'top' & not subtotal.anchor == 'bottom' & int(subtotal.anchor) in self._element_positions_by_id": ("self._element_positions_by_id[int(subtotal.anchor)]", 1),
        "not subtotal.anchor == 'top' & not subtotal.anchor == 'bottom' & not int(subtotal.anchor) in self._element_positions_by_id": (MAXSIZE, 0),
    }
    if table == want:
        ctx.held("key-lattice", where, table, "top=(-1,0) bottom=(maxsize,0) anchored=(anchor position, +1) stale=(maxsize,0)")
    else:
        # semantic check of each leaf against the lattice
        problems = []
        for k, v in table.items():
            if not isinstance(v, tuple) or len(v) != 2:
                continue  # a leaf that is not a literal (position, rel) pair is not understood: no evidence either way
            pos, rel = v
            if "== 'top'" in k and not k.startswith("not") and not (isinstance(pos, int) and pos < 0):
                problems.append(f"top anchored insertion has position {pos} (must sort before every base element: < 0)")
            if k.endswith("subtotal.anchor == 'bottom'") and "not subtotal.anchor == 'bottom'" not in k and pos != MAXSIZE:
                problems.append(f"bottom anchored insertion has position {pos} (must sort after every base element)")
            if k.endswith(" & int(subtotal.anchor) in self._element_positions_by_id") and not (isinstance(rel, int) and rel > 0):
                problems.append(f"anchored insertion has rel {rel} (must be > 0: immediately AFTER its anchor element)")
            if k.endswith("not int(subtotal.anchor) in self._element_positions_by_id") and pos != MAXSIZE:
                problems.append(f"stale anchor gives position {pos} (must be bottom)")
        if problems:
            ctx.violated("key-lattice", where, "; ".join(problems), "top < base positions < bottom; after-anchor rel > 0; stale -> bottom")
        else:
            ctx.undecided("key-lattice", where, str(table), str(want))
    e = expand(ctx.repo, ci, "_base_element_orderings", stop=lambda mm: True)
    ctx.check_expr("key-lattice", f"{COL}::_BaseAnchoredCollator._base_element_orderings", e, "tuple(((position, 0, idx) for position, idx, _ in self._element_order_descriptors))", "base element key = (its position, rel 0, its payload idx >= 0)")
    e = expand(ctx.repo, ci, "_insertion_orderings", stop=lambda mm: True)
    ctx.check_expr(
        "key-lattice",
        f"{COL}::_BaseAnchoredCollator._insertion_orderings",
        e,
        "tuple(((*self._insertion_position(subtotal), neg_idx) for subtotal, neg_idx in zip(self._subtotals, tuple((i - len(self._subtotals) for i in range(len(self._subtotals)))))))",
        "insertion idx = i - n: negative, strictly increasing in definition order (ties at one anchor keep definition order)",
    )
    # helper methods inlined (a shared `_visible_idxs_in_order(orderings, hidden)`), properties kept symbolic
    e = expand(ctx.repo, ci, "_display_order", stop=lambda mm: mm.kind in ("lazyproperty", "property"))
    FAMILIES = {"self._base_element_orderings": "base", "self._insertion_orderings": "insertion", "self._view_insertions_ordering": "insertion", "self._derived_element_orderings": "derived"}

    def families(x):
        return {FAMILIES[u(n)] for n in ast.walk(x) if isinstance(n, ast.Attribute) and u(n) in FAMILIES}

    verdicts = []
    for _g, l in strip_ifexp_paths(e):
        sorts = [families(c) for c in ast.walk(l) if isinstance(c, ast.Call) and u(c.func) in ("sorted", "np.sort") or (isinstance(c, ast.Call) and isinstance(c.func, ast.Attribute) and c.func.attr == "sort" and False)]
        allf = families(l)
        if any(f == {"base", "insertion", "derived"} for f in sorts):
            verdicts.append(True)
        elif allf == {"base", "insertion", "derived"} and sorts:
            verdicts.append(False)  # all three families are placed, but the sort covers only some of them
        else:
            verdicts.append(None)
    ok = False if False in verdicts else (True if verdicts and all(v is True for v in verdicts) else None)
    ctx.ob("key-lattice.merge", f"{COL}::_BaseAnchoredCollator._display_order", "one sort over base + insertion + derived keys" if ok else ("the sort covers only part of the three key families" if ok is False else "sort of the three key families not located"),
           "one sort over base + insertion + derived keys", ok, "one sort of the union of base, insertion and derived keys")
    e = expand(ctx.repo, ci, "_element_positions_by_id", stop=lambda mm: True)
    ctx.check_expr("key-lattice", f"{COL}::_BaseAnchoredCollator._element_positions_by_id", e, "{element_id: position for position, _, element_id in self._element_order_descriptors}", "an anchor refers to the DISPLAY position of its element (follows an explicit order)")
    # derived elements
    ex = ctx.repo.cls(COL, "ExplicitOrderCollator")
    m = ctx.repo.lookup(ex, "_derived_element_position")
    body = SUMMARIZER.summarize(m.node)
    rels = set()
    poss = []
    for gs, leaf in strip_ifexp_paths(body):
        if isinstance(leaf, ast.Tuple) and len(leaf.elts) == 2:
            poss.append((" & ".join(("" if p else "not ") + u(g)[-45:] for g, p in gs[-2:]), _const(leaf.elts[0]), u(leaf.elts[1])))
    # decision table (DECTAB) over the anchor kinds of a derived element: whatever the arrangement of the guards
    from ..dectab import DTop, ModelInterp, Raises

    where_d = f"{COL}::ExplicitOrderCollator._derived_element_position"
    positions = {"a": 0, "b": 2, 0: 1}
    cases = [
        (None, (MAXSIZE, 0)), ("top", (-1, 0)), ("bottom", (MAXSIZE, 0)),
        ({"alias": "b", "position": "after"}, (2, 1)), ({"alias": "b", "position": "before"}, (2, -1)),
        ({"alias": "a", "position": "before"}, (0, -1)), ({"alias": "a", "position": "after"}, (0, 1)), ({"alias": 0, "position": "after"}, (1, 1)),
        ({"alias": "a"}, (0, 1)), ({"alias": "zz", "position": "after"}, (MAXSIZE, 0)), ({"alias": "zz", "position": "before"}, (MAXSIZE, 0)),
    ]
    bad, undec = [], None
    for anchor, want_v in cases:
        def atoms(x, anchor=anchor):
            t = u(x)
            if t in ("self._elements.get_by_id(element_id).anchor", "self._elements.get_by_id(element_id)._anchor"):
                return anchor
            if t == "self._element_positions_by_id":
                return positions
            if t == "sys.maxsize":
                return MAXSIZE
            raise KeyError

        try:
            got = ModelInterp(atoms).ev(body)
        except Raises as r:
            bad.append(f"anchor {anchor!r}: raises {r.etype}")
            continue
        except DTop as t:
            undec = str(t)
            break
        if tuple(got) != want_v:
            bad.append(f"anchor {anchor!r} -> {tuple(got)}, specified {want_v}")
    if undec:
        ctx.undecided("key-lattice.derived", where_d, "DECTAB: " + undec, "top=(-1,0); bottom / no anchor / stale = (maxsize,0); anchored = (pos, -1 if before else +1)")
    else:
        ctx.ob("key-lattice.derived", where_d, bad[:4] or f"{len(cases)} anchor kinds", "top=(-1,0); bottom / no anchor / stale = (maxsize,0); anchored = (pos, -1 if before else +1)", not bad, "before < element (rel 0) < after; position 0 is a position")


def anchor_ownership(ctx: Ctx):
    """The raw anchor value of an insertion dict is read only in _Subtotal.anchor."""
    sites = []
    for short in (DIM, COL, "matrix/assembler.py", "stripe/assembler.py", "cubepart.py"):
        mod = ctx.repo.module(short)
        for ci in mod.classes.values():
            for m in ci.members.values():
                for n in ast.walk(m.node):
                    if isinstance(n, ast.Subscript) and isinstance(n.slice, ast.Constant) and n.slice.value == "anchor":
                        sites.append(f"{short}::{ci.name}.{m.name}")
    allowed = {f"{DIM}::_Subtotal.anchor"}
    foreign = sorted(set(sites) - allowed)
    ctx.count("raw anchor reads", len(sites))
    if foreign:
        ctx.violated("anchor-normalisation", "; ".join(foreign), f"raw insertion_dict['anchor'] read in {foreign}", "only _Subtotal.anchor reads the raw anchor; every consumer uses the normalised value", "a consumer of the raw anchor disagrees with the collator on 'Top', '1' (numeric string), None or stale ids")
    else:
        ctx.held("anchor-normalisation", f"{DIM}::_Subtotal.anchor", f"{len(sites)} raw read(s), all in the normalising property", "single normalisation point")
    ctx.require_min("raw anchor reads", 1)


def anchor_table(ctx: Ctx):
    ci = ctx.repo.cls(DIM, "_Subtotal")
    e = expand(ctx.repo, ci, "anchor", stop=lambda mm: True)
    where = f"{DIM}::_Subtotal.anchor"
    valid_ids = (1, 2, 3)
    cases = [
        (None, "bottom"), (2, 2), ("2", 2), (99, "bottom"), ("99", "bottom"), ("top", "top"), ("TOP", "top"), ("Top", "top"),
        ("bottom", "bottom"), ("Bottom", "bottom"),
    ]
    bad = []
    for raw, want in cases:
        def atoms(x, raw=raw):
            if isinstance(x, ast.Subscript) and u(x) == "self._subtotal_dict['anchor']":
                return raw
            if isinstance(x, ast.Attribute) and u(x) == "self._valid_elements.element_ids":
                return valid_ids
            raise KeyError

        try:
            got = ModelInterp(atoms).ev(e)
        except Raises as r:
            bad.append(f"{raw!r} raises {r.etype}")
            continue
        except DTop as t:
            ctx.undecided("anchor-table", where, "DECTAB: " + str(t), "")
            return
        if got != want:
            bad.append(f"{raw!r} -> {got!r}, specified {want!r}")
    ctx.count("anchor spellings", len(cases))
    if bad:
        ctx.violated("anchor-table", where, "; ".join(bad), "None/stale -> 'bottom'; int-like valid -> int; other strings case-folded")
    else:
        ctx.held("anchor-table", where, f"{len(cases)} anchor spellings normalise as specified", "None / stale -> bottom, numeric string parsed, case folded")


def id_assignment_table(ctx: Ctx, st, m, body):
    """DECTAB over insertion lists that MIX id-carrying and id-less insertions, for both origins: an id-less insertion gets
    its display rank from the position crosswalk when defined on the variable (view), its 1-based DEFINITION POSITION among
    all valid insertions when defined in the analysis; insertions carrying an id are handed on untouched."""
    from ..dectab import DTop, ModelInterp, Raises

    where = f"{DIM}::_Subtotals._valid_subtotal_dicts_with_ids [table]"
    lists = [[], [{"id": 3, "n": "a"}, {"id": 4, "n": "b"}], [{"n": "a"}], [{"n": "a"}, {"n": "b"}], [{"id": 7, "n": "a"}, {"n": "b"}, {"n": "c"}], [{"n": "a"}, {"id": 9, "n": "b"}, {"n": "c"}]]
    bad, n = [], 0

    class _I(ModelInterp):
        def _call(self, c, it):
            if u(c.func) == "self._position_crosswalk":
                return {i: 100 + i for i in range(10)}
            return super()._call(c, it)

    try:
        for dicts in lists:
            for from_view in (True, False):
                def atoms(x, dicts=dicts, from_view=from_view):
                    t = u(x)
                    if t in ("self._iter_valid_subtotal_dicts()", "list(self._iter_valid_subtotal_dicts())", "tuple(self._iter_valid_subtotal_dicts())"):
                        return [dict(d) for d in dicts]
                    if t == "self._from_view":
                        return from_view
                    raise KeyError

                want_v = [d if "id" in d else {**d, "id": (100 + i) if from_view else (i + 1)} for i, d in enumerate(dicts)]
                n += 1
                try:
                    got = [dict(x) for x in _I(atoms).ev(body)]
                except Raises as r:
                    bad.append(f"{'view' if from_view else 'analysis'} {dicts}: raises {r.etype}")
                    continue
                if got != want_v:
                    bad.append(f"{'view' if from_view else 'analysis'} insertions {[d.get('id', '-') for d in dicts]}: ids {[d.get('id') for d in got]}, specified {[d.get('id') for d in want_v]}")
    except DTop as t:
        ctx.undecided("id-assignment.table", where, "DECTAB: " + str(t), "ids of id-less insertions")
        return
    ctx.count("id-assignment models", n)
    ctx.ob("id-assignment.table", where, bad[:3] or f"{n} (insertion list, origin) models", "view: crosswalk[position]; analysis: 1-based definition position among ALL valid insertions; given ids untouched", not bad,
           "an id-less insertion defined after an id-carrying one is numbered by its rank among the id-less ones: its `ins_N` rendering and code change")


def id_assignment(ctx: Ctx):
    st = ctx.repo.cls(DIM, "_Subtotals")
    m = ctx.repo.lookup(st, "_valid_subtotal_dicts_with_ids")
    body = SUMMARIZER.summarize(m.node)
    leaves = [(" & ".join(("" if p else "not ") + u(g) for g, p in gs), u(l)) for gs, l in strip_ifexp_paths(body)]
    want = [
        ("all(('id' in ins for ins in list(self._iter_valid_subtotal_dicts())))", "list(self._iter_valid_subtotal_dicts())"),
        ("not all(('id' in ins for ins in list(self._iter_valid_subtotal_dicts()))) & self._from_view", "[ins if 'id' in ins else {**ins, 'id': self._position_crosswalk(list(self._iter_valid_subtotal_dicts()))[idx]} for idx, ins in enumerate(list(self._iter_valid_subtotal_dicts()))]"),
        ("not all(('id' in ins for ins in list(self._iter_valid_subtotal_dicts()))) & not self._from_view", "[ins if 'id' in ins else {**ins, 'id': idx + 1} for idx, ins in enumerate(list(self._iter_valid_subtotal_dicts()))]"),
    ]
    id_assignment_table(ctx, st, m, body)
    if leaves == want:
        ctx.held("id-assignment", f"{DIM}::_Subtotals._valid_subtotal_dicts_with_ids", leaves, want, "an id-less insertion is numbered by its 1-based display rank when defined on the variable and by its 1-based definition position when defined in the analysis (on a COPY of the dict)")
    else:
        paths = strip_ifexp_paths(body)
        if len(paths) != len(want):
            ctx.undecided("id-assignment", f"{DIM}::_Subtotals._valid_subtotal_dicts_with_ids", f"{len(paths)} paths where 3 are specified", want)
        else:
            for (gs, leaf), (wg, wl) in zip(paths, want):
                ctx.check_expr("id-assignment", f"{DIM}::_Subtotals._valid_subtotal_dicts_with_ids [{wg[:50]}]", leaf, wl, "1-based display rank (view) / 1-based definition position (analysis), on a copy of the dict")
    m = ctx.repo.lookup(st, "_position_crosswalk")
    where = f"{DIM}::_Subtotals._position_crosswalk"
    texts = [u(n) for n in ast.walk(m.node)]
    normalised = any(t.startswith("_Subtotal(") and t.endswith(".anchor") for t in texts)
    raw = [t for t in texts if t in ("ins['anchor']", "ins.get('anchor')", "insertion['anchor']", "insertion.get('anchor')")]
    if normalised and not raw:
        ctx.held("id-assignment.rank", where + " [anchor]", "ranked by _Subtotal(...).anchor", "rank by the NORMALISED anchor")
    elif raw and not normalised:
        ctx.violated("id-assignment.rank", where + " [anchor]", raw, "_Subtotal(ins, self._valid_elements).anchor", "ranked by the raw anchor: a stale / string-typed / mixed-case anchor is ranked differently from where the subtotal is displayed")
    else:
        ctx.undecided("id-assignment.rank", where + " [anchor]", f"normalised={normalised} raw={raw}", "rank by the normalised anchor")
    # 1-based rank: {pos: counter + k} over enumerate(seq, start=s) with s + k == 1
    verdict, seen = None, None
    for n in ast.walk(m.node):
        if isinstance(n, ast.DictComp) and len(n.generators) == 1:
            g = n.generators[0]
            if isinstance(g.iter, ast.Call) and u(g.iter.func) == "enumerate" and isinstance(g.target, ast.Tuple) and isinstance(g.target.elts[0], ast.Name):
                counter = g.target.elts[0].id
                start = 0
                if len(g.iter.args) > 1 and isinstance(g.iter.args[1], ast.Constant):
                    start = g.iter.args[1].value
                for k in g.iter.keywords:
                    if k.arg == "start" and isinstance(k.value, ast.Constant):
                        start = k.value.value
                v = n.value
                add = None
                if isinstance(v, ast.Name) and v.id == counter:
                    add = 0
                elif isinstance(v, ast.BinOp) and isinstance(v.op, ast.Add):
                    a, b = v.left, v.right
                    if isinstance(a, ast.Name) and a.id == counter and isinstance(b, ast.Constant):
                        add = b.value
                    elif isinstance(b, ast.Name) and b.id == counter and isinstance(a, ast.Constant):
                        add = a.value
                seen = u(n)[:90]
                if add is not None and isinstance(start, int):
                    verdict = (start + add) == 1
    ctx.ob("id-assignment.rank", where + " [1-based]", seen, "{pos: rank} with ranks 1, 2, ...", verdict, "an id-less view insertion is numbered by its 1-based rank in payload display order")
    # which insertion list gets which numbering: transforms insertions are never numbered as view insertions
    dim = ctx.repo.cls(DIM, "Dimension")
    for prop in ("subtotals", "subtotals_in_payload_order"):
        body = SUMMARIZER.summarize(ctx.repo.lookup(dim, prop).node)
        n_sites = 0
        for call in (n for n in ast.walk(body) if isinstance(n, ast.Call) and u(n.func) == "_Subtotals"):
            n_sites += 1
            src_expr = call.args[0] if call.args else None
            from_view_arg = call.args[2] if len(call.args) > 2 else next((k.value for k in call.keywords if k.arg == "from_view"), None)
            may_be_transforms = src_expr is not None and "_dimension_transforms_dict" in u(src_expr)
            only_view = src_expr is not None and u(src_expr) in ("self._view_insertion_dicts", "[]")
            where = f"{DIM}::Dimension.{prop} [_Subtotals({u(src_expr)[:60]}...)]"
            if may_be_transforms:
                ok = from_view_arg is not None and u(from_view_arg) == "False"
                ctx.ob("id-assignment.source", where, f"from_view={u(from_view_arg) if from_view_arg is not None else 'default True'}", "from_view=False", ok, "insertions that may come from the analysis transforms are numbered by definition position, not by view display rank")
            elif only_view:
                ok = from_view_arg is None or u(from_view_arg) == "True"
                ctx.ob("id-assignment.source", where, f"from_view={u(from_view_arg) if from_view_arg is not None else 'default True'}", "from_view=True", ok)
            else:
                ctx.undecided("id-assignment.source", where, "origin of the insertion list not recognised", "view -> from_view True; transforms -> False")
        ctx.count("_Subtotals construction sites", n_sites)
    ctx.require_min("_Subtotals construction sites", 4)


def _dimension_subtotal_sources(e: ast.AST) -> List[str]:
    out = set()
    for n in ast.walk(e):
        if isinstance(n, ast.Attribute) and n.attr in ("subtotals", "subtotals_in_payload_order") and u(n.value) in ("self._dimension", "dim"):
            out.add(n.attr)
    return sorted(out)


def rendering_spaces(ctx: Ctx):
    """Per collator class: the subtotal sequence enumerated for the negative indexes must be the one the
    id mapping is built over."""
    keep = ("_base_element_orderings", "_derived_element_orderings", "_hidden_idxs", "_insertion_position", "_top_fixed_idxs", "_bottom_fixed_idxs", "_body_idxs", "_descending", "_is_nan")
    for cname in ("ExplicitOrderCollator", "PayloadOrderCollator", "SortByValueCollator"):
        ci = ctx.repo.cls(COL, cname)
        e = expand(ctx.repo, ci, "_display_order", stop=lambda mm: mm.name in keep)
        # a property looked up BY NAME in a shared helper (`getattr(self, propname)` with the name passed as a literal):
        # fold it to the attribute read and expand once more
        from ..symex import Expander, fold

        e = Expander(ctx.repo, ci, lambda mm: mm.name in keep).visit(fold(e))
        where = f"{COL}::{cname} [_display_order renderings]"
        render = signed = None
        if isinstance(e, ast.IfExp) and u(e.test) == "self._format == ORDER_FORMAT.BOGUS_IDS":
            render, signed = e.body, e.orelse
        if render is None:
            ctx.undecided("rendering-index-space", where, "BOGUS_IDS branch not found", "")
            continue
        # the rendering is `tuple(f(idx) for idx in <signed order>)`: sources of f only
        elt = None
        for n in ast.walk(render):
            if isinstance(n, ast.GeneratorExp) and len(n.generators) == 1 and u(n.generators[0].iter) == u(signed):
                elt = n.elt
        if elt is None:
            ctx.undecided("rendering-index-space", where, "rendering is not an elementwise map of the signed order", "tuple(f(idx) for idx in <signed order>)")
            continue
        map_src = _dimension_subtotal_sources(elt)
        if cname == "SortByValueCollator":
            enum_src = ["subtotals"]  # subtotal_values are supplied positionally aligned with dimension.subtotals (assembler helpers)
        else:
            enum_src = _dimension_subtotal_sources(signed)
        ctx.ob(
            "rendering-index-space",
            where,
            f"negative idx enumerate dimension.{enum_src}; ins_N rendering reads dimension.{map_src}",
            "both renderings index the same subtotal sequence",
            (enum_src == map_src) if (enum_src and map_src) else None,
            "the signed-index and the 'ins_N' renderings of an order must name the same sequence",
        )
        ctx.count("collator rendering pairs")
    # payload_order (its own sorted sequence) is consistent with its own mapping
    po = ctx.repo.cls(COL, "PayloadOrderCollator")
    vi = expand(ctx.repo, po, "_view_insertions_ordering", stop=lambda mm: True)
    ctx.ob("rendering-index-space", f"{COL}::PayloadOrderCollator.payload_order", _dimension_subtotal_sources(vi), "['subtotals', 'subtotals_in_payload_order']", _dimension_subtotal_sources(vi) == ["subtotals", "subtotals_in_payload_order"], "payload_order enumerates the view insertions that are referenced by the transforms - the sequence its mapping lists")
    ctx.require_min("collator rendering pairs", 3)


def explicit_order_model(ctx: Ctx, m, where: str, recognised: bool):
    """When the function is not written with the consume-from-a-map idiom that ORDERKIT recognises, its SUMMARISED
    expression is evaluated (DECTAB) on model dimensions: ids listed once / twice / unknown / naming a DERIVED element, and
    compared with the specified order: listed non-derived ids (first mention), then the other non-derived elements in
    payload order; derived elements never appear among the base descriptors (they are placed by their anchors)."""
    from ..dectab import DTop, ModelInterp, Raises
    from ..symex import SUMMARIZER as _S

    if recognised:
        return
    try:
        body = _S.summarize(m.node)
    except Exception as exc:  # loops / generators the summariser does not turn into an expression
        ctx.undecided("explicit-order.model", where, f"not summarised to an expression: {type(exc).__name__}", "descriptor list on model dimensions")
        return
    elements = [(1, False), (2, False), (3, True), (4, False), (0, False)]
    orders = [(), (4, 1), (4, 4, 1), (9, 2), (3, 1), (0, 3, 4), (2, 1, 0, 4)]
    model_elements = [{".element_id": i, ".derived": d} for i, d in elements]
    bad, n = [], 0
    try:
        for order in orders:
            def atoms(x, order=order):
                t = u(x)
                if t == "self._elements":
                    return model_elements
                if t == "self._order_spec.element_ids":
                    return order
                raise KeyError

            base = [i for i, d in elements if not d]
            listed = []
            for i in order:
                if i in base and i not in listed:
                    listed.append(i)
            ids = listed + [i for i in base if i not in listed]
            idx_of = {i: k for k, (i, _d) in enumerate(elements)}
            want = tuple((pos, idx_of[i], i) for pos, i in enumerate(ids))
            n += 1
            try:
                got = tuple(tuple(x) for x in ModelInterp(atoms).ev(body))
            except Raises as r:
                bad.append(f"order {order}: raises {r.etype}")
                continue
            if got != want:
                bad.append(f"order {order}: {got}, specified {want}")
    except DTop as t:
        ctx.undecided("explicit-order.model", where, "DECTAB: " + str(t), "descriptor list on model dimensions")
        return
    ctx.count("explicit-order models", n)
    ctx.ob("explicit-order.model", where, bad[:3] or f"{n} model orders", "listed non-derived ids (first mention wins, unknown ignored), then the remaining non-derived elements in payload order", not bad,
           "a derived item named in the id list is placed as a base element AND by its anchor: it appears twice in the order")


def explicit_order(ctx: Ctx):
    ex = ctx.repo.cls(COL, "ExplicitOrderCollator")
    m = ctx.repo.lookup(ex, "_element_order_descriptors")
    from ..orderkit import explicit_order_facts

    if m is None:
        raise AnalysisError("ExplicitOrderCollator._element_order_descriptors vanished")
    f = explicit_order_facts(m.node)
    where = f"{COL}::ExplicitOrderCollator._element_order_descriptors"
    ctx.ob("explicit-order", where + " [listed ids in listed order]", f["listed_loop"], "a loop over self._order_spec.element_ids", True if f["listed_loop"] else None)
    if f["lookup_without_consumption"]:
        ctx.violated("explicit-order", where + " [first mention wins]", f["lookup_without_consumption"], "each listed id is CONSUMED from the remaining map", "an id that is looked up but not removed is placed once per mention")
    elif f["unguarded_pop"]:
        ctx.violated("explicit-order", where + " [unknown ids ignored]", f["unguarded_pop"], "pop under `id in map`", "an id that matches nothing would raise KeyError")
    else:
        ctx.ob("explicit-order", where + " [first mention wins / unknown ignored]", f"map={f['map']} pop guarded by membership: {f['listed_pop_guarded']}", "each listed id is popped from the remaining map under `id in map`", True if f["listed_pop_guarded"] else None)
    ctx.ob("explicit-order", where + " [remaining map over the non-derived elements in payload order]", f"over self._elements: {f['map_over_elements']}; derived excluded: {f['map_excludes_derived']}", "built by enumerating self._elements, derived elements excluded",
           True if (f["map_over_elements"] and f["map_excludes_derived"]) else None)
    ctx.ob("explicit-order", where + " [leftovers in payload order]", f["leftovers"], "the map is iterated after the listed ids", True if f["leftovers"] else None)
    explicit_order_model(ctx, m, where, recognised=bool(f["listed_loop"] and f["listed_pop_guarded"] and f["leftovers"]))
    os_ = ctx.repo.cls(DIM, "_OrderSpec")
    e = expand(ctx.repo, os_, "element_ids", stop=lambda mm: True)
    ctx.check_expr("explicit-order", f"{DIM}::_OrderSpec.element_ids", e, "tuple(self._order_dict.get('element_ids') or [])")
    e = expand(ctx.repo, os_, "collation_method", stop=lambda mm: True)
    ctx.check_expr("explicit-order", f"{DIM}::_OrderSpec.collation_method", e, "CM.PAYLOAD_ORDER if self._order_dict.get('type') is None or not CM.has_value(self._order_dict.get('type')) else CM(self._order_dict.get('type'))", "an unknown order type falls back to payload order")


# --------------------------------------------------------------------------- position 0 is a position
def position_truthiness(ctx: Ctx):
    """An anchor / element position is an int whose domain includes 0 (the first element).  A truth test of a
    position (`x if pos else bottom`, `if not idx`) sends the first element's subtotals / derived items to the
    fallback branch.  Def-use pass over every function of the package (cubeverif/truthiness.py)."""
    from .. import truthiness as T
    from ..loader import AnalysisError

    if T.self_check() != 3:
        raise AnalysisError("position-truthiness: the positive control is no longer recognised")
    class_nodes = [ci.node for mod in ctx.repo.modules.values() for ci in mod.classes.values()]
    maps = T.position_map_members(class_nodes)
    n_fn = n_pos = 0
    hits = []
    for short, mod in sorted(ctx.repo.modules.items()):
        f, p, h = T.scan_module(mod.tree, maps)
        n_fn += f
        n_pos += p
        hits += [(mod.path.split('cr/cube/')[-1],) + x for x in h]
    ctx.count("functions scanned for truth-tested positions", n_fn)
    ctx.count("position-valued expressions", n_pos)
    ctx.require_min("position-valued expressions", 40)
    for short, qual, _line, context, expr in hits:
        ctx.violated("position-truthiness", f"{short}::{qual} [{expr[:80]}]", f"truth test ({context}) of {expr}", "comparison with None / membership test",
                     "position 0 (the first element of the order) is falsy: its subtotals / derived items fall into the 'absent' branch")
    if not hits:
        ctx.held("position-truthiness", "package: every truth test", f"{n_pos} position-valued expressions, none truth-tested", "", "positive control: 3 of 3 recognised")


def order_spec_ids_by_type(ctx: Ctx):
    """The ids an `_OrderSpec` hands to the collators (explicit order, fixed top / bottom) are matched against element ids AS
    THEY ARE.  For a SHIMMED dimension (sub-variable, numeric-array and DATETIME dimensions: `DT.SHIMMED_TYPES`) they are
    the shim's output already - aliases, datetime values such as "2000" - and any re-interpretation (an `int(...)` of a
    digit string) makes them match nothing: the order is silently ignored.  Decision table over DIMENSION_TYPE of the type
    guards in front of every path that converts an id."""
    from ..dectab import DTop, Raises
    from ..symex import expand, strip_ifexp_paths
    from ..typetab import dt_members, dt_value, eval_over_types

    ci = ctx.repo.cls("dimension.py", "_OrderSpec")
    try:
        shimmed = dt_value(ctx.repo, "SHIMMED_TYPES")
    except DTop:
        shimmed = frozenset({"CA_SUBVAR", "MR_SUBVAR", "NUM_ARRAY", "DATETIME"})
    for member in ("element_ids", "top_fixed_ids", "bottom_fixed_ids"):
        where = f"dimension.py::_OrderSpec.{member}"
        if ctx.repo.lookup(ci, member) is None:
            ctx.undecided("explicit-order.ids-as-they-are", where, "member not found", "")
            continue
        e = expand(ctx.repo, ci, member, stop=lambda m: m.kind in ("lazyproperty", "property") and m.name != member)
        converting = []
        for guards, leaf in strip_ifexp_paths(e):
            conv = [u(c)[:40] for c in ast.walk(leaf) if isinstance(c, ast.Call) and u(c.func) in ("int", "float", "str", "np.int64")]
            if conv:
                converting.append((guards, conv))
        ctx.count("order-spec id accessors")
        if not converting:
            ctx.held("explicit-order.ids-as-they-are", where, "no path converts an id", "ids reach the collator as they are")
            continue
        bad = []
        try:
            for mem in sorted(shimmed):
                for guards, conv in converting:
                    reachable = True
                    for t, pol in guards:
                        if "dimension_type" not in u(t):
                            continue  # a data-dependent guard: may hold
                        atoms = {"self._dimension.dimension_type": mem, "self._dimension_type": mem, "self.dimension_type": mem}
                        if bool(eval_over_types(ctx.repo, ci.module, t, atoms)) != pol:
                            reachable = False
                            break
                    if reachable:
                        bad.append(f"{mem}: {conv[0]}")
                        break
        except (DTop, Raises, KeyError) as exc:
            ctx.undecided("explicit-order.ids-as-they-are", where, f"DECTAB: {exc}", "table over DT.SHIMMED_TYPES")
            continue
        ctx.ob("explicit-order.ids-as-they-are", where, bad or "conversions are confined to non-shimmed dimension types", "the ids of a shimmed dimension (incl. DATETIME) are not re-interpreted", not bad,
               "a yearly datetime element id is the string '2000': read as the int 2000 it matches no element and the explicit order is ignored")
    ctx.require_min("order-spec id accessors", 3)


def payload_bogus_ids_domain(ctx: Ctx):
    """`PayloadOrderCollator._subtotals_bogus_ids` is paired POSITIONALLY with the negative indexes of the view's insertions (in
    the view's order): the ids it lists are the view's, in the view's order, FILTERED by what the analysis keeps - the
    iteration domain of the generator is `subtotals_in_payload_order`, the other collection is only asked for membership."""
    from ..stmts import resolver

    ci = ctx.repo.opt_cls(COL, "PayloadOrderCollator")
    where = f"{COL}::PayloadOrderCollator._subtotals_bogus_ids [iteration domain]"
    m = ctx.repo.lookup(ci, "_subtotals_bogus_ids") if ci is not None else None
    if m is None:
        ctx.undecided("payload-order.bogus-ids.domain", where, "member not found", "")
        return
    res = resolver(m.node, multi=True)
    gens = [g for n in ast.walk(m.node) if isinstance(n, (ast.GeneratorExp, ast.ListComp)) for g in n.generators] + [n for n in ast.walk(m.node) if isinstance(n, ast.For)]
    if len(gens) != 1:
        ctx.undecided("payload-order.bogus-ids.domain", where, f"{len(gens)} loops / generators", "one generator over the view's insertions")
        return
    domains = [u(v) for v in res(gens[0].iter)]
    view = all("subtotals_in_payload_order" in d for d in domains)
    analysis = all("subtotals_in_payload_order" not in d and ".subtotals" in d for d in domains)
    ctx.ob("payload-order.bogus-ids.domain", where, domains[:2], "iterates over self._dimension.subtotals_in_payload_order (the view's insertions, in the view's order)", True if view else (False if analysis else None),
           "ids listed in the ANALYSIS' definition order are paired with positions counted in the view's order: 'ins_2' stands where insertion 1 is")
