"""C13 - pairwise column tests: statistic, p-value and index sets."""
from __future__ import annotations

import ast
import copy

from ..axes import AV, AxisEval, RoleClash, Top, source
from ..core import Ctx
from ..loader import AnalysisError
from ..normform import Normalizer, NTop, equal
from ..stmts import check_side_paths
from ..symex import SUMMARIZER, expand, strip_ifexp_paths, u, main_leaf, main_path, side_paths
from . import layouts as LY
from .gridcheck import SOM, check_divisions

MM = "matrix/measure.py"
PS = "measures/pairwise_significance.py"


def run(ctx: Ctx):
    ctx.explanation = (
        "NORM: t == (p - p_ref)/sqrt(p(1-p)/n + p_ref(1-p_ref)/n_ref); swapping (p,n) with (p_ref,n_ref) negates t and "
        "leaves df unchanged (antisymmetry of t / symmetry of p), also for the Welch and overlap variants; df formulas; "
        "BLOCKS: effective base W^2/Q when squared weights exist else the unweighted base - the SAME base for the "
        "compared and for the selected column, body and subtotal columns alike; reference column from block [b][1] iff "
        "the selected index is negative; rows of block b use reference b; thresholding; alpha ordering; every public "
        "entry translates the display column through the column order; the legacy implementation obeys the same "
        "effective-base rule; AXIS: overlap bases."
    )
    ctx.not_decided = ["numeric p-values (scipy's Student-t cdf is trusted)"]
    t_formula(ctx)
    column_bases(ctx)
    margin_from_one_line(ctx)
    references(ctx)
    block_calls(ctx)
    pvals(ctx)
    welch(ctx)
    overlap(ctx)
    overlap_axes(ctx)
    overlap_path_guard(ctx)
    indices(ctx)
    translation(ctx)
    self_exclusion(ctx)
    legacy(ctx)
    from .common import no_shared_writes

    no_shared_writes(ctx, "no-shared-write")
    from .common import generic_lints

    generic_lints(ctx)
    from .common import position_param_truthiness

    position_param_truthiness(ctx)
    from .common import float64_extractors

    float64_extractors(ctx)
    from .common import dependency_footprints

    dependency_footprints(ctx)
    from .common import public_values_assembled

    public_values_assembled(ctx, "public-assembled", "_Slice", ("pairwise_indices", "pairwise_indices_alt", "pairwise_means_indices", "pairwise_means_indices_alt"))


class _Ren(ast.NodeTransformer):
    def __init__(self, m):
        self.m = m

    def visit_Name(self, n):
        return ast.Name(id=self.m.get(n.id, n.id), ctx=ast.Load())


def _antisym(ctx: Ctx, rule, where, expr, swap):
    try:
        f1 = Normalizer().form(expr)
        f2 = Normalizer().form(_Ren(swap).visit(copy.deepcopy(expr)))
        s = f1.add(f2)
        ok = s.r.n.is_zero()
        ctx.ob(rule, where, "t(a,b) + t(b,a) = " + s.r.text()[:80], "0", ok, "comparing b with a gives the negated statistic (hence a column against itself gives 0)")
    except NTop as t:
        ctx.undecided(rule, where, f"NORM: {t}", "t antisymmetric")


def t_formula(ctx: Ctx):
    ci = ctx.repo.cls(MM, "_PairwiseSigTstats")
    m = ctx.repo.lookup(ci, "_calculate_t_stats")
    CANON = ["props", "bases", "ref_props", "ref_bases"]
    params_ = [p_ for p_ in m.params if p_ not in ("self", "cls")]
    where = f"{MM}::_PairwiseSigTstats._calculate_t_stats"
    if len(params_) != len(CANON):
        ctx.undecided("t-formula.params", where, params_, str(CANON))
        return
    body = SUMMARIZER.summarize(m.node, {a: ast.Name(id=c, ctx=ast.Load()) for a, c in zip(params_, CANON) if a != c})
    paths = strip_ifexp_paths(body)
    leaf = main_leaf(body)
    v, cnf, snf, notes = equal(leaf, "(p - q)/sqrt(p*(1-p)/n + q*(1-q)/m)", rename_spec={"p": "props", "q": "ref_props", "n": "bases", "m": "ref_bases"})
    if v is None:
        ctx.undecided("t-formula", where, cnf, "")
    else:
        ctx.ob("t-formula", where, cnf, snf, v, "t = (p_b - p_a)/sqrt(p_a(1-p_a)/n_a + p_b(1-p_b)/n_b) " + str(notes))
    _antisym(ctx, "t-antisymmetry", where, leaf, {"props": "ref_props", "ref_props": "props", "bases": "ref_bases", "ref_bases": "bases"})
    check_side_paths(ctx, "t-formula.empty", where, body, [("props.size == 0", "props")], "an empty block is returned as is")
    ctx.held("t-formula.params", where, params_, "four positional operands: proportions, bases, reference proportions, reference bases")


def _as_grid(e: ast.expr):
    """`XSubtotals.blocks(B, D, **kw)` == [[B, X.subtotal_columns(B, D, **kw)], [X.subtotal_rows(..), X.intersections(..)]]."""
    if isinstance(e, ast.List) and len(e.elts) == 2 and all(isinstance(r, ast.List) and len(r.elts) == 2 for r in e.elts):
        return [[e.elts[0].elts[0], e.elts[0].elts[1]], [e.elts[1].elts[0], e.elts[1].elts[1]]]
    if isinstance(e, ast.Call) and isinstance(e.func, ast.Attribute) and e.func.attr == "blocks" and isinstance(e.func.value, ast.Name) and e.func.value.id.endswith("Subtotals") and e.args:
        def call(name):
            return ast.Call(func=ast.Attribute(value=e.func.value, attr=name, ctx=ast.Load()), args=list(e.args), keywords=list(e.keywords))

        return [[e.args[0], call("subtotal_columns")], [call("subtotal_rows"), call("intersections")]]
    return None


def _value_part(e: ast.expr) -> ast.expr:
    """Drop the parts that only contribute a SHAPE: `X.shape` and the empty-case short-circuit `X if X.shape[0] == 0 else Y`."""
    class T(ast.NodeTransformer):
        def visit_IfExp(self, n):
            t = u(n.test)
            if ".shape[0] == 0" in t and u(n.body) in t:
                return self.visit(n.orelse)
            return self.generic_visit(n)

        def visit_Attribute(self, n):
            if n.attr == "shape":
                return ast.Name(id="SHAPE", ctx=ast.Load())
            return self.generic_visit(n)

    import copy

    return T().visit(copy.deepcopy(e))


def block_mirror(ctx: Ctx):
    """(sum w)^2 / sum w^2 is an effective base only when numerator and denominator are the same function of their base
    values in every block.  Both column bases are already summed over the rows and broadcast to every row, so the
    subtotal-ROW and intersection blocks repeat the column's base; summing the addend rows would give k times the base."""
    from ..exprdiff import canon

    where = f"{MM}::_ColumnSquaredBases.blocks"
    grids = {}
    for n in ("_ColumnWeightedBases", "_ColumnSquaredBases"):
        ci = ctx.repo.cls(MM, n)
        grids[n] = _as_grid(expand(ctx.repo, ci, "blocks", stop=lambda m: m.name == "_base_values"))
    gw, gs = grids["_ColumnWeightedBases"], grids["_ColumnSquaredBases"]
    if gw is None or gs is None:
        ctx.undecided("effective-base.block-mirror", where, "blocks not in 2x2 form", "the four blocks of both column bases")
        return
    for i in (0, 1):
        for j in (0, 1):
            a, b = u(canon(gw[i][j])), u(canon(gs[i][j]))
            w = f"{where}[{i}][{j}]"
            ctx.count("column-base mirror blocks")
            if a == b:
                ctx.held("effective-base.block-mirror", w, b[:120], a[:120], "the squared base is built from its base values exactly as the weighted base is")
                continue
            vb = u(_value_part(gs[i][j]))
            if i == 1 and ("Subtotals.subtotal_rows(" in vb or "Subtotals.intersections(" in vb) and "broadcast_to" in u(_value_part(gw[i][j])):
                ctx.violated("effective-base.block-mirror", w, b[:160], a[:160],
                             "the squared base of a subtotal row is the SUM of its addend rows (each already the column's sum of squared weights) while the weighted base repeats the column base: the effective base of a k-addend subtotal row is divided by k")
            else:
                ctx.undecided("effective-base.block-mirror", w, b[:160], a[:160])
    ctx.require_min("column-base mirror blocks", 4)


def column_bases(ctx: Ctx):
    ci = ctx.repo.cls(MM, "_PairwiseSigTstats")
    e = expand(ctx.repo, ci, "_column_bases")
    where = f"{MM}::_PairwiseSigTstats._column_bases"
    if not isinstance(e, ast.IfExp):
        ctx.undecided("effective-base", where, u(e)[:100], "IfExp on squared-weights defined")
        return
    if isinstance(e.test, ast.UnaryOp) and isinstance(e.test.op, ast.Not):
        e = ast.IfExp(test=e.test.operand, body=e.orelse, orelse=e.body)
    ctx.check_expr("effective-base.guard", where, e.test, f"{SOM}.columns_squared_base.is_defined", "effective base is used exactly when the squared-weights measure is supplied")
    ctx.check_expr("effective-base.unweighted", where + " [no squared weights]", e.orelse, f"{SOM}.column_unweighted_bases.blocks", "n = the unweighted column base")
    g = e.body
    if isinstance(g, ast.List) and len(g.elts) == 2 and all(isinstance(r, ast.List) and len(r.elts) == 2 for r in g.elts):
        for i in (0, 1):
            for j in (0, 1):
                v, cnf, snf, _ = equal(g.elts[i].elts[j], f"{SOM}.column_weighted_bases.blocks[{i}][{j}]**2 / {SOM}.column_squared_bases.blocks[{i}][{j}]")
                ctx.ob("effective-base.blocks", where + f"[{i}][{j}]", cnf, snf, v, "effective base = (sum w)^2 / sum w^2 from the WEIGHTED and SQUARED bases of the same block")
                ctx.count("effective-base blocks")
    else:
        ctx.undecided("effective-base.blocks", where, u(g)[:100], "2x2 grid")
    # whatever the spelling: sum w^2 comes from the 2-D per-cell measure (`column_squared_bases`), whose every row has its own
    # value when the rows dimension is an array.  The 1-D marginal `columns_squared_base` is line 0 of it (its flag is the
    # switch, its VALUES are the first row's): every row of an MR x CAT slice after the first gets the first row's sum w^2
    body_reads = {n.attr for n in ast.walk(e.body) if isinstance(n, ast.Attribute) and u(n.value) == SOM}
    if "columns_squared_base" in body_reads:
        ctx.violated("effective-base.source", where, "the effective base is computed from the 1-D marginal columns_squared_base (.blocks)", "the 2-D column_squared_bases blocks (one sum of squared weights per cell)",
                     "the marginal is the first row's sum of squared weights broadcast down the rows: with array (MR) rows every later row has a wrong effective base, t, df and p")
    elif "column_squared_bases" in body_reads:
        ctx.held("effective-base.source", where, "sum w^2 from the 2-D column_squared_bases", "")
    else:
        ctx.undecided("effective-base.source", where, f"reads {sorted(body_reads)}", "column_squared_bases")
    ctx.require_min("effective-base blocks", 4)
    block_mirror(ctx)
    cs = ctx.repo.cls(MM, "_ColumnSquaredBases")
    e = expand(ctx.repo, cs, "is_defined")
    ctx.check_expr("effective-base.guard", f"{MM}::_ColumnSquaredBases.is_defined", e, "self._cube_measures.weighted_squared_cube_counts is not None")
    # "... or, when squared weights are supplied, the effective base": the ONLY condition under which the squared
    # counts are undefined is the absence of the squared-weights measure.  Every disjunct of the refusing guard is
    # classified; an additional condition (weights equal to 1 cell by cell, no plain count measure, ...) silently
    # replaces the effective base by the unweighted base although squared weights were supplied.
    from ..stmts import resolver

    cmc = ctx.repo.cls("matrix/cubemeasure.py", "CubeMeasures")
    wsm = ctx.repo.lookup(cmc, "weighted_squared_cube_counts")
    where_ = "matrix/cubemeasure.py::CubeMeasures.weighted_squared_cube_counts"
    if wsm is None:
        ctx.undecided("effective-base.presence", where_, "member not found", "")
    else:
        body = SUMMARIZER.summarize(wsm.node)
        extra, ok_atoms = [], []
        for gs, leaf in strip_ifexp_paths(body):
            if not (isinstance(leaf, ast.Constant) and leaf.value is None):
                continue
            for g, pol in gs:
                if not pol:
                    continue
                for a in (g.values if isinstance(g, ast.BoolOp) and isinstance(g.op, ast.Or) else [g]):
                    t = u(a)
                    if t in ("self._cube.weighted_squared_counts is None",):
                        ok_atoms.append(t)
                    else:
                        extra.append(t)
        if extra:
            ctx.violated("effective-base.presence", where_, extra, "undefined only when self._cube.weighted_squared_counts is None", "squared weights are supplied but the effective base is not used")
        else:
            ctx.ob("effective-base.presence", where_, ok_atoms, "undefined only when the squared-weights measure is absent", True if ok_atoms else None)
    ms = ctx.repo.cls(MM, "_MarginSquaredBase")
    e = expand(ctx.repo, ms, "is_defined")
    ctx.check_expr("effective-base.guard", f"{MM}::_MarginSquaredBase.is_defined", e, f"{SOM}.column_squared_bases.is_defined")
    # the same switch with an EXTRA condition and-ed / or-ed to it (the counts being summable, a dimension type): the
    # t-tests read this flag as "squared weights were supplied - use the effective base" and nothing else
    if isinstance(e, ast.BoolOp):
        from ..exprdiff import canon, parse

        spec = u(canon(parse(f"{SOM}.column_squared_bases.is_defined")))
        atoms_ = [u(canon(v)) for v in e.values]
        extra = [a for a in atoms_ if a != spec]
        if spec in atoms_ and extra:
            ctx.violated("effective-base.guard.only-squared-weights", f"{MM}::_MarginSquaredBase.is_defined", f"{'and' if isinstance(e.op, ast.And) else 'or'}-ed with {extra}",
                         "defined exactly when the squared-weights measure is supplied", "the pairwise t-tests use this flag as the switch to the effective base: with the extra condition they silently fall back to the unweighted base although squared weights were supplied")


def margin_from_one_line(ctx: Ctx):
    """A 1-D marginal that is READ OFF ONE LINE of a 2-D per-cell base (`bases[0][0][0, :]`) is the margin only when all
    lines are alike, i.e. when the opposing dimension is not an array (each MR / array row has its own base).  The
    sibling marginals say so in `is_defined` (`_counts_are_defined`, `_base_values is not None`) and their `_Slice`
    accessors fall back to the 2-D bases.  A marginal whose `is_defined` does not (the squared-weight margin: its flag
    is also the t-tests' switch and must stay "squared weights supplied") needs the same guard in the accessor that
    assembles it - else an MR x CAT slice hands the legacy pairwise test the FIRST item's squared base for every row."""
    from ..stmts import positive_guard_atoms

    mod = ctx.repo.module(MM)
    base = mod.classes.get("_BaseMarginal")
    som = ctx.repo.cls(MM, "SecondOrderMeasures")
    sl = ctx.repo.cls("cubepart.py", "_Slice")
    if base is None:
        raise AnalysisError("_BaseMarginal vanished")

    def comparable(ci) -> bool:
        if ctx.repo.lookup(ci, "is_defined") is None:
            return False
        t = u(expand(ctx.repo, ci, "is_defined", stop=lambda m: m.name != "is_defined"))
        return "_counts_are_defined" in t or "_base_values is not None" in t

    n = 0
    guarded_classes, unguarded = set(), []
    for ci in mod.classes.values():
        if base not in ci.mro or ci is base or ctx.repo.lookup(ci, "blocks") is None:
            continue
        b = expand(ctx.repo, ci, "blocks", stop=lambda m: True)
        one_line = [x for x in ast.walk(b) if isinstance(x, ast.Subscript) and u(x.slice) in ("(0, slice(None, None, None))", "(slice(None, None, None), 0)", "0, :", ":, 0", "(0, :)", "(:, 0)") and ".blocks[" in u(x.value)]
        if not one_line:
            continue
        n += 1
        (guarded_classes.add(ci.name) if comparable(ci) else unguarded.append(ci))
    ctx.count("marginals read off one line of a 2-D base", n)
    ctx.require_min("marginals read off one line of a 2-D base", 3)
    # SecondOrderMeasures member -> marginal class
    member_cls = {}
    for name, m in som.members.items():
        for c in ast.walk(m.node):
            if isinstance(c, ast.Call) and isinstance(c.func, ast.Name) and c.func.id in mod.classes:
                member_cls.setdefault(name, c.func.id)
    if not guarded_classes:
        # the comparability test is not recognisable any more (renamed): nothing to compare the accessors' guards with
        ctx.undecided("margin-from-one-line", f"{MM}::_BaseMarginal subclasses", "no marginal states count comparability in its is_defined", "`_counts_are_defined` / `_base_values is not None`")
        return
    for ci in unguarded:
        members = [k for k, v in member_cls.items() if v == ci.name]
        sites = 0
        for name, m in sl.members.items():
            for c in ast.walk(m.node):
                if isinstance(c, ast.Call) and u(c.func) == "self._assemble_marginal" and c.args and any(u(c.args[0]) == f"self._measures.{k}" for k in members):
                    sites += 1
                    held = [u(a) for a in positive_guard_atoms(m.node, c)]
                    # negative guards (`if not X.is_defined: return ...` before the call) count as well
                    held += [u(t) for t in ast.walk(m.node) if isinstance(t, ast.Attribute) and t.attr == "is_defined"]
                    ok = any(any(f"self._measures.{k}.is_defined" in h for k, v in member_cls.items() if v in guarded_classes) for h in held)
                    where = f"cubepart.py::_Slice.{name} [{ci.name}]"
                    ctx.ob("margin-from-one-line", where, sorted(set(held))[:4], "guarded by the definedness of a count margin of the same orientation (else the 2-D bases are returned)", True if ok else False,
                           f"{ci.name}.blocks is line 0 of the per-cell bases and its is_defined does not say when that is the margin: for an array opposing dimension every row gets the first item's value")
        if not sites:
            ctx.undecided("margin-from-one-line", f"{MM}::{ci.name}", "no _Slice accessor assembling it found", "guard in the accessor")


def references(ctx: Ctx):
    ci = ctx.repo.cls(MM, "_PairwiseSigTstats")
    stop = lambda m: m.name in ("_proportions", "_column_bases")
    b = ast.Name(id="block_index", ctx=ast.Load())
    e = expand(ctx.repo, ci, "_reference_values", bind={"block_index": b}, stop=stop)
    want = (
        "((self._proportions[block_index][1] if self._selected_column_idx < 0 else self._proportions[block_index][0])[:, [self._selected_column_idx]], "
        "(self._column_bases[block_index][1] if self._selected_column_idx < 0 else self._column_bases[block_index][0])[:, [self._selected_column_idx]])"
    )
    alt = (
        "(self._proportions[block_index][1][:, [self._selected_column_idx]], self._column_bases[block_index][1][:, [self._selected_column_idx]]) "
        "if self._selected_column_idx < 0 else "
        "(self._proportions[block_index][0][:, [self._selected_column_idx]], self._column_bases[block_index][0][:, [self._selected_column_idx]])"
    )
    ctx.check_expr("reference-column", f"{MM}::_PairwiseSigTstats._reference_values", e, [alt, want], "a negative selected index refers to the inserted-columns block [b][1], otherwise to the base block [b][0]; proportion and base taken from the same block and column")
    pv = ctx.repo.cls(MM, "_PairwiseSigPvals")
    e = expand(ctx.repo, pv, "_selected_columns_base", bind={"table_index": ast.Name(id="table_index", ctx=ast.Load())}, stop=stop)
    want = (
        "self._column_bases[table_index][1][:, [self._selected_column_idx]] if self._selected_column_idx < 0 else "
        "self._column_bases[table_index][0][:, [self._selected_column_idx]]"
    )
    ctx.check_expr("reference-column", f"{MM}::_PairwiseSigPvals._selected_columns_base", e, want, "the selected column's base comes from the SAME (effective or unweighted) bases as the compared column's, block [b][1] for a subtotal column")
    e = expand(ctx.repo, ci, "_proportions")
    ctx.check_expr("reference-column", f"{MM}::_PairwiseSigTstats._proportions", e, f"{SOM}.column_proportions.blocks")
    # same-source rule: on every path the selected column's base is taken from self._column_bases
    e = expand(ctx.repo, pv, "_selected_columns_base", bind={"table_index": ast.Name(id="table_index", ctx=ast.Load())}, stop=stop)
    roots = []
    for _g, leaf in strip_ifexp_paths(e):
        r = leaf
        while isinstance(r, ast.Subscript):
            r = r.value
        roots.append(u(r))
    foreign = [r for r in roots if r != "self._column_bases"]
    where = f"{MM}::_PairwiseSigPvals._selected_columns_base [source]"
    if foreign and all(".blocks" in r or "_bases" in r for r in foreign):
        ctx.violated("same-base", where, roots, "every path reads self._column_bases", "the degrees of freedom add the base of the selected column and of the compared column: both must be the same kind of base (effective when squared weights exist)")
    elif foreign:
        ctx.undecided("same-base", where, str(roots), "every path reads self._column_bases")
    else:
        ctx.held("same-base", where, roots, "every path reads self._column_bases")


def block_calls(ctx: Ctx):
    ci = ctx.repo.cls(MM, "_PairwiseSigTstats")
    stop = lambda m: m.name in ("_proportions", "_column_bases", "_reference_values", "_calculate_t_stats")
    for member, (i, j) in (("_base_values", (0, 0)), ("_subtotal_columns", (0, 1)), ("_subtotal_rows", (1, 0)), ("_intersections", (1, 1))):
        e = expand(ctx.repo, ci, member, stop=stop)
        want = (
            f"self._calculate_t_stats(self._proportions[{i}][{j}], self._column_bases[{i}][{j}], "
            f"self._reference_values({i})[0], self._reference_values({i})[1])"
        )
        ctx.check_expr("block-arguments", f"{MM}::_PairwiseSigTstats.{member}", e, want, f"block ({i},{j}) compares its own proportions/bases with the reference values of row-block {i}")
        ctx.count("t-stat block call sites")
    ctx.require_min("t-stat block call sites", 4)


def pvals(ctx: Ctx):
    ci = ctx.repo.cls(MM, "_PairwiseSigPvals")
    m = ctx.repo.lookup(ci, "_p_vals")
    body = SUMMARIZER.summarize(m.node)
    where = f"{MM}::_PairwiseSigPvals._p_vals"
    ctx.check_expr(
        "p-formula",
        where,
        body,
        "2 * (1 - t.cdf(abs(t_stats), df=columns_base + selected_columns_base - 2 if t_stats.size > 0 else 0))",
        "two-sided Student-t tail with n_a + n_b - 2 degrees of freedom",
    )
    # whatever the spelling: the p-value is defined wherever the STATISTIC is - an infinite t (both proportions degenerate
    # and different: zero variance) is a test with p exactly 0, only a NaN t has no p.  A finiteness mask on the statistic
    # (np.isfinite / ~np.isinf) silently drops those columns from the index sets.
    from ..stmts import reachable_functions, resolver

    n_fn, hits = 0, []
    for cname in ("_PairwiseSigPvals", "_PairwiseMeansSigPVals", "_PairwiseSigPValsForSubvar"):
        pc = ctx.repo.opt_cls(MM, cname)
        if pc is None:
            continue
        for member in ("_p_vals", "blocks"):
            if ctx.repo.lookup(pc, member) is None:
                continue
            for fn in reachable_functions(ctx.repo, pc, member):
                n_fn += 1
                res = resolver(fn, multi=True)
                params = {a.arg for a in fn.args.args}
                for c in ast.walk(fn):
                    if isinstance(c, ast.Call) and u(c.func) in ("np.isfinite", "np.isinf", "np.isposinf", "np.isneginf", "math.isfinite") and c.args:
                        texts = [u(v).lower() for v in res(c.args[0])] + [u(c.args[0]).lower()]
                        if any("t_stat" in t or "tstat" in t or t in ("t", "ts") for t in texts):
                            hits.append((f"{MM}::{cname}.{getattr(fn, 'name', member)}", u(c)))
    ctx.count("p-value functions scanned for finiteness masks", n_fn)
    for where_, text in sorted(set(hits)):
        ctx.violated("p-defined-where-t-is", where_, f"{text} selects the cells that get a p-value", "p is computed wherever t is not NaN (t = +-inf gives p = 0)",
                     "a column whose t is infinite differs from the selected one with certainty: NaN for its p-value removes it from the pairwise index sets")
    if not hits:
        ctx.held("p-defined-where-t-is", f"{MM}: pairwise p-value classes", f"{n_fn} functions, no finiteness mask on the t statistic", "")
    e = expand(ctx.repo, ci, "blocks", stop=lambda mm: mm.name in ("_p_vals", "_selected_columns_base", "_column_bases"))
    T = f"{SOM}.pairwise_t_stats(self._selected_column_idx).blocks"
    call = lambda i, j: f"self._p_vals({T}[{i}][{j}], self._column_bases[{i}][{j}], self._selected_columns_base({i}))"
    ctx.check_expr("p-blocks", f"{MM}::_PairwiseSigPvals.blocks", e, f"[[{call(0,0)}, {call(0,1)}], [{call(1,0)}, {call(1,1)}]]", "p of block (i,j) from t and base of block (i,j) and the selected column's base of row-block i")
    som = ctx.repo.cls(MM, "SecondOrderMeasures")
    for meth, c in (("pairwise_t_stats", "_PairwiseSigTstats"), ("pairwise_p_vals", "_PairwiseSigPvals"), ("pairwise_significance_means_t_stats", "_PairwiseMeansSigTStats"), ("pairwise_significance_means_p_vals", "_PairwiseMeansSigPVals"), ("pairwise_t_stats_for_subvar", "_PairwiseSigTStatsForSubvar"), ("pairwise_p_vals_for_subvar", "_PairwiseSigPValsForSubvar")):
        mm = ctx.repo.lookup(som, meth)
        body = SUMMARIZER.summarize(mm.node)
        ctx.check_expr("factory-wiring", f"{MM}::SecondOrderMeasures.{meth}", body, f"{c}(self._dimensions, self, self._cube_measures, {mm.params[0]})")


def welch(ctx: Ctx):
    ci = ctx.repo.cls(MM, "_PairwiseMeansSigTStats")
    e = expand(ctx.repo, ci, "t_stats")
    where = f"{MM}::_PairwiseMeansSigTStats.t_stats"
    paths = strip_ifexp_paths(e)
    CM = "self._cube_measures"
    means, sd, n = f"{CM}.cube_means.means", f"{CM}.cube_stddev.stddev", f"{CM}.unweighted_cube_counts.counts"
    idx = "self._selected_column_idx"

    def hook(x: ast.expr):
        # np.broadcast_to(A[:, [idx]], A.shape) -> reference column of A
        if isinstance(x, ast.Call) and u(x.func) == "np.broadcast_to" and len(x.args) == 2:
            a = x.args[0]
            if isinstance(a, ast.Subscript) and u(a.slice) == f"(slice(None, None, None), [{idx}])" or (isinstance(a, ast.Subscript) and u(a).endswith(f"[:, [{idx}]]")):
                base = a.value
                if u(x.args[1]) == u(base) + ".shape":
                    try:
                        return "REF[" + Normalizer(atom_hook=hook).form(base).text() + "]"
                    except NTop:
                        return None
        # the reference column as an (n_rows, 1) column vector, left to numpy broadcasting
        if isinstance(x, ast.Subscript) and u(x).endswith(f"[:, [{idx}]]"):
            try:
                return "REF[" + Normalizer(atom_hook=hook).form(x.value).text() + "]"
            except NTop:
                return None
        return None

    def tri(nc, fc, ns, fs):
        if fc.equals(fs):
            return True
        from ..normform import indefinite_mismatch

        return None if indefinite_mismatch(nc, ns) else False

    leaf = main_leaf(e)
    spec = "(x - REFx)/sqrt(v/n + REFv/REFn)"
    try:
        nc = Normalizer(atom_hook=hook)
        fc = nc.form(leaf)
        spec_expr = f"({means} - XR)/sqrt({sd}**2/{n} + VR/NR)"
        ns = Normalizer(rename={"XR": f"REF[1*{means}]", "VR": f"REF[1*{sd}^2]", "NR": f"REF[1*{n}]"})
        fs = ns.form(ast.parse(spec_expr, mode="eval").body)
        ctx.ob("welch-t", where, fc.text()[:300], fs.text()[:300], tri(nc, fc, ns, fs), "Welch t on the cell means, variances (stddev^2) and unweighted counts, reference = the selected column")
    except NTop as t:
        ctx.undecided("welch-t", where, f"NORM: {t}", spec)
    check_side_paths(ctx, "welch-t.subtotal-selected", where, e, [(f"{idx} < 0", f"np.full({sd}.shape, np.nan)")], "NaN when a subtotal column is selected")
    pv = ctx.repo.cls(MM, "_PairwiseMeansSigPVals")
    e = expand(ctx.repo, pv, "_df")
    try:
        nc = Normalizer(atom_hook=hook)
        fc = nc.form(e)
        spec_expr = f"({sd}**2/{n} + VR/NR)**2 / (({sd}**2/{n})**2/({n} - 1) + (VR/NR)**2/(NR - 1))"
        ns = Normalizer(rename={"VR": f"REF[1*{sd}^2]", "NR": f"REF[1*{n}]"})
        fs = ns.form(ast.parse(spec_expr, mode="eval").body)
        ctx.ob("welch-df", f"{MM}::_PairwiseMeansSigPVals._df", fc.text()[:300], fs.text()[:300], tri(nc, fc, ns, fs), "Welch-Satterthwaite degrees of freedom")
    except NTop as t:
        ctx.undecided("welch-df", f"{MM}::_PairwiseMeansSigPVals._df", f"NORM: {t}", "")
    e = expand(ctx.repo, pv, "p_vals", stop=lambda m: m.name in ("t_stats", "_df"))
    ctx.check_expr("welch-p", f"{MM}::_PairwiseMeansSigPVals.p_vals", e, "2 * (1 - t.cdf(abs(self.t_stats), df=self._df))")
    for c, member in (("_PairwiseMeansSigTStats", "t_stats"), ("_PairwiseMeansSigPVals", "p_vals")):
        e = expand(ctx.repo, ctx.repo.cls(MM, c), "blocks", stop=lambda m: m.name in ("t_stats", "p_vals"))
        ctx.check_expr("welch-subtotals", f"{MM}::{c}.blocks", e, f"NanSubtotals.blocks(self.{member}, self._dimensions)", "means cannot be compared for subtotals: NaN")


def overlap(ctx: Ctx):
    ci = ctx.repo.cls(MM, "_PairwiseSignificaneBetweenSubvariablesHelper")
    where = f"{MM}::_PairwiseSignificaneBetweenSubvariablesHelper"
    e = expand(ctx.repo, ci, "t_stats", stop=lambda m: m.name in ("_df",))
    paths = strip_ifexp_paths(e)
    leaf = main_leaf(e)
    sb, vb, cp = "self._selected_bases", "self._valid_bases", "self._column_proportions"
    r, a, b = "self._row_idx", "self._idx_a", "self._idx_b"
    names = {
        "Sa": f"{sb}[{r}, {a}, {a}]", "Sb": f"{sb}[{r}, {b}, {b}]", "Sab": f"{sb}[{r}, {a}, {b}]",
        "Na": f"{vb}[{r}, {a}, {a}]", "Nb": f"{vb}[{r}, {b}, {b}]", "Nab": f"{vb}[{r}, {a}, {b}]",
        "ca": f"{cp}[{r}, {a}]", "cb": f"{cp}[{r}, {b}]", "DF": "self._df",
    }
    spec = "(cb - ca)/sqrt((1/DF)*((Sa/Na)*(1-Sa/Na) + (Sb/Nb)*(1-Sb/Nb) + 2*(Sa/Na)*(Sb/Nb) - 2*(Sab/Nab)))"
    v, cnf, snf, _ = equal(leaf, spec, rename_spec=names)
    if v is None:
        ctx.undecided("overlap-t", where + ".t_stats", cnf, spec)
    else:
        ctx.ob("overlap-t", where + ".t_stats", cnf[:300], snf[:300], v, "overlap-corrected statistic, compared column minus selected column")
    check_side_paths(ctx, "overlap-t.self", where + ".t_stats", e, [("self._idx_a == self._idx_b", "0.0")], "a column against itself gives t = 0")
    e = expand(ctx.repo, ci, "_df")
    v, cnf, snf, _ = equal(e, "Na + Nb - Nab", rename_spec=names)
    ctx.ob("overlap-df", where + "._df", cnf, snf, v, "df = non-overlapping valid cases of a and b")
    e = expand(ctx.repo, ci, "p_vals", stop=lambda m: m.name in ("t_stats", "_df"))
    ctx.check_expr("overlap-p", where + ".p_vals", e, "0.0 if self._idx_a == self._idx_b else 2 * (1 - t.cdf(abs(self.t_stats), df=self._df - 2))", "p on df - 2; a column against itself is never below any alpha... (reported as 0.0 and excluded by the index rule t<0 / same column)")
    # the overlap bases differ from row to row (MR x MR: selected + other of the ROW item): whoever computes t / p / df for
    # the sub-variable tests takes them per row - a literal row index picks one row's bases for every row
    from ..stmts import resolver as _resolver

    for cname in ("_PairwiseSigTStatsForSubvar", "_PairwiseSigPValsForSubvar"):
        cc = ctx.repo.opt_cls(MM, cname)
        if cc is None:
            continue
        hits = []
        for mm in cc.members.values():
            if not isinstance(mm.node, ast.FunctionDef):
                continue
            res_ = _resolver(mm.node, multi=True)
            for n in ast.walk(mm.node):
                if isinstance(n, ast.Subscript):
                    first = n.slice.elts[0] if isinstance(n.slice, ast.Tuple) and n.slice.elts else n.slice
                    if isinstance(first, ast.Constant) and isinstance(first.value, int) and not isinstance(first.value, bool):
                        if any(t_.endswith("cube_overlaps.valid_bases") or t_.endswith("cube_overlaps.selected_bases") for t_ in (u(v) for v in res_(n.value))):
                            hits.append(f"{mm.name}: {u(n)[:70]}")
        ctx.ob("overlap-bases.per-row", f"{MM}::{cname}", hits or "the overlap bases are handed on whole, with the row index", "bases of the cell's own row", not hits,
               "row 0's valid bases (degrees of freedom) used for every row: wrong p-values wherever the row items have different amounts of missing data")
    # overlap bases (AXIS)
    for cname, roles, exp_sel, exp_val in (
        ("_CatXMrOverlaps", ("R", "C", "Csel", "S"), "out=(R,C,S) R:Σ C:K Csel:F0 S:K", "out=(R,C,S) R:Σ C:K Csel:Σ[0:2] S:K"),
        ("_MrXMrOverlaps", ("R", "Rsel", "C", "Csel", "S"), "out=(R,C,S) R:K Rsel:Σ[0:2] C:K Csel:F0 S:K", "out=(R,C,S) R:K Rsel:Σ[0:2] C:K Csel:Σ[0:2] S:K"),
    ):
        oc = ctx.repo.cls(LY.MCM, cname)
        for member, field_, exp in (("selected_bases", "_overlaps", exp_sel), ("valid_bases", "_valid_overlaps", exp_val)):
            leaves = {f"self.{field_}": source(field_, roles), "self._overlaps": source("_overlaps", roles)}
            leaves[f"self.{field_}"] = source(field_, roles)
            LY.check_layout(ctx, "overlap-bases", oc, member, leaves, exp, "selected = selected on the column item; valid = selected + other (non-missing); MR rows: selected + other of the row item; CAT rows: all categories together")
            ctx.count("overlap base layouts")
    ctx.require_min("overlap base layouts", 4)


def indices(ctx: Ctx):
    sl = ctx.repo.cls("cubepart.py", "_Slice")
    m = ctx.repo.lookup(sl, "_pairwise_indices")
    where = "cubepart.py::_Slice._pairwise_indices"
    src = m.node
    sig = only = where_call = None
    for n in ast.walk(src):
        if isinstance(n, ast.Assign) and u(n.targets[0]) == "significance":
            from ..stmts import enclosing_guards as _eg

            gts = [u(t) for t, _p in _eg(src, n)]
            if sig is None and not gts:
                sig = u(n.value)
            elif any("only_larger" in g for g in gts):
                only = u(n.value)  # the assignment made under `if only_larger`
        if isinstance(n, ast.Subscript) and isinstance(n.value, ast.Call) and u(n.value.func) in ("np.where", "np.nonzero") and u(n.slice) == "0" and len(n.value.args) == 1:
            where_call = "positions of the true entries of a row of the significance matrix"
        if isinstance(n, ast.Call) and u(n.func) == "np.flatnonzero":
            where_call = "positions of the true entries of a row of the significance matrix"
    ctx.check_expr("threshold", where + " [alpha]", ast.parse(sig or "None", mode="eval").body, "p_vals < alpha", "a column is listed when its p-value is below alpha")
    ctx.check_expr("threshold", where + " [only-larger]", ast.parse(only or "None", mode="eval").body, ["np.logical_and(t_stats < 0, significance)", "(t_stats < 0) & significance", "np.logical_and(significance, t_stats < 0)", "significance & (t_stats < 0)"], "only-larger: additionally the other column's proportion is smaller (t < 0), so a column never lists itself (t = 0)")
    # polarity: undefined (NaN) p-values - empty columns, difference columns - compare False with everything, so
    # "significant" must be the POSITIVE comparison p < alpha; deriving it from the complement (p >= alpha -> not
    # significant, everything else significant) lists every column whose p-value is undefined.
    cmps = []
    for n in ast.walk(src):
        if isinstance(n, ast.Compare) and len(n.ops) == 1:
            l, r = u(n.left), u(n.comparators[0])
            if "p_val" in l and "alpha" in r:
                cmps.append((type(n.ops[0]).__name__, u(n)))
            elif "alpha" in l and "p_val" in r:
                flip = {"Lt": "Gt", "Gt": "Lt", "LtE": "GtE", "GtE": "LtE"}
                cmps.append((flip.get(type(n.ops[0]).__name__, type(n.ops[0]).__name__), u(n)))
    has_nan_guard = any(isinstance(n, ast.Call) and u(n.func).endswith("isnan") for n in ast.walk(src))
    if not cmps:
        ctx.undecided("threshold.polarity", where, "no comparison of the p-values with alpha found", "p_vals < alpha")
    for op, text in cmps:
        if op == "Lt":
            ctx.held("threshold.polarity", where + f" [{text}]", text, "p < alpha", "positive comparison: an undefined p-value is never significant")
        elif op == "LtE":
            ctx.violated("threshold.polarity", where + f" [{text}]", text, "p < alpha", "'below alpha' is strict")
        elif op in ("GtE", "Gt") and not has_nan_guard:
            ctx.violated("threshold.polarity", where + f" [{text}]", text, "p < alpha", "significance derived from the complement test: an undefined (NaN) p-value fails p >= alpha and is reported as significant")
        else:
            ctx.undecided("threshold.polarity", where + f" [{text}]", "comparison of unexpected form", "p < alpha")
    ctx.ob("threshold", where + " [positions]", where_call, "np.where(row)[0] / np.nonzero(row)[0]", True if where_call else None, "positions are those of the assembled (display-ordered) row")
    cp = ctx.repo.cls("cubepart.py", "CubePartition")
    e = expand(ctx.repo, cp, "_alpha", stop=lambda mm: True)
    ctx.check_expr("alpha-order", "cubepart.py::CubePartition._alpha", e, "self._alpha_values[0]")
    e = expand(ctx.repo, cp, "_alpha_alt", stop=lambda mm: True)
    ctx.check_expr("alpha-order", "cubepart.py::CubePartition._alpha_alt", e, "self._alpha_values[1]")
    m = ctx.repo.lookup(cp, "_alpha_values")
    # decision table (DECTAB) over the shapes of the alpha transform; where the summarised function is not interpretable
    # (a validating loop), the returns are inspected: a sorted pair among them holds, nothing found is undecided
    from ..dectab import DTop, ModelInterp, Raises

    where_a = "cubepart.py::CubePartition._alpha_values"
    body_a = SUMMARIZER.summarize(m.node)
    cases = [(None, (0.05, None)), (0.1, (0.1, None)), ([0.1], (0.1, None)), ([0.1, 0.05], (0.05, 0.1)), ((0.05, 0.1), (0.05, 0.1)), ([0.2, 0.01, 0.5], (0.01, 0.2))]
    bad, undec = [], None
    for value, want_v in cases:
        def atoms(x, value=value):
            if u(x) in ("self._transforms_dict.get('pairwise_indices', {}).get('alpha')",):
                return value
            raise KeyError

        class _I(ModelInterp):
            def _call(self, c, it):
                if isinstance(c.func, ast.Name) and c.func.id == "repr":
                    return "repr"
                return super()._call(c, it)

        try:
            got = _I(atoms).ev(body_a)
        except Raises as r:
            bad.append(f"alpha {value!r}: raises {r.etype}")
            continue
        except DTop as t:
            undec = str(t)
            break
        if tuple(got) != want_v:
            bad.append(f"alpha {value!r} -> {tuple(got)}, specified {want_v}")
    if undec is None:
        ctx.ob("alpha-order", where_a, bad[:3] or f"{len(cases)} shapes of the alpha transform", "(alpha, None) for one value; the two values in ascending order", not bad, "primary alpha <= secondary alpha, hence the secondary index sets contain the primary ones")
    else:
        rets = [u(n.value) for n in ast.walk(m.node) if isinstance(n, ast.Return) and n.value is not None]
        has_sorted = any("tuple(sorted(value[:2]))" in r for r in rets)
        ctx.ob("alpha-order", where_a, [r[:60] for r in rets][-2:], "tuple(sorted(value[:2])) among the returns", True if has_sorted else None, "primary alpha <= secondary alpha, hence the secondary index sets contain the primary ones")
    for prop, alpha in (("pairwise_indices", "self._alpha"), ("pairwise_indices_alt", "self._alpha_alt")):
        e = expand(ctx.repo, sl, prop, stop=lambda mm: True)
        leaf = main_leaf(e)
        want = [
            f"np.array([self._pairwise_indices(self._pairwise_significance_p_vals(col), self._pairwise_significance_t_stats(col), {alpha}, self._only_larger{extra}) "
            "for col in range(len(self._column_order_signed_indexes))]).T"
            for extra in ("", ", col")  # with or without the selected display position (masked by the callee, see self-exclusion)
        ]
        ctx.check_expr("index-sets", f"cubepart.py::_Slice.{prop}", leaf, want, "one test per DISPLAYED column, p and t of the same selected column, transposed to rows x columns")


def self_exclusion(ctx: Ctx):
    """"... never the column itself".  On the ordinary path a column against itself has t = 0, hence p = 1, hence is never
    below alpha.  The overlaps helper reports a CONSTANT for the self-comparison; if that constant is below 1 the index
    sets must exclude the selected column explicitly: the selected position reaches `_pairwise_indices` and is masked."""
    from ..dectab import DTop, ModelInterp, Raises

    hc = ctx.repo.opt_cls(MM, "_PairwiseSignificaneBetweenSubvariablesHelper")
    where = f"{MM}::_PairwiseSignificaneBetweenSubvariablesHelper.p_vals [a == b]"
    if hc is None or ctx.repo.lookup(hc, "p_vals") is None:
        ctx.undecided("self-exclusion", where, "overlaps helper not found", "")
        return
    body = SUMMARIZER.summarize(ctx.repo.lookup(hc, "p_vals").node)

    def atoms(x):
        if u(x) in ("self._idx_a", "self._idx_b"):
            return 1
        raise KeyError

    try:
        self_p = ModelInterp(atoms).ev(body)
    except (DTop, Raises) as t:
        ctx.undecided("self-exclusion", where, f"DECTAB: {t}", "p-value of a column against itself")
        return
    sl_ = ctx.repo.cls("cubepart.py", "_Slice")
    pi = ctx.repo.lookup(sl_, "_pairwise_indices")
    params = [a for a in pi.params if a not in ("self", "cls")] if pi is not None else []
    # the parameter of _pairwise_indices whose column is masked:  significance[:, <param>] = False  - in the function itself
    # or in a helper of the class it hands the parameter to
    def masked_params(member, depth=0):
        ps = [a for a in member.params if a not in ("self", "cls")]
        out = set()
        for n in ast.walk(member.node):
            if isinstance(n, ast.Assign) and isinstance(n.targets[0], ast.Subscript) and u(n.value) == "False":
                slc = n.targets[0].slice
                if isinstance(slc, ast.Tuple) and len(slc.elts) == 2 and isinstance(slc.elts[1], ast.Name) and slc.elts[1].id in ps:
                    out.add(slc.elts[1].id)
            if depth < 2 and isinstance(n, ast.Call) and isinstance(n.func, ast.Name) and n.func.id in sl_.module.functions:
                fnode = sl_.module.functions[n.func.id]
                fps = [a.arg for a in fnode.args.posonlyargs + fnode.args.args]
                inner = set()
                for x in ast.walk(fnode):
                    if isinstance(x, ast.Assign) and isinstance(x.targets[0], ast.Subscript) and u(x.value) == "False":
                        slc = x.targets[0].slice
                        if isinstance(slc, ast.Tuple) and len(slc.elts) == 2 and isinstance(slc.elts[1], ast.Name) and slc.elts[1].id in fps:
                            inner.add(slc.elts[1].id)
                bound_f = dict(zip(fps, n.args))
                bound_f.update({k.arg: k.value for k in n.keywords if k.arg})
                for fp, av in bound_f.items():
                    if fp in inner and isinstance(av, ast.Name) and av.id in ps:
                        out.add(av.id)
            if depth < 2 and isinstance(n, ast.Call) and isinstance(n.func, ast.Attribute) and isinstance(n.func.value, ast.Name) and n.func.value.id in ("self", "cls", "_Slice", "CubePartition"):
                h = ctx.repo.lookup(sl_, n.func.attr)
                if h is not None and h is not member and h.kind in ("method", "staticmethod", "classmethod"):
                    hm = masked_params(h, depth + 1)
                    hps = [a for a in h.params if a not in ("self", "cls")]
                    bound_h = dict(zip(hps, n.args))
                    bound_h.update({k.arg: k.value for k in n.keywords if k.arg})
                    for hp, av in bound_h.items():
                        if hp in hm and isinstance(av, ast.Name) and av.id in ps:
                            out.add(av.id)
        return out

    masked = masked_params(pi) if pi is not None else set()
    from ..stmts import reachable_functions
    from .common import _position_vars

    for prop in ("pairwise_indices", "pairwise_indices_alt"):
        w = f"cubepart.py::_Slice.{prop}"
        if ctx.repo.lookup(sl_, prop) is None:
            ctx.undecided("self-exclusion", w, "accessor not found", "never the column itself")
            continue
        # every call of _pairwise_indices reachable from the accessor (through helper methods, loops or comprehensions): is
        # the masked parameter bound to the loop position?
        passes, omits, n_calls = False, False, 0
        for fn in reachable_functions(ctx.repo, sl_, prop, depth=3):
            loopvars = _position_vars(fn)
            for c in ast.walk(fn):
                if isinstance(c, ast.Call) and (u(c.func).endswith("._pairwise_indices") or u(c.func) == "_pairwise_indices"):
                    n_calls += 1
                    bound = dict(zip(params, c.args))
                    bound.update({k.arg: k.value for k in c.keywords if k.arg})
                    if any(p_ in masked and isinstance(v_, ast.Name) and v_.id in loopvars for p_, v_ in bound.items()):
                        passes = True
                    elif masked and not any(p_ in masked for p_ in bound):
                        omits = True
        if isinstance(self_p, (int, float)) and not isinstance(self_p, bool) and self_p >= 1:
            ctx.held("self-exclusion", w, f"p(a, a) = {self_p} on every path", "a column is never significantly different from itself")
        elif passes and not omits:
            ctx.held("self-exclusion", w, f"p(a, a) = {self_p!r} on the overlaps path; the selected column is masked in the index sets", "never the column itself")
        elif isinstance(self_p, (int, float)) and not isinstance(self_p, bool) and n_calls and (not masked or omits):
            # positive evidence: nothing masks a selected column at all, or a call leaves the selected column out
            ctx.violated("self-exclusion", w, f"the overlaps helper reports p(a, a) = {self_p} and the index sets keep every column with p < alpha", "the selected column is excluded from its own index sets",
                         "without only-larger mode every column lists itself on the overlaps path")
        else:
            ctx.undecided("self-exclusion", w, f"p(a, a) = {self_p!r}; calls of _pairwise_indices found: {n_calls}", "never the column itself")


def translation(ctx: Ctx):
    sl = ctx.repo.cls("cubepart.py", "_Slice")
    for meth in ("_pairwise_significance_p_vals", "_pairwise_significance_t_stats", "_pairwise_significance_means_p_vals", "_pairwise_significance_means_t_stats"):
        m = ctx.repo.lookup(sl, meth)
        body = SUMMARIZER.summarize(m.node)
        bad = []
        n_calls = 0
        params = [a.arg for a in m.node.args.args if a.arg not in ("self", "cls")]
        pname = params[0] if params else "column_idx"  # the display position: the method's own (first) parameter
        for n in ast.walk(body):
            if isinstance(n, ast.Call) and isinstance(n.func, ast.Attribute) and u(n.func.value) == "self._measures":
                n_calls += 1
                if not n.args or u(n.args[0]) != f"self._column_order_signed_indexes[{pname}]":
                    bad.append(u(n)[:100])
        ctx.ob(
            "display-translation",
            f"cubepart.py::_Slice.{meth}",
            bad or f"{n_calls} measure call(s), each with self._column_order_signed_indexes[{pname}]",
            "the display position is translated to the (signed) payload index before it selects a column of the unassembled blocks",
            False if bad else (True if n_calls >= 1 else None),
        )
        ctx.count("display translations")
    ctx.require_min("display translations", 4)


def legacy(ctx: Ctx):
    ci = ctx.repo.cls(PS, "_ColumnPairwiseSignificance")
    m = ctx.repo.lookup(ci, "t_stats")
    body = SUMMARIZER.summarize(m.node)
    where = f"{PS}::_ColumnPairwiseSignificance.t_stats"
    p = "self._slice.column_proportions"
    var = (
        f"({p} * (1.0 - {p}) / (self._slice.columns_margin ** 2 / self._slice.columns_squared_base) "
        f"if self._slice.columns_squared_base is not None else {p} * (1.0 - {p}) / self._slice.columns_base)"
    )
    want = f"({p} - {p}[:, [self._col_idx]]) / np.sqrt({var} + {var}[:, [self._col_idx]])"
    ctx.check_expr(
        "legacy-effective-base",
        where,
        body,
        want,
        "legacy implementation obeys the same base rule as the matrix measure: effective base = (WEIGHTED column margin)^2 / squared base when squared weights exist, else the unweighted base",
    )
    # the same rule case by case (NORM after specialising every test of `columns_squared_base is None`): robust against the
    # base selection being moved into a helper or merged into one branch-free formula
    import copy as _copy

    SQ = "self._slice.columns_squared_base"
    full = expand(ctx.repo, ci, "t_stats")

    class _Case(ast.NodeTransformer):
        def __init__(self, absent: bool):
            self.absent = absent

        def visit_IfExp(self, n):
            t = n.test
            neg = False
            while isinstance(t, ast.UnaryOp) and isinstance(t.op, ast.Not):
                t, neg = t.operand, not neg
            if isinstance(t, ast.Compare) and len(t.ops) == 1 and u(t.left) == SQ and u(t.comparators[0]) == "None" and isinstance(t.ops[0], (ast.Is, ast.IsNot)):
                truth = (self.absent if isinstance(t.ops[0], ast.Is) else not self.absent) != neg
                return self.visit(n.body if truth else n.orelse)
            return self.generic_visit(n)

    for absent, base, label in ((False, f"self._slice.columns_margin ** 2 / {SQ}", "squared weights supplied"), (True, "self._slice.columns_base", "no squared weights")):
        case = _Case(absent).visit(_copy.deepcopy(full))
        if absent and SQ in u(case):
            ctx.undecided("legacy-effective-base.cases", where + f" [{label}]", "the absent squared base is still read on this path", base)
            continue
        var_c = f"({p} * (1.0 - {p}) / ({base}))"
        want_c = f"({p} - REF({p})) / np.sqrt({var_c} + REF({var_c}))"

        class _Ref(ast.NodeTransformer):
            # X[:, [self._col_idx]] (the reference column, broadcast) as an uninterpreted function of X
            def visit_Subscript(self, n):
                n = self.generic_visit(n)
                sl = n.slice
                if isinstance(sl, ast.Tuple) and len(sl.elts) == 2 and isinstance(sl.elts[0], ast.Slice) and u(sl.elts[1]).replace(" ", "") == "[self._col_idx]":
                    return ast.Call(func=ast.Name(id="REF", ctx=ast.Load()), args=[n.value], keywords=[])
                return n

        case = ast.fix_missing_locations(_Ref().visit(case))
        v, cnf, snf, _ = equal(case, want_c)
        ctx.ob("legacy-effective-base.cases", where + f" [{label}]", cnf, snf, v,
               "n = (sum w)^2 / sum w^2 when squared weights are supplied, the UNWEIGHTED column base otherwise (a weighted cube without squared weights must not use its weighted N)")


def overlap_axes(ctx: Ctx):
    """The overlap tensors carry ONE MORE axis than the cube has dimensions (`_OverlapMeasure._shape` = the dimensions'
    shape + the number of sub-variables), and the overlap-corrected test reads them at [row, a, a], [row, b, b],
    [row, a, b] with a, b counted over the VALID columns.  Restricting the tensor to valid elements with the cube's own
    per-dimension index tuple leaves the extra axis whole: with a missing sub-variable the 'diagonal' and the 'pair'
    cells come from different sub-variables (t no longer antisymmetric, p not symmetric)."""
    cube = ctx.repo.cls("cube.py", "Cube")
    om = ctx.repo.cls("cube.py", "_OverlapMeasure")
    shape = expand(ctx.repo, om, "_shape", stop=lambda m: m.name != "_shape")
    extra_axis = isinstance(shape, ast.BinOp) and isinstance(shape.op, ast.Add) and "_all_dimensions.shape" in u(shape.left)
    n = 0
    for member in ("overlaps", "valid_overlaps"):
        if ctx.repo.lookup(cube, member) is None:
            continue
        where = f"cube.py::Cube.{member} [axes restricted to valid elements]"
        e = expand(ctx.repo, cube, member, stop=lambda m: m.name != member)
        subs = [s for s in ast.walk(e) if isinstance(s, ast.Subscript) and "raw_cube_array" in u(s.value)]
        n += 1
        if not extra_axis or len(subs) != 1:
            ctx.undecided("overlap-axes", where, u(e)[:120], "the raw tensor restricted on every axis, the trailing sub-variables axis included")
            continue
        idx = u(subs[0].slice)
        if idx == "self._valid_idxs":
            ctx.violated("overlap-axes", where, f"raw_cube_array[{idx}] on a tensor of shape {u(shape)[:60]}", "the trailing sub-variables axis restricted to the valid sub-variables as well",
                         "a missing sub-variable shifts the trailing axis against the columns axis: [row, a, a] / [row, a, b] read other sub-variables than columns a, b")
        elif "_valid_idxs" in idx or "valid_elements" in idx:
            ctx.held("overlap-axes", where, idx[:100], "every axis restricted")
        else:
            ctx.undecided("overlap-axes", where, idx[:100], "every axis restricted")
    ctx.count("overlap tensors", n)
    ctx.require_min("overlap tensors", 2)


def overlap_path_guard(ctx: Ctx):
    """The overlap-corrected test is for overlapping multiple-response COLUMNS: the switch `_Slice._cube_has_overlaps` is
    True exactly when the columns dimension is multiple response AND the response carries both overlap measures.
    Decision table over (columns type, overlap present, valid-overlap present); the measures may be asked for through
    the accessors or through the set of available measure names."""
    from ..dectab import DTop, ModelInterp, Raises

    sl = ctx.repo.cls("cubepart.py", "_Slice")
    where = "cubepart.py::_Slice._cube_has_overlaps"
    if ctx.repo.lookup(sl, "_cube_has_overlaps") is None:
        ctx.undecided("overlap-path.guard", where, "member not found", "")
        return
    e = expand(ctx.repo, sl, "_cube_has_overlaps", stop=lambda m: m.name != "_cube_has_overlaps" and not (m.name.startswith("_") and m.kind in ("method", "staticmethod", "classmethod")))
    bad, n = [], 0
    for col_type in ("MR", "CAT", "CA_CAT"):
        for ov in (True, False):
            for vov in (True, False):
                def atoms(x, col_type=col_type, ov=ov, vov=vov):
                    t = u(x)
                    if t in ("self._dimensions[-1].dimension_type", "self._dimensions[1].dimension_type", "self._columns_dimension.dimension_type", "self._cube.dimension_types[-1]"):
                        return col_type
                    if t in ("self._dimensions[0].dimension_type", "self._dimensions[-2].dimension_type", "self._rows_dimension.dimension_type"):
                        return "MR"  # the ROWS being multiple response is not what the switch is about
                    if t == "self._cube.overlaps":
                        return ("OVERLAPS",) if ov else None
                    if t == "self._cube.valid_overlaps":
                        return ("VALID_OVERLAPS",) if vov else None
                    if t == "self._cube.available_measures":
                        return frozenset(["COUNT"] + (["OVERLAP"] if ov else []) + (["VALID_OVERLAP"] if vov else []))
                    if isinstance(x, ast.Attribute) and isinstance(x.value, ast.Name) and x.value.id in ("DT", "CM", "CUBE_MEASURE"):
                        return x.attr
                    if isinstance(x, ast.Set):
                        raise KeyError
                    raise KeyError

                try:
                    got = ModelInterp(atoms).ev(e)
                except Raises as r:
                    bad.append(f"columns {col_type}, overlap {ov}, valid overlap {vov}: raises {r.etype}")
                    continue
                except DTop as t_:
                    ctx.undecided("overlap-path.guard", where, "DECTAB: " + str(t_), "True iff MR columns and both overlap measures")
                    return
                n += 1
                want = col_type == "MR" and ov and vov
                if bool(got) != want:
                    bad.append(f"columns {col_type}, overlap {'present' if ov else 'absent'}, valid overlap {'present' if vov else 'absent'}: {bool(got)}")
    ctx.count("overlap switch cases", n)
    ctx.ob("overlap-path.guard", where, bad[:3] or f"{n} cases", "True exactly for multiple-response columns with both overlap measures", not bad,
           "with overlap measures of an MR that is NOT the columns dimension the column test reads the overlap tensor in the wrong layout (NaN / IndexError / wrong p)")
