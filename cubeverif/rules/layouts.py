"""Shared helpers: factory dispatch tables and AXIS derivation for cube-measure classes."""
from __future__ import annotations

import ast
from typing import Dict, List, Optional, Tuple

from ..axes import AV, AxisEval, Ratio, RoleClash, Top, nf, source
from ..core import Ctx
from ..dectab import DTop, Interp, Raises
from ..loader import AnalysisError, ClassInfo, Member
from ..specs import layout as L
from ..symex import SUMMARIZER, expand, strip_ifexp_paths, u

MCM = "matrix/cubemeasure.py"
SCM = "stripe/cubemeasure.py"

KIND_TYPES = {
    "MR": "DIMENSION_TYPE.MR_SUBVAR",
    "ARR": "DIMENSION_TYPE.CA_SUBVAR",  # representative non-MR array type
    "NUM": "DIMENSION_TYPE.NUM_ARRAY",
    "CAT": "DIMENSION_TYPE.CAT",
}
ARRAY_TYPES = {"DIMENSION_TYPE.CA_SUBVAR", "DIMENSION_TYPE.MR_SUBVAR", "DIMENSION_TYPE.NUM_ARRAY"}


def factory_body(ctx: Ctx, ci: ClassInfo, member: str = "factory") -> ast.expr:
    """The factory as ONE expression, with the private helpers it calls on `cls` (static / class methods) inlined;
    `_slice_idx_expr` stays symbolic (other rules recognise it by name)."""
    from ..symex import Expander

    fac = ctx.repo.lookup(ci, member)
    if fac is None:
        raise AnalysisError(f"factory vanished: {ci.qual}.{member}")
    return Expander(ctx.repo, ci, stop=lambda m: m.name == "_slice_idx_expr").expand_member(fac)


def factory_dispatch(ctx: Ctx, short: str, base_cls: str, kinds: List[Tuple[str, ...]], dim_expr_ok) -> Dict[Tuple[str, ...], Optional[ClassInfo]]:
    """Evaluate `Base.factory` for every kind tuple: which class is constructed.

    The factory body is summarised to one expression; its class-valued callee is
    evaluated (DECTAB) with `cube.dimension_types[-2:]` (or the dimensions' types) bound
    to the abstract kind tuple.
    """
    ci = ctx.repo.cls(short, base_cls)
    fac = ctx.repo.lookup(ci, "factory")
    if fac is None:
        raise AnalysisError(f"factory vanished: {short}::{base_cls}.factory")
    body = factory_body(ctx, ci)
    mod = ci.module
    out: Dict[Tuple[str, ...], Optional[ClassInfo]] = {}
    for kinds_t in kinds:
        types_t = tuple(KIND_TYPES[k] for k in kinds_t)

        def atoms(e: ast.expr, types_t=types_t):
            t = u(e)
            if dim_expr_ok(t):
                return types_t
            if t == "rows_dimension.dimension_type":
                return types_t[0]
            en = ctx.repo.resolve_enum_alias(mod, e) if isinstance(e, ast.Attribute) else None
            if en is not None:
                if en == "DIMENSION_TYPE.ARRAY_TYPES":
                    return ARRAY_TYPES
                return en
            if isinstance(e, ast.Name) and ctx.repo.resolve_class(mod, e.id) is not None:
                return ctx.repo.resolve_class(mod, e.id)
            if isinstance(e, ast.Name) and e.id == "ca_as_0th":
                return False
            raise KeyError

        def calls(c: ast.Call, it: Interp):
            # {..}.get(key, default)
            if isinstance(c.func, ast.Attribute) and c.func.attr == "get" and isinstance(c.func.value, ast.Dict):
                d = it.ev(c.func.value)
                k = it.ev(c.args[0])
                return d.get(k, it.ev(c.args[1]) if len(c.args) > 1 else None)
            raise DTop(f"call {u(c.func)}")

        it = Interp(atoms, calls)
        picked = None
        try:
            # walk guard paths: raise-guards depend on measure presence (cube.X is None) -> take the non-raising path
            for guards, leaf in strip_ifexp_paths(body):
                if isinstance(leaf, ast.Call) and isinstance(leaf.func, ast.Name) and leaf.func.id == "__raise__":
                    continue
                ok = True
                for g, pol in guards:
                    gt = u(g)
                    if " is None" in gt and gt.startswith("cube."):
                        if pol:  # measure absent -> raising path
                            ok = False
                        continue
                    try:
                        val = it.truth(it.ev(g))
                    except DTop:
                        # a guard over something other than the kind tuple (number of dimensions, a flag):
                        # unknown - this path stays possible
                        continue
                    if val != pol:
                        ok = False
                        break
                if not ok:
                    continue
                if isinstance(leaf, ast.Call):
                    callee = it.ev(leaf.func) if not isinstance(leaf.func, ast.Name) else atoms(leaf.func)
                    if isinstance(callee, ClassInfo):
                        picked = (callee, leaf)
                        break
        except (DTop, Raises, KeyError) as ex:
            picked = None
        out[kinds_t] = picked
    return out


def derive_nf(ctx: Ctx, ci: ClassInfo, member: str, leaves: Dict[str, AV], support_only=False):
    """-> ('nf', text) | ('none', '') | ('top', why) | ('clash', why)."""
    m = ctx.repo.lookup(ci, member)
    if m is None:
        return ("top", f"no member {member}")
    e = expand(ctx.repo, ci, member)
    if isinstance(e, ast.Constant) and e.value is None:
        return ("none", "None")
    if isinstance(e, ast.Call) and isinstance(e.func, ast.Name) and e.func.id == "__raise__":
        return ("top", "raises " + u(e.args[0])[:40])
    try:
        v = AxisEval(leaves).eval(e)
    except Top as t:
        return ("top", f"{t} in {u(e)[:120]}")
    except RoleClash as rc:
        return ("clash", str(rc))
    if isinstance(v, (AV, Ratio)):
        return ("nf", v.normal_form(support_only)), v
    return ("top", f"non-array result {v!r}")


def derive(ctx: Ctx, ci: ClassInfo, member: str, leaves: Dict[str, AV], support_only=False) -> Tuple[str, str, object]:
    r = derive_nf(ctx, ci, member, leaves, support_only)
    if isinstance(r, tuple) and len(r) == 2 and isinstance(r[0], tuple):
        (k, t), v = r
        return k, t, v
    return r[0], r[1], None


def check_layout(ctx: Ctx, rule: str, ci: ClassInfo, member: str, leaves: Dict[str, AV], expected: Optional[str], why: str, support_only=False):
    kind, text, _v = derive(ctx, ci, member, leaves, support_only)
    m = ctx.repo.lookup(ci, member)
    where = f"{ci.module.short}::{ci.name}.{member}"
    if m is not None and m.cls is not ci:
        where += f" (inherited from {m.cls.name})"
    exp = "None (undefined)" if expected is None else expected
    if kind == "nf":
        return ctx.ob(rule, where, text, exp, text == exp, why)
    if kind == "none":
        return ctx.ob(rule, where, "None (undefined)", exp, expected is None, why)
    if kind == "clash":
        return ctx.violated(rule, where, "role clash: " + text, exp, why + " - operands with different axis roles are combined")
    return ctx.undecided(rule, where, "AXIS: " + text, exp)
