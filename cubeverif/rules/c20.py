"""C20 - smoothing is a trailing moving average over categorical-date periods."""
from __future__ import annotations

import ast

from ..core import Ctx
from ..symex import SUMMARIZER, expand, strip_ifexp_paths, u

SMO = "smoothing.py"
MM = "matrix/measure.py"
SM = "stripe/measure.py"
PREFIX_OPS = {"np.cumsum", "np.nancumsum", "np.cumprod", "np.nancumprod", "np.add.accumulate", "np.multiply.accumulate", "np.maximum.accumulate", "np.fft.fft", "np.fft.rfft", "np.sort", "np.argsort"}
LOCAL_OPS = {"np.convolve", "np.lib.stride_tricks.sliding_window_view", "sliding_window_view", "np.mean", "np.sum", "np.nanmean", "np.array", "tuple", "np.ones", "np.full", "np.concatenate", "list", "np.correlate"}


def run(ctx: Ctx):
    ctx.explanation = (
        "DECTAB: the guard table of _can_smooth (empty / not categorical-date / window outside [2, periods]) and identity "
        "on refusal; default window and function; wiring: the smoother is built from the columns dimension (rows dimension "
        "for a strand) and applied to exactly the listed blocks of the listed measures and nowhere else; dependence "
        "footprint: the smoothed value at period t may depend on the periods of its window only - prefix / global "
        "operations (cumulative sums ...) spread one NaN period over all later ones."
    )
    ctx.not_decided = ["the moving-average arithmetic itself and the exact alignment of the NaN prefix (an exact idiom match would be a frozen-fragment rule)"]
    guards(ctx)
    wiring(ctx)
    footprint(ctx)


def guards(ctx: Ctx):
    ci = ctx.repo.cls(SMO, "_SingleSidedMovingAvgSmoother")
    m = ctx.repo.lookup(ci, "_can_smooth")
    body = SUMMARIZER.summarize(m.node)
    paths = [([(u(g), p) for g, p in gs], u(l)) for gs, l in strip_ifexp_paths(body)]
    want = [
        ([("base_values.size == 0", True)], "False"),
        ([("base_values.size == 0", False), ("not self._dimension_type == DT.CAT_DATE", True)], "False"),
        ([("base_values.size == 0", False), ("not self._dimension_type == DT.CAT_DATE", False), ("self._window > base_values.shape[-1] or self._window < 2", True)], "False"),
        ([("base_values.size == 0", False), ("not self._dimension_type == DT.CAT_DATE", False), ("self._window > base_values.shape[-1] or self._window < 2", False)], "True"),
    ]
    where = f"{SMO}::_SingleSidedMovingAvgSmoother._can_smooth"
    if paths == want:
        ctx.held("guard-table", where, "empty -> no; not CAT_DATE -> no; window > periods or window < 2 -> no; else yes", "guard table")
    else:
        # semantic comparison of the window guard as a set of refused windows
        problems = []
        leaves = {l for _g, l in paths}
        if leaves - {"True", "False"}:
            ctx.undecided("guard-table", where, str(paths)[:300], str(want)[:300])
            return
        allg = " ".join(g for gs, _l in paths for g, _p in gs)
        for frag, msg in (
            ("self._window < 2", "windows below 2 must be refused"),
            ("self._window > base_values.shape[-1]", "windows wider than the number of periods (last axis) must be refused"),
            ("DT.CAT_DATE", "only a categorical-date dimension is smoothed"),
            ("base_values.size == 0", "an empty array is returned unchanged"),
        ):
            alts = {frag, frag.replace("self._window < 2", "2 > self._window"), frag.replace("self._window > base_values.shape[-1]", "base_values.shape[-1] < self._window")}
            if not any(a in allg for a in alts):
                problems.append(msg + f" (guard `{frag}` not found)")
        if problems:
            ctx.violated("guard-table", where, "; ".join(problems) + " :: " + allg[:200], "empty / not CAT_DATE / window > periods / window < 2 -> unsmoothed")
        else:
            ctx.undecided("guard-table", where, str(paths)[:300], str(want)[:300])
    e = expand(ctx.repo, ci, "_window", stop=lambda mm: True)
    ctx.check_expr("guard-table.window", f"{SMO}::_SingleSidedMovingAvgSmoother._window", e, "self._smoothing_dict.get('window') or 2", "default window 2")
    m = ctx.repo.lookup(ci, "smooth")
    body = SUMMARIZER.summarize(m.node)
    ok = isinstance(body, ast.IfExp) and u(body.test) == "not self._can_smooth(values)" and u(body.body) == "values"
    ctx.ob("identity-on-refusal", f"{SMO}::_SingleSidedMovingAvgSmoother.smooth", u(body)[:90], "values if not self._can_smooth(values) else <smoothed>", ok, "when smoothing is refused the unsmoothed values are returned unchanged")
    sm = ctx.repo.cls(SMO, "Smoother")
    fac = ctx.repo.lookup(sm, "factory")
    body = SUMMARIZER.summarize(fac.node)
    leaf = strip_ifexp_paths(body)[-1][1]
    ctx.check_expr("factory", f"{SMO}::Smoother.factory", leaf, "_SingleSidedMovingAvgSmoother(smoothing_dict=dimension.smoothing_dict, dimension_type=dimension.dimension_type)", "the smoother carries the spec and the type of the dimension it was built from")
    g = [u(gs[-1][0]) for gs, _l in strip_ifexp_paths(body) if gs]
    ctx.ob("factory.function", f"{SMO}::Smoother.factory", g[:1], "[\"(dimension.smoothing_dict.get('function') or 'one_sided_moving_avg') != 'one_sided_moving_avg'\"]", g[:1] == ["(dimension.smoothing_dict.get('function') or 'one_sided_moving_avg') != 'one_sided_moving_avg'"], "default function one_sided_moving_avg; anything else is refused")
    dim = ctx.repo.cls("dimension.py", "Dimension")
    e = expand(ctx.repo, dim, "smoothing_dict", stop=lambda mm: True)
    ctx.check_expr("factory", "dimension.py::Dimension.smoothing_dict", e, "self._dimension_transforms_dict.get('smoother') or {}")


def wiring(ctx: Ctx):
    e = expand(ctx.repo, ctx.repo.cls(MM, "_SmoothedMeasure"), "_smoother", stop=lambda mm: True)
    ctx.check_expr("wiring.dimension", f"{MM}::_SmoothedMeasure._smoother", e, "Smoother.factory(self._dimensions[-1])", "slice: the smoother is specified on, and typed by, the COLUMNS dimension")
    e = expand(ctx.repo, ctx.repo.cls(SM, "_SmoothedMeasure"), "_smoother", stop=lambda mm: True)
    ctx.check_expr("wiring.dimension", f"{SM}::_SmoothedMeasure._smoother", e, "Smoother.factory(self._rows_dimension)", "strand: the rows dimension")
    SOM = "self._second_order_measures"
    W = f"{SOM}.weighted_counts.blocks"
    B = f"{SOM}.column_weighted_bases.blocks"
    WC = "self._cube_measures.weighted_cube_counts"
    spec = {
        (MM, "_ColumnProportionsSmoothed", "_base_values"): f"self._smoother.smooth({W}[0][0] / {B}[0][0])",
        (MM, "_ColumnProportionsSmoothed", "_subtotal_rows"): f"self._smoother.smooth(WaveDiffSubtotal.subtotal_rows({WC}.column_bases, {WC}.counts, {W}[1][0] / {B}[1][0], self._dimensions))",
        (MM, "_ColumnProportionsSmoothed", "_subtotal_columns"): f"WaveDiffSubtotal.subtotal_columns({WC}.column_bases, {WC}.counts, {W}[0][1] / {B}[0][1], self._dimensions)",
        (MM, "_ColumnProportionsSmoothed", "_intersections"): f"{W}[1][1] / {B}[1][1]",
        (MM, "_ColumnIndexSmoothed", "blocks"): "NanSubtotals.blocks(self._smoother.smooth(self._column_index), self._dimensions)",
        (MM, "_MeansSmoothed", "blocks"): "NanSubtotals.blocks(self._smoother.smooth(self._cube_measures.cube_means.means), self._dimensions)",
        (MM, "_ScaleMeanSmoothed", "_proportions"): f"[self._smoother.smooth({SOM}.column_proportions.blocks[0][0]), self._smoother.smooth({SOM}.column_proportions.blocks[0][1])]",
        (SM, "_MeansSmoothed", "base_values"): "self._smoother.smooth(self._cube_measures.cube_means.means)",
    }
    for (short, cname, member), want in spec.items():
        ci = ctx.repo.cls(short, cname)
        e = expand(ctx.repo, ci, member, stop=lambda mm: mm.name in ("_smoother", "_column_index"))
        ctx.check_expr("wiring.blocks", f"{short}::{cname}.{member}", e, want, "exactly these blocks are smoothed (series run along the columns axis; inserted columns and intersections are not series)")
        ctx.count("smoothed-variant members")
    ctx.require_min("smoothed-variant members", 8)
    # ... and nothing else is smoothed
    sites = []
    for m in ctx.repo.all_members():
        for n in ast.walk(m.node):
            if isinstance(n, ast.Call) and isinstance(n.func, ast.Attribute) and n.func.attr == "smooth":
                sites.append(m.qual)
    want_sites = sorted([
        f"{MM}::_ColumnIndexSmoothed.blocks", f"{MM}::_ColumnProportionsSmoothed._base_values", f"{MM}::_ColumnProportionsSmoothed._subtotal_rows",
        f"{MM}::_MeansSmoothed.blocks", f"{MM}::_ScaleMeanSmoothed._proportions", f"{MM}::_ScaleMeanSmoothed._proportions", f"{SM}::_MeansSmoothed.base_values",
    ])
    ctx.ob("wiring.sites", "package: calls of .smooth()", sorted(sites), want_sites, sorted(sites) == want_sites, "the smoother is applied to the listed measures and to nothing else")
    sl = ctx.repo.cls("cubepart.py", "_Slice")
    for prop, meas, asm in (
        ("smoothed_column_index", "smoothed_column_index", "_assemble_matrix"),
        ("smoothed_column_proportions", "smoothed_column_proportions", "_assemble_matrix"),
    ):
        e = expand(ctx.repo, sl, prop, stop=lambda mm: True)
        ctx.check_expr("wiring.public", f"cubepart.py::_Slice.{prop}", e, f"self.{asm}(self._measures.{meas}.blocks)")
    e = expand(ctx.repo, sl, "smoothed_columns_scale_mean", stop=lambda mm: True)
    ctx.check_expr("wiring.public", "cubepart.py::_Slice.smoothed_columns_scale_mean", e, "self._assemble_marginal(self._measures.smoothed_columns_scale_mean)")
    som = ctx.repo.cls(MM, "SecondOrderMeasures")
    for prop, c, extra in (("smoothed_column_index", "_ColumnIndexSmoothed", ""), ("smoothed_column_proportions", "_ColumnProportionsSmoothed", ""), ("smoothed_means", "_MeansSmoothed", ""), ("smoothed_columns_scale_mean", "_ScaleMeanSmoothed", ", MO.COLUMNS")):
        e = expand(ctx.repo, som, prop, stop=lambda mm: True)
        ctx.check_expr("wiring.public", f"{MM}::SecondOrderMeasures.{prop}", e, f"{c}(self._dimensions, self, self._cube_measures{extra})")


def footprint(ctx: Ctx):
    ci = ctx.repo.cls(SMO, "_SingleSidedMovingAvgSmoother")
    m = ctx.repo.lookup(ci, "smooth")
    where = f"{SMO}::_SingleSidedMovingAvgSmoother.smooth"
    prefix, unknown, local = [], [], []
    for n in ast.walk(m.node):
        if isinstance(n, ast.Call):
            f = u(n.func)
            if f in PREFIX_OPS or f.endswith(".cumsum") or f.endswith(".cumprod") or f.endswith(".accumulate"):
                prefix.append(f)
            elif f.startswith("np.") and f not in LOCAL_OPS:
                unknown.append(f)
            elif f in LOCAL_OPS:
                local.append(f)
    if prefix:
        ctx.violated(
            "window-footprint",
            where,
            f"prefix / global operation(s) on the series: {sorted(set(prefix))}",
            "each smoothed value is computed from the values of its own window only",
            "a running total carries a NaN (or inf) of one period into every later period; the property allows NaN only for windows that contain the NaN period",
        )
    elif unknown:
        ctx.undecided("window-footprint", where, f"numpy operations with unknown footprint: {sorted(set(unknown))}", "window-local operations")
    else:
        ctx.held("window-footprint", where, f"window-local operations only: {sorted(set(local))}", "footprint of output t is within periods t-w+1..t")
    # kernel / divisor / mode consistency of the convolution idiom (only if that idiom is used)
    convs = [n for n in ast.walk(m.node) if isinstance(n, ast.Call) and u(n.func) == "np.convolve"]
    for c in convs:
        kernel = u(c.args[1]) if len(c.args) > 1 else ""
        mode = next((u(k.value) for k in c.keywords if k.arg == "mode"), None)
        ok = kernel in ("np.ones(window)", "np.ones(self._window)") and mode == "'valid'"
        ctx.ob("window-footprint.kernel", where, f"kernel={kernel} mode={mode}", "kernel of `window` ones, mode 'valid' (only full windows produce a value; the first w-1 periods are the NaN prefix)", ok)
        ctx.count("convolution sites")
