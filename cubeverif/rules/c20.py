"""C20 - smoothing is a trailing moving average over categorical-date periods."""
from __future__ import annotations

import ast

from ..blocks import block_refs
from ..core import Ctx
from ..symex import SUMMARIZER, expand, strip_ifexp_paths, u, main_leaf, main_path, side_paths

SMO = "smoothing.py"
MM = "matrix/measure.py"
SM = "stripe/measure.py"
PREFIX_OPS = {"np.cumsum", "np.nancumsum", "np.cumprod", "np.nancumprod", "np.add.accumulate", "np.multiply.accumulate", "np.maximum.accumulate", "np.fft.fft", "np.fft.rfft", "np.sort", "np.argsort"}
LOCAL_OPS = {"np.convolve", "np.lib.stride_tricks.sliding_window_view", "sliding_window_view", "np.mean", "np.sum", "np.nanmean", "np.array", "tuple", "np.ones", "np.full", "np.concatenate", "list", "np.correlate"}


def run(ctx: Ctx):
    ctx.explanation = (
        "DECTAB: the guard table of _can_smooth (empty / not categorical-date / window outside [2, periods]) and identity "
        "on refusal; default window and function; wiring: the smoother is built from the columns dimension (rows dimension "
        "for a strand) and applied to exactly the listed blocks of the listed measures and nowhere else; dependence "
        "footprint: the smoothed value at period t may depend on the periods of its window only - prefix / global "
        "operations (cumulative sums ...) spread one NaN period over all later ones."
    )
    ctx.not_decided = ["the moving-average arithmetic itself and the exact alignment of the NaN prefix (an exact idiom match would be a frozen-fragment rule)"]
    guards(ctx)
    wiring(ctx)
    footprint(ctx)
    from .common import no_shared_writes

    no_shared_writes(ctx, "no-shared-write")
    from .common import generic_lints

    generic_lints(ctx)
    from .common import type_resolution_table

    type_resolution_table(ctx)
    from .common import dependency_footprints

    dependency_footprints(ctx)


def guards(ctx: Ctx):
    ci = ctx.repo.cls(SMO, "_SingleSidedMovingAvgSmoother")
    m = ctx.repo.lookup(ci, "_can_smooth")
    # `_window` (and any other private helper property) inlined: the table ranges over the window AS WRITTEN IN THE SPEC
    # (absent, 0, 1, 2, ...), so the defaulting rule is part of what is decided
    body = expand(ctx.repo, ci, "_can_smooth", bind={"base_values": ast.Name(id="base_values", ctx=ast.Load())}, stop=lambda mm: mm.name not in ("_window",))
    from ..dectab import DTop, Raises
    from ..typetab import dt_members, eval_over_types

    where = f"{SMO}::_SingleSidedMovingAvgSmoother._can_smooth"
    # ... and the spec the smoother HOLDS is what `Smoother.factory` constructs it with from the dimension's spec: a factory
    # that "normalises" the spec (`spec.get(key) or default`) replaces an explicit window 0 before the guard sees it
    from ..dectab import ModelInterp, eval_ctor

    sm_cls = ctx.repo.cls(SMO, "Smoother")
    fac = ctx.repo.lookup(sm_cls, "factory")
    fac_body = SUMMARIZER.summarize(fac.node) if fac is not None else None

    def held_spec(sd):
        """the smoothing dict the smoother is constructed with for the dimension spec `sd` (None: not derivable)"""
        if fac_body is None:
            return None

        def atoms(x):
            t = u(x)
            if t == "dimension.smoothing_dict":
                return dict(sd)
            if t == "dimension.dimension_type":
                return "<dimension type>"
            if isinstance(x, ast.Name) and x.id == "_SingleSidedMovingAvgSmoother":
                return "_SingleSidedMovingAvgSmoother"
            if isinstance(x, ast.Attribute) and isinstance(x.value, ast.Name) and x.value.id in ("cls", "Smoother") and x.attr in sm_cls.consts:
                try:
                    return ast.literal_eval(sm_cls.consts[x.attr])
                except Exception:
                    raise KeyError
            raise KeyError

        try:
            callee, args, kw = eval_ctor(ModelInterp(atoms), fac_body)
        except Exception:
            return None
        if callee != "_SingleSidedMovingAvgSmoother":
            return None
        init_ = ctx.repo.lookup(ci, "__init__")
        bound = dict(zip([p_ for p_ in init_.params if p_ != "self"], args))
        bound.update(kw)
        v = bound.get("smoothing_dict")
        return v if isinstance(v, dict) else None

    P = 5  # model: five periods on the last axis
    bad, n, undec = [], 0, None
    # the array handed in: empty / non-empty but all zeros / ordinary (whether smoothing applies depends on its SHAPE only)
    for size, nonzero in ((0, False), (3 * P, False), (3 * P, True)):
        for mem in dt_members(ctx.repo):
            for w in (None, 0, 1, 2, 3, P, P + 1, 50):
                spec = held_spec({} if w is None else {"window": w})
                if spec is None:
                    spec = {} if w is None else {"window": w}

                def extra(x, size=size, w=w, nonzero=nonzero, spec=spec):
                    t = u(x)
                    if t == "self._smoothing_dict":
                        return dict(spec)
                    if t in ("self._smoothing_dict.get('window')",):
                        return spec.get("window")
                    if t in ("self._smoothing_dict.get('window', 2)",):
                        return spec.get("window", 2)
                    if t in ("base_values.any()", "np.any(base_values)", "base_values.sum()", "np.sum(base_values)", "np.count_nonzero(base_values)", "base_values.max()"):
                        return nonzero
                    if t in ("base_values.all()", "np.all(base_values)"):
                        return nonzero
                    if t in ("len(base_values)", "base_values.shape[0]"):
                        return 0 if size == 0 else 3
                    if t == "base_values.size":
                        return size
                    if t in ("base_values.shape[-1]", "base_values.shape[1]"):
                        return P
                    if t == "self._window":
                        return 2 if spec.get("window") is None else spec.get("window")
                    raise KeyError

                eff = 2 if w is None else w  # no window given: the default 2; an explicit 0 or 1 is a window below 2
                want = size != 0 and mem == "CAT_DATE" and 2 <= eff <= P
                try:
                    got = eval_over_types(ctx.repo, ci.module, body, {"self._dimension_type": mem}, extra)
                except (DTop, Raises) as exc:
                    undec = str(exc)
                    break
                n += 1
                if bool(got) != want:
                    bad.append(f"size={size} {'non-zero' if nonzero else 'all-zero'} values, type={mem} window={w} periods={P}: {bool(got)} (specified {want})")
            if undec:
                break
        if undec:
            break
    ctx.count("smoothing guard table rows", n)
    if undec:
        ctx.undecided("guard-table", where, "DECTAB: " + undec, "decision table over (empty, dimension type, window)")
    else:
        ctx.ob("guard-table", where, bad[:4] or f"{n} (empty, dimension type, window) cases", "smoothed iff non-empty, categorical-date, 2 <= window <= periods (last axis)", not bad,
               "empty / not CAT_DATE / window > periods / window < 2 -> unsmoothed")
    e = expand(ctx.repo, ci, "_window", stop=lambda mm: True)
    ctx.check_expr("guard-table.window", f"{SMO}::_SingleSidedMovingAvgSmoother._window", e, ["2 if self._smoothing_dict.get('window') is None else self._smoothing_dict.get('window')", "self._smoothing_dict.get('window', 2)"], "default window 2 when none is given (an explicit 0 is not 'none')")
    m = ctx.repo.lookup(ci, "smooth")
    body = SUMMARIZER.summarize(m.node)
    from ..stmts import check_side_paths

    check_side_paths(ctx, "identity-on-refusal", f"{SMO}::_SingleSidedMovingAvgSmoother.smooth", body, [("not self._can_smooth(values)", "values")], "when smoothing is refused the unsmoothed values are returned unchanged")
    sm = ctx.repo.cls(SMO, "Smoother")
    fac = ctx.repo.lookup(sm, "factory")
    # private helpers (methods and module-level functions such as `_smoother_class(function)`) inlined; module-level string
    # constants (`_DEFAULT_FUNCTION`) read as their values
    body = expand(ctx.repo, sm, "factory", stop=lambda mm: mm.kind in ("lazyproperty", "property"))
    from ..dectab import Sym, SymInterp, eval_ctor, module_constants

    mconsts = {k: v for k, v in module_constants(sm.module.tree).items() if isinstance(v, ast.Constant)} if hasattr(sm.module, "tree") else {}
    where = f"{SMO}::Smoother.factory"
    bad, n, undec = [], 0, None
    target = ctx.repo.cls(SMO, "_SingleSidedMovingAvgSmoother")
    init = ctx.repo.lookup(target, "__init__")
    for fn_name, want_ok in ((None, True), ("one_sided_moving_avg", True), ("two_sided", False), ("", True)):
        sd = {} if fn_name is None else {"function": fn_name}

        def atoms(x, sd=sd):
            t = u(x)
            if t == "dimension.smoothing_dict":
                return sd
            if isinstance(x, ast.Name) and x.id == "_SingleSidedMovingAvgSmoother":
                return "_SingleSidedMovingAvgSmoother"
            if isinstance(x, ast.Name) and x.id in mconsts:
                return mconsts[x.id].value
            raise KeyError

        try:
            callee, args, kw = eval_ctor(SymInterp(atoms), body)
            got_ok = callee == "_SingleSidedMovingAvgSmoother"
            if got_ok:
                bound = dict(zip(init.params, [repr(a) for a in args]))
                bound.update({k: repr(v) for k, v in kw.items()})
                want_args = {"smoothing_dict": repr(sd), "dimension_type": "dimension.dimension_type"}
                if bound != want_args:
                    bad.append(f"function={fn_name!r}: constructed with {bound} (specified {want_args})")
        except Raises:
            got_ok = False
        except DTop as exc:
            undec = str(exc)
            break
        n += 1
        if got_ok != want_ok:
            bad.append(f"function={fn_name!r}: {'smoother' if got_ok else 'refused'} (specified {'smoother' if want_ok else 'refused'})")
    if undec:
        ctx.undecided("factory", where, "DECTAB: " + undec, "decision table over the smoothing function name")
    else:
        ctx.ob("factory", where, bad or f"{n} function-name cases", "default / 'one_sided_moving_avg' -> smoother carrying the dimension's spec and type; any other name is refused", not bad,
               "the smoother carries the spec and the type of the dimension it was built from; default function one_sided_moving_avg")
    dim = ctx.repo.cls("dimension.py", "Dimension")
    e = expand(ctx.repo, dim, "smoothing_dict", stop=lambda mm: True)
    ctx.check_expr("factory", "dimension.py::Dimension.smoothing_dict", e, "self._dimension_transforms_dict.get('smoother') or {}")
    # whatever the spelling: the spec reaches the smoother UNCHANGED.  An empty dict is not "no smoothing" - the smoother
    # reads it as the default spec (one-sided moving average, window 2) - so replacing a spec the smoother would have
    # REFUSED (window wider than the periods, unknown function) by {} turns "left unsmoothed" into "smoothed with window 2".
    from ..stmts import match_any

    SPEC = "self._dimension_transforms_dict.get('smoother')"
    bad, seen_spec = [], False
    for gs, leaf in strip_ifexp_paths(e):
        lt = u(leaf)
        if SPEC in lt:
            seen_spec = True
        is_empty = lt in ("{}", "dict()")
        if not is_empty:
            continue
        for g, pol in gs:
            if not pol:
                continue
            for a in (g.values if isinstance(g, ast.BoolOp) and isinstance(g.op, ast.Or) else [g]):
                t = u(a)
                # the only reason to fall back on the empty spec is that there is no smoother entry at all
                if t in (f"not {SPEC}", f"{SPEC} is None") or t.replace(SPEC, "S") in ("not S", "S is None", "not S or not isinstance(S, dict)"):
                    continue
                bad.append(t[:90])
    where = "dimension.py::Dimension.smoothing_dict"
    if bad:
        ctx.violated("factory.spec-pass-through", where, bad, "{} only when the transforms carry no smoother entry", "a spec the smoother would refuse is replaced by the empty spec, which the smoother reads as window 2")
    else:
        ctx.ob("factory.spec-pass-through", where, "the smoother entry, or {} when there is none", "the spec reaches the smoother unchanged", True if seen_spec else None)


VALUE_CHANGING = ("clip", "round", "around", "round_", "rint", "abs", "absolute", "fabs", "where", "nan_to_num", "maximum", "minimum", "fmax", "fmin", "floor", "ceil", "trunc", "sqrt", "log", "exp", "cumsum", "sort")


def value_changing_wrappers(e: ast.AST):
    """Operations applied TO the result of a `.smooth(...)` call inside `e` that change its values (None: no smooth() call):
    elementwise numpy calls / methods of VALUE_CHANGING with the result among their arguments (or as receiver), and
    arithmetic on it.  Containers, constructors of block collections and dtype-preserving conversions do not."""
    parent = {}
    for n in ast.walk(e):
        for c in ast.iter_child_nodes(n):
            parent[c] = n
    calls = [n for n in ast.walk(e) if isinstance(n, ast.Call) and isinstance(n.func, ast.Attribute) and n.func.attr == "smooth"]
    if not calls:
        return None
    out = []
    for c in calls:
        node = c
        while node in parent:
            p = parent[node]
            if isinstance(p, ast.Call):
                tail = u(p.func).split(".")[-1]
                as_receiver = isinstance(p.func, ast.Attribute) and node is p.func
                if tail in VALUE_CHANGING and (node in p.args or any(k.value is node for k in p.keywords) or as_receiver):
                    out.append(u(p)[:120])
                    break
                if node is p.func or as_receiver:
                    node = p
                    continue
                if tail in ("asarray", "array", "asanyarray", "ascontiguousarray", "copy", "tuple", "list") or not tail.islower() or tail in ("blocks", "subtotal_rows", "subtotal_columns", "subtotal_values"):
                    node = p  # conversion / constructor of a block collection: the values are the argument's
                    continue
                break  # an unknown call consumes the result: nothing is claimed about it
            if isinstance(p, ast.Attribute):
                node = p  # (smooth(x).clip)(...) is handled when the Call is reached; .T / .astype stay value-preserving
                continue
            if isinstance(p, (ast.BinOp, ast.UnaryOp)) and not (isinstance(p, ast.UnaryOp) and isinstance(p.op, ast.UAdd)):
                out.append(u(p)[:120])
                break
            if isinstance(p, (ast.List, ast.Tuple, ast.IfExp, ast.Starred, ast.keyword, ast.Subscript)):
                node = p
                continue
            break
    return out


def _columns_orientation(ctx: Ctx, e: ast.expr) -> ast.expr:
    """The smoothed scale mean is built with MO.COLUMNS (read from SecondOrderMeasures.smoothed_columns_scale_mean): the
    orientation tests of the formulas it inherits are decided for that orientation, selections distributed and folded."""
    import copy as _copy

    from ..symex import distribute_attr, fold_consts

    som = ctx.repo.cls(MM, "SecondOrderMeasures")
    ctor = expand(ctx.repo, som, "smoothed_columns_scale_mean", stop=lambda mm: True)
    if not (isinstance(ctor, ast.Call) and any(u(a) == "MO.COLUMNS" for a in list(ctor.args) + [k.value for k in ctor.keywords])):
        return e

    class _Decide(ast.NodeTransformer):
        def visit_IfExp(self, n):
            self.generic_visit(n)
            t = u(n.test).replace("self._orientation", "self.orientation")
            if t == "self.orientation == MO.ROWS":
                return n.orelse
            if t == "self.orientation == MO.COLUMNS":
                return n.body
            return n

    return fold_consts(distribute_attr(_Decide().visit(_copy.deepcopy(e))))


def _unfold_som_blocks(ctx: Ctx, e: ast.expr) -> ast.expr:
    """`self._second_order_measures.<measure>.blocks[i][j]` replaced by the formula of that block of that measure's class."""
    import copy as _copy

    from ..blocks import matrix_templates

    som = ctx.repo.cls(MM, "SecondOrderMeasures")

    class _Unfold(ast.NodeTransformer):
        def visit_Subscript(self, n):
            self.generic_visit(n)
            inner = n.value
            if not (isinstance(inner, ast.Subscript) and isinstance(n.slice, ast.Constant) and isinstance(inner.slice, ast.Constant)):
                return n
            b = inner.value
            if not (isinstance(b, ast.Attribute) and b.attr == "blocks" and isinstance(b.value, ast.Attribute) and u(b.value.value) == "self._second_order_measures"):
                return n
            if ctx.repo.lookup(som, b.value.attr) is None:
                return n
            ctor = expand(ctx.repo, som, b.value.attr, stop=lambda mm: True)
            if not (isinstance(ctor, ast.Call) and isinstance(ctor.func, ast.Name)):
                return n
            try:
                ci = ctx.repo.cls(MM, ctor.func.id)
            except Exception:
                return n
            kind, grid, _g = matrix_templates(ctx.repo, ci)
            i, j = inner.slice.value, n.slice.value
            if kind != "grid" or i not in (0, 1) or j not in (0, 1):
                return n
            return _copy.deepcopy(grid[i][j])

    out = _copy.deepcopy(e)
    for _round in range(4):  # to a fixpoint: a block formula refers to the blocks of other measures
        before = u(out)
        out = _Unfold().visit(out)
        if u(out) == before:
            break
    return ast.fix_missing_locations(out)


class _EraseSmooth(ast.NodeTransformer):
    def visit_Call(self, n):
        self.generic_visit(n)
        if isinstance(n.func, ast.Attribute) and n.func.attr == "smooth" and len(n.args) == 1:
            return n.args[0]
        return n


def unsmoothed_twins(ctx: Ctx):
    """A window the smoother refuses (or a dimension it does not smooth) gives the UNSMOOTHED values unchanged: with the
    smooth() calls erased, a block of a smoothed variant IS the same block of its unsmoothed twin (measure-block
    references unfolded to their formulas on both sides).  Equal -> held; the twin's block wrapped in a call that
    rewrites some of its cells -> violated; anything else is not decided here."""
    import copy as _copy

    from ..symex import fold, fold_consts

    n = 0
    for cname, twin_name, members in (("_ColumnProportionsSmoothed", "_ColumnProportions", ("_base_values", "_subtotal_rows", "_subtotal_columns", "_intersections")), ("_ScaleMeanSmoothed", "_ScaleMean", ("_proportions",))):
        ci, tw = ctx.repo.cls(MM, cname), ctx.repo.cls(MM, twin_name)
        for member in members:
            if ctx.repo.lookup(ci, member) is None or ctx.repo.lookup(tw, member) is None:
                continue
            where = f"{MM}::{cname}.{member}"
            mine = _unfold_som_blocks(ctx, _EraseSmooth().visit(_copy.deepcopy(fold_consts(fold(expand(ctx.repo, ci, member, stop=lambda mm: mm.name in ("_smoother",)))))))
            theirs = _unfold_som_blocks(ctx, fold_consts(fold(expand(ctx.repo, tw, member))))
            if cname == "_ScaleMeanSmoothed":
                # the smoothed scale mean is a COLUMNS marginal: the twin's branch for that orientation
                mine, theirs = _columns_orientation(ctx, mine), _columns_orientation(ctx, theirs)
            pairs = list(zip(mine.elts, theirs.elts)) if isinstance(mine, (ast.List, ast.Tuple)) and isinstance(theirs, (ast.List, ast.Tuple)) and len(mine.elts) == len(theirs.elts) else [(mine, theirs)]
            for k, (a, b) in enumerate(pairs):
                n += 1
                w = where + (f"[{k}]" if len(pairs) > 1 else "")
                ta, tb = u(a), u(b)
                if ta == tb:
                    ctx.held("wiring.unsmoothed-twin", w, "the twin's block, smoothed or as it is", f"{twin_name}.{member}" )
                    continue
                wrapped = [c for c in ast.walk(a) if isinstance(c, ast.Call) and c is not a or c is a and isinstance(c, ast.Call)]
                hit = next((c for c in wrapped if any(u(x) == tb for x in c.args) and u(c.func).split(".")[0].endswith("Subtotal")), None)
                if hit is not None and isinstance(a, ast.Call) and hit is a:
                    ctx.violated("wiring.unsmoothed-twin", w, f"{u(hit.func)}(... {tb[:70]} ...)", f"{tb[:110]} (the block of {twin_name})",
                                 "the smoothed variant starts from another block than its unsmoothed twin (some cells rewritten by the subtotal builder): an invalid window does not return the unsmoothed values unchanged")
                else:
                    ctx.note(f"wiring.unsmoothed-twin {w}: not compared ({ta[:60]} / {tb[:60]})") if hasattr(ctx, "note") else None
    ctx.count("smoothed block / unsmoothed twin pairs", n)
    ctx.require_min("smoothed block / unsmoothed twin pairs", 5)


def wiring(ctx: Ctx):
    e = expand(ctx.repo, ctx.repo.cls(MM, "_SmoothedMeasure"), "_smoother", stop=lambda mm: True)
    ctx.check_expr("wiring.dimension", f"{MM}::_SmoothedMeasure._smoother", e, "Smoother.factory(self._dimensions[-1])", "slice: the smoother is specified on, and typed by, the COLUMNS dimension")
    e = expand(ctx.repo, ctx.repo.cls(SM, "_SmoothedMeasure"), "_smoother", stop=lambda mm: True)
    ctx.check_expr("wiring.dimension", f"{SM}::_SmoothedMeasure._smoother", e, "Smoother.factory(self._rows_dimension)", "strand: the rows dimension")
    SOM = "self._second_order_measures"
    W = f"{SOM}.weighted_counts.blocks"
    B = f"{SOM}.column_weighted_bases.blocks"
    WC = "self._cube_measures.weighted_cube_counts"
    spec = {
        (MM, "_ColumnProportionsSmoothed", "_base_values"): f"self._smoother.smooth({W}[0][0] / {B}[0][0])",
        (MM, "_ColumnProportionsSmoothed", "_subtotal_rows"): f"self._smoother.smooth(WaveDiffSubtotal.subtotal_rows({WC}.column_bases, {WC}.counts, {W}[1][0] / {B}[1][0], self._dimensions))",
        (MM, "_ColumnProportionsSmoothed", "_subtotal_columns"): f"WaveDiffSubtotal.subtotal_columns({WC}.column_bases, {WC}.counts, {W}[0][1] / {B}[0][1], self._dimensions)",
        (MM, "_ColumnProportionsSmoothed", "_intersections"): f"{W}[1][1] / {B}[1][1]",
        (MM, "_ColumnIndexSmoothed", "blocks"): "NanSubtotals.blocks(self._smoother.smooth(self._column_index), self._dimensions)",
        (MM, "_MeansSmoothed", "blocks"): "NanSubtotals.blocks(self._smoother.smooth(self._cube_measures.cube_means.means), self._dimensions)",
        (MM, "_ScaleMeanSmoothed", "_proportions"): f"[self._smoother.smooth({W}[0][0] / {B}[0][0]), {W}[0][1] / {B}[0][1]]",
        (SM, "_MeansSmoothed", "base_values"): "self._smoother.smooth(self._cube_measures.cube_means.means)",
    }
    for (short, cname, member), want in spec.items():
        ci = ctx.repo.cls(short, cname)
        e = expand(ctx.repo, ci, member, stop=lambda mm: mm.name in ("_smoother", "_column_index"))
        if cname == "_ScaleMeanSmoothed":
            e = _columns_orientation(ctx, e)
        ctx.check_expr("wiring.blocks", f"{short}::{cname}.{member}", e, want, "exactly these blocks are smoothed (series run along the columns axis; inserted columns and intersections are not series)")
        ctx.count("smoothed-variant members")
        # ... and what smooth() hands back is the block, VERBATIM: a window the smoother refuses returns the unsmoothed
        # values unchanged, a value-changing operation applied to the result (clamp, rounding, NaN replacement,
        # arithmetic) changes them all the same - and the smoothed ones are no longer the mean of w unsmoothed ones
        touched = value_changing_wrappers(e)
        if touched is None:
            continue
        if (cname, member) == ("_ColumnProportionsSmoothed", "_base_values") and touched and all(t.replace(" ", "").startswith("np.clip(") and t.replace(" ", "").count("np.clip(") == 1 for t in touched):
            full = [n for n in ast.walk(e) if isinstance(n, ast.Call) and u(n.func) == "np.clip"]
            if all(len(c.args) == 3 and [u(a) for a in c.args[1:]] in (["0.0", "1.0"], ["0", "1"]) for c in full):
                # base-value proportions (count / base of the same cells) lie in [0, 1]: a clamp to exactly that range changes a mean of them by round-off at most
                ctx.held("wiring.smoothed-verbatim", f"{short}::{cname}.{member}", "clamped to [0, 1], the range of a base-value proportion", "no value-changing operation on the result of smooth()")
                continue
        ctx.ob("wiring.smoothed-verbatim", f"{short}::{cname}.{member}", touched[:1] or "the result of smooth() is the block as it is", "no value-changing operation on the result of smooth()", not touched,
               "smoothed value = arithmetic mean of the unsmoothed values at t-w+1..t; unsmoothed values unchanged when the window is refused")
    ctx.require_min("smoothed-variant members", 8)
    if len(value_changing_wrappers(ast.parse("np.clip(s.smooth(x), 0.0, 1.0) + [np.round(s.smooth(x), 12), s.smooth(x) * 1.0, np.nan_to_num(s.smooth(x))]", mode="eval").body) or []) != 4 or value_changing_wrappers(ast.parse("NanSubtotals.blocks(np.asarray(s.smooth(x)), dims)", mode="eval").body):
        raise AnalysisError("wiring.smoothed-verbatim: the controls are no longer recognised")
    # which BLOCKS of the smoothed column proportions pass through the smoother (whatever the spelling): the series run
    # along the columns axis of the base values and of the inserted rows; inserted columns and intersections are not series
    ci = ctx.repo.cls(MM, "_ColumnProportionsSmoothed")
    for member, smoothed in (("_base_values", True), ("_subtotal_rows", True), ("_subtotal_columns", False), ("_intersections", False)):
        if ctx.repo.lookup(ci, member) is None:
            ctx.undecided("wiring.smoothed-blocks", f"{MM}::_ColumnProportionsSmoothed.{member}", "member not found", "")
            continue
        e = expand(ctx.repo, ci, member, stop=lambda mm: mm.name in ("_smoother",))
        has = any(isinstance(n, ast.Call) and isinstance(n.func, ast.Attribute) and n.func.attr == "smooth" for n in ast.walk(e))
        ctx.ob("wiring.smoothed-blocks", f"{MM}::_ColumnProportionsSmoothed.{member}", "passes through smooth()" if has else "not smoothed", "smoothed" if smoothed else "not smoothed", has == smoothed,
               "base values and inserted rows are series along the columns axis; inserted columns and intersections are not")
    # the same for the proportions the smoothed SCALE MEAN is taken of ("the scale mean of the smoothed proportions"): the
    # base columns are periods, the inserted columns are not - smoothed along their own axis the first w-1 of them turn
    # NaN and the others average unrelated subtotals
    sm = ctx.repo.cls(MM, "_ScaleMeanSmoothed")
    if ctx.repo.lookup(sm, "_proportions") is not None:
        from ..symex import fold, fold_consts

        # a comprehension over the literal block indexes is unrolled and its constant tests (`i == 0`) decided
        e = fold_consts(fold(expand(ctx.repo, sm, "_proportions", stop=lambda mm: mm.name in ("_smoother",))))
        where = f"{MM}::_ScaleMeanSmoothed._proportions"
        if isinstance(e, (ast.List, ast.Tuple)) and len(e.elts) == 2:
            for k, (elt, smoothed, what) in enumerate(zip(e.elts, (True, False), ("base columns (the periods)", "inserted columns"))):
                has = any(isinstance(n, ast.Call) and isinstance(n.func, ast.Attribute) and n.func.attr == "smooth" for n in ast.walk(elt))
                refs = sorted({(r.i, r.j) for r in block_refs(elt)})
                ctx.ob("wiring.smoothed-blocks", where + f" [{k}: {what}]", f"blocks {refs} " + ("pass through smooth()" if has else "not smoothed"), "smoothed" if smoothed else "not smoothed (as the inserted columns of the smoothed proportions)", has == smoothed,
                       "inserted columns are not consecutive periods: the scale mean of an inserted column is that of its own (unsmoothed) proportions")
        else:
            ctx.undecided("wiring.smoothed-blocks", where, u(e)[:120], "[smoothed base columns, unsmoothed inserted columns]")
    unsmoothed_twins(ctx)
    # ... and a smoothed block is NaN only where its unsmoothed twin is: the NaN flags (`diff_rows_nan`, `diff_cols_nan`) a
    # smoothed member hands to a subtotal builder are those of the same member of the unsmoothed class
    twin = ctx.repo.cls(MM, "_ColumnProportions")

    def nan_flags(e):
        return sorted({k.arg for c in ast.walk(e) if isinstance(c, ast.Call) for k in c.keywords if k.arg in ("diff_rows_nan", "diff_cols_nan") and u(k.value) == "True"})

    for member in ("_base_values", "_subtotal_rows", "_subtotal_columns", "_intersections"):
        if ctx.repo.lookup(ci, member) is None or ctx.repo.lookup(twin, member) is None:
            continue
        fs = nan_flags(expand(ctx.repo, ci, member, stop=lambda mm: mm.name in ("_smoother",)))
        ft = nan_flags(expand(ctx.repo, twin, member))
        extra = [f for f in fs if f not in ft]
        ctx.ob("wiring.nan-flags", f"{MM}::_ColumnProportionsSmoothed.{member}", fs or "no NaN flag", ft or "no NaN flag (as in _ColumnProportions)", not extra,
               "a difference row has a column proportion (the difference of its terms' proportions): smoothed or returned unchanged, it is not NaN")
    # ... and nothing else is smoothed
    allowed = {(MM, "_ColumnIndexSmoothed"), (MM, "_ColumnProportionsSmoothed"), (MM, "_MeansSmoothed"), (MM, "_ScaleMeanSmoothed"), (SM, "_MeansSmoothed")}
    sites = {}
    for m in ctx.repo.all_members():
        for n in ast.walk(m.node):
            if isinstance(n, ast.Call) and isinstance(n.func, ast.Attribute) and n.func.attr == "smooth":
                sites.setdefault((m.cls.module.path.split("cr/cube/")[-1], m.cls.name), []).append((m, n))
    # ... and what is smoothed is the measure ITSELF, NaN periods included: a window that contains a period without a
    # value has no arithmetic mean.  A NaN-masked operand (zeros in place of NaN, an "answered" indicator series) or a
    # quotient of two smoothed series is a NaN-skipping average: periods the property leaves undefined get a value
    from ..stmts import resolver

    NAN_MASKING = ("np.where", "np.nan_to_num", "np.isnan", "np.isfinite", "np.nansum", "np.nanmean", "np.ma.masked_invalid", "np.ma.masked_array")
    n_ops = 0
    for (short_, cname_), calls_ in sorted(sites.items()):
        for m_, call in calls_:
            res = resolver(m_.node, multi=True)
            n_ops += 1
            where_ = f"{short_}::{cname_}.{m_.name} [smoothed operand]"
            masked = sorted({u(x.func) for a in call.args for v in res(a) for x in ast.walk(v) if isinstance(x, ast.Call) and u(x.func) in NAN_MASKING})
            if masked:
                ctx.violated("wiring.operand", where_, f"the smoothed operand is built with {masked}: {u(call)[:90]}", "the measure's own values, NaN periods included",
                             "with NaN replaced before smoothing, a window that contains a period without a value gets a value: the average skips the period instead of being undefined")
            else:
                ctx.held("wiring.operand", where_, u(call)[:100], "the measure's own values, NaN periods included")
        for m_ in {id(mm): mm for mm, _c in calls_}.values():
            res = resolver(m_.node, multi=True)
            for b in ast.walk(m_.node):
                if isinstance(b, ast.BinOp) and isinstance(b.op, ast.Div):
                    def smoothed(x):
                        return any(isinstance(c, ast.Call) and isinstance(c.func, ast.Attribute) and c.func.attr == "smooth" for v in res(x) for c in ast.walk(v))
                    if smoothed(b.left) and smoothed(b.right):
                        ctx.violated("wiring.operand", f"{short_}::{cname_}.{m_.name} [quotient of smoothed series]", u(b)[:100], "one smoothed series per measure",
                                     "a smoothed total over a smoothed count is a NaN-skipping (or re-weighted) average, not the moving average of the measure")
    ctx.count("smoothed operands", n_ops)
    ctx.require_min("smoothed operands", 6)
    def _only_for_allowed(k) -> bool:
        """a call site in a shared base / mixin of the smoothed measures (a helper they all use): every class deriving from it
        is one of the listed measures"""
        ci_ = ctx.repo.opt_cls(k[0], k[1])
        if ci_ is None:
            return False
        subs = ci_.all_subclasses() if hasattr(ci_, "all_subclasses") else []
        leaves_ = [(x.module.path.split("cr/cube/")[-1], x.name) for x in subs]
        return bool(leaves_) and all(l in allowed or _only_for_allowed(l) for l in leaves_)

    outside = sorted(k for k in sites if k not in allowed and not _only_for_allowed(k))
    if outside:
        ctx.violated("wiring.sites", "package: calls of .smooth()", [f"{a}::{b}" for a, b in outside], sorted(f"{a}::{b}" for a, b in allowed), "the smoother is applied to the listed measures and to nothing else")
    else:
        ctx.ob("wiring.sites", "package: calls of .smooth()", sorted(f"{a}::{b}" for a, b in sites), sorted(f"{a}::{b}" for a, b in allowed), True if set(sites) == allowed else None, "the smoother is applied to the listed measures and to nothing else")
    smoothed_scale_mean_input(ctx, sites.get((MM, "_ScaleMeanSmoothed"), []))
    sl = ctx.repo.cls("cubepart.py", "_Slice")
    for prop, meas, asm in (
        ("smoothed_column_index", "smoothed_column_index", "_assemble_matrix"),
        ("smoothed_column_proportions", "smoothed_column_proportions", "_assemble_matrix"),
    ):
        e = expand(ctx.repo, sl, prop, stop=lambda mm: True)
        ctx.check_expr("wiring.public", f"cubepart.py::_Slice.{prop}", e, f"self.{asm}(self._measures.{meas}.blocks)")
    e = expand(ctx.repo, sl, "smoothed_columns_scale_mean", stop=lambda mm: True)
    ctx.check_expr("wiring.public", "cubepart.py::_Slice.smoothed_columns_scale_mean", e, "self._assemble_marginal(self._measures.smoothed_columns_scale_mean)")
    som = ctx.repo.cls(MM, "SecondOrderMeasures")
    for prop, c, extra in (("smoothed_column_index", "_ColumnIndexSmoothed", ""), ("smoothed_column_proportions", "_ColumnProportionsSmoothed", ""), ("smoothed_means", "_MeansSmoothed", ""), ("smoothed_columns_scale_mean", "_ScaleMeanSmoothed", ", MO.COLUMNS")):
        e = expand(ctx.repo, som, prop, stop=lambda mm: True)
        ctx.check_expr("wiring.public", f"{MM}::SecondOrderMeasures.{prop}", e, f"{c}(self._dimensions, self, self._cube_measures{extra})")


def smoothed_scale_mean_input(ctx: Ctx, calls):
    """"The smoothed scale mean is the scale mean of the SMOOTHED proportions": what is handed to the smoother inside
    _ScaleMeanSmoothed must not already depend on the numeric values of the categories (FLOW reads of the argument);
    if it does, the mean was taken first and the moving average is applied to the 1-D means - a different quantity
    as soon as a category without a numeric value varies over the periods."""
    from ..stmts import resolver
    from .common import slice_measures_obj

    where = f"{MM}::_ScaleMeanSmoothed [input of smooth()]"
    if not calls:
        ctx.undecided("wiring.scale-mean-input", where, "no smooth() call in the class", "smooth(<column proportions block>)")
        return
    som = slice_measures_obj(ctx)
    objs = ctx.flow.member_val(som, "smoothed_columns_scale_mean").objs
    if not objs:
        ctx.undecided("wiring.scale-mean-input", where, "FLOW: no object for smoothed_columns_scale_mean", "")
        return
    obj = next(iter(objs))
    for m, call in calls:
        if not call.args:
            continue
        res = resolver(m.node)
        arg = call.args[0]
        # a comprehension / loop variable stands for an element of what it iterates over
        if isinstance(arg, ast.Name):
            for n in ast.walk(m.node):
                if isinstance(n, (ast.comprehension, ast.For)) and isinstance(n.target, ast.Name) and n.target.id == arg.id:
                    arg = n.iter
        reads = set()
        for variant in res(arg):
            reads |= set(ctx.flow.eval(variant, obj, m, {}).reads)
        numeric = sorted(r for r in reads if "numeric_value" in r)
        data = sorted(r for r in reads if not r.startswith(("Dimension.", "Element.", "_OrderSpec.", "ORDER", "FIELD:")))[:4]
        if not reads:
            ctx.undecided("wiring.scale-mean-input", where + f" [{m.name}]", f"FLOW derives no read for the operand {u(arg)[:60]}", "the 2-D column proportions")
            ctx.count("scale-mean smoother inputs")
            continue
        if numeric:
            ctx.violated("wiring.scale-mean-input", where + f" [{m.name}]", f"the smoothed operand depends on {numeric}", "the 2-D column proportions (no numeric values involved)",
                         "the scale mean was taken BEFORE smoothing: the result is the moving average of the means, not the mean of the smoothed proportions")
        else:
            ctx.held("wiring.scale-mean-input", where + f" [{m.name}]", f"operand reads {data}", "the smoothed operand does not depend on the numeric values")
        ctx.count("scale-mean smoother inputs")


def footprint(ctx: Ctx):
    ci = ctx.repo.cls(SMO, "_SingleSidedMovingAvgSmoother")
    m = ctx.repo.lookup(ci, "smooth")
    where = f"{SMO}::_SingleSidedMovingAvgSmoother.smooth"
    prefix, unknown, local = [], [], []
    for n in ast.walk(m.node):
        if isinstance(n, ast.Call):
            f = u(n.func)
            if f in PREFIX_OPS or f.endswith(".cumsum") or f.endswith(".cumprod") or f.endswith(".accumulate"):
                prefix.append(f)
            elif f.startswith("np.") and f not in LOCAL_OPS:
                unknown.append(f)
            elif f in LOCAL_OPS:
                local.append(f)
    if prefix:
        ctx.violated(
            "window-footprint",
            where,
            f"prefix / global operation(s) on the series: {sorted(set(prefix))}",
            "each smoothed value is computed from the values of its own window only",
            "a running total carries a NaN (or inf) of one period into every later period; the property allows NaN only for windows that contain the NaN period",
        )
    elif unknown:
        ctx.undecided("window-footprint", where, f"numpy operations with unknown footprint: {sorted(set(unknown))}", "window-local operations")
    else:
        ctx.held("window-footprint", where, f"window-local operations only: {sorted(set(local))}", "footprint of output t is within periods t-w+1..t")
    # kernel / divisor / mode consistency of the convolution idiom (only if that idiom is used)
    convs = [n for n in ast.walk(m.node) if isinstance(n, ast.Call) and u(n.func) == "np.convolve"]
    from ..stmts import resolver

    res = resolver(m.node)  # locals substituted: whatever the window is called locally
    for c in convs:
        kernel = u(res(c.args[1])) if len(c.args) > 1 else ""
        mode = next((u(res(k.value)) for k in c.keywords if k.arg == "mode"), None)
        # positive evidence only: a different literal mode, or a kernel of ones whose length is some OTHER function of
        # the window; a kernel this rule cannot read is undecided
        if kernel == "np.ones(self._window)" and mode == "'valid'":
            ok = True
        elif (mode is not None and mode.startswith("'") and mode != "'valid'") or (kernel.startswith("np.ones(") and "window" in kernel and kernel != "np.ones(self._window)"):
            ok = False
        else:
            ok = None
        ctx.ob("window-footprint.kernel", where, f"kernel={kernel} mode={mode}", "kernel of `window` ones, mode 'valid' (only full windows produce a value; the first w-1 periods are the NaN prefix)", ok)
        ctx.count("convolution sites")
