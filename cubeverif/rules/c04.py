"""C04 - subtotals behave as merged categories; differences as signed merges."""
from __future__ import annotations

import ast
import re
import itertools

from ..core import Ctx
from ..loader import AnalysisError
from ..dectab import Abstract, DTop, Interp, Raises
from ..symex import SUMMARIZER, expand, strip_ifexp_paths, u, main_leaf, main_path, side_paths

MS = "matrix/subtotals.py"
SI = "stripe/insertion.py"
MM = "matrix/measure.py"
SM = "stripe/measure.py"
W = "self._cube_measures.weighted_cube_counts"
U = "self._cube_measures.unweighted_cube_counts"


def run(ctx: Ctx):
    ctx.explanation = (
        "Symbolic comparison of the subtotal algebra (signed sums over addend / subtrahend index sets, NaN for "
        "difference x difference and for the flagged direction) of the sum / positive-term / negative-term classes, 2-D "
        "and 1-D; index resolution against valid elements; the table of difference flags each measure passes; the "
        "classes of measures that are NaN for every subtotal; DECTAB: the wave-difference rule evaluated over abstract "
        "index-set classes (empty, {0}, {k>0}, several with 0, several without 0) so that an index is never tested for "
        "truth. Block uniformity of the block-wise measures is decided under C03/C11/C12/C13."
    )
    ctx.not_decided = ["'equals the measure of the merged category in the data' as a data operation: it follows from subtotal algebra + block uniformity + base blocks, an argument, not a check"]
    algebra(ctx)
    signed_sums(ctx)
    no_index_overwrite(ctx)
    base_flags(ctx)
    index_resolution(ctx)
    flags(ctx)
    nan_classes(ctx)
    wave_diff(ctx)
    from .common import index_space_lints

    index_space_lints(ctx, "index-space", ['matrix/subtotals.py', 'stripe/insertion.py'], words=None)
    from .common import generic_lints

    generic_lints(ctx)
    from .common import block_nan_by_some_subtotal

    block_nan_by_some_subtotal(ctx)
    from .common import type_resolution_table

    type_resolution_table(ctx)
    from .common import value_any_lint

    # "has subtrahends" is a question about the LENGTH of the index collection: any() / np.any() ask whether some offset is
    # non-zero, and the difference that subtracts the FIRST element alone (offsets [0]) reads as "no subtrahends"
    value_any_lint(ctx, "collection-any", shorts=("matrix/subtotals.py", "stripe/insertion.py", "dimension.py"))
    from .common import subtotal_free_types

    subtotal_free_types(ctx)
    from .common import subtotal_terms_once

    subtotal_terms_once(ctx)
    # the insertion blocks / subtotal values of a measure are cached and handed out by reference: no layer writes into a
    # block it did not create (a NaN stamped into another measure's subtotal block shows up in that measure afterwards)
    from .common import no_shared_writes

    no_shared_writes(ctx, "no-shared-write", origin_words=("blocks", "subtotal"))
    additive_blocks(ctx)
    gather_not_weights(ctx)
    from . import c05

    # which rows / columns are "differences" (their population estimates are blanked) - decided in display positions
    c05.index_space_zip(ctx, only=("_diff_element_idxs", "diff_row_idxs", "diff_column_idxs"))
    # "every measure defined for a subtotal equals that of the merged category": the share-of-sum of an inserted row /
    # column / intersection is its sum over the total of the BASE cells (block rule of C15)
    from . import c15

    for _cn, _ax in (("_ColumnShareSum", 0), ("_RowShareSum", 1), ("_TotalShareSum", None)):
        c15.grid(ctx, _cn, axis=_ax)


def _bind(*names):
    return {n: ast.Name(id=n, ctx=ast.Load()) for n in names}


def algebra(ctx: Ctx):
    ci = ctx.repo.cls(MS, "SumSubtotals")
    B = "self._base_values"
    e = expand(ctx.repo, ci, "_subtotal_row", bind=_bind("subtotal"), stop=lambda m: True)
    ctx.check_expr(
        "algebra", f"{MS}::SumSubtotals._subtotal_row", e,
        f"np.full({B}.shape[1], np.nan) if self._diff_rows_nan and len(subtotal.subtrahend_idxs) > 0 else "
        f"np.sum({B}[subtotal.addend_idxs, :], axis=0) - np.sum({B}[subtotal.subtrahend_idxs, :], axis=0)",
        "row subtotal = sum of addend rows - sum of subtrahend rows; NaN when it is a difference and the rows flag is set",
    )
    e = expand(ctx.repo, ci, "_subtotal_column", bind=_bind("subtotal"), stop=lambda m: True)
    ctx.check_expr(
        "algebra", f"{MS}::SumSubtotals._subtotal_column", e,
        f"np.full({B}.shape[0], np.nan) if self._diff_cols_nan and len(subtotal.subtrahend_idxs) > 0 else "
        f"np.sum({B}[:, subtotal.addend_idxs], axis=1) - np.sum({B}[:, subtotal.subtrahend_idxs], axis=1)",
        "column subtotal: mirror of the row rule",
    )
    e = expand(ctx.repo, ci, "_intersection", bind=_bind("row_subtotal", "column_subtotal"), stop=lambda m: m.name != "_intersection")
    cs, rs = "len(column_subtotal.subtrahend_idxs) > 0", "len(row_subtotal.subtrahend_idxs) > 0"
    ctx.check_expr(
        "algebra", f"{MS}::SumSubtotals._intersection", e,
        f"np.nan if {cs} and {rs} or ({cs} and self._diff_cols_nan) or ({rs} and self._diff_rows_nan) else "
        "np.sum(self._subtotal_row(row_subtotal)[column_subtotal.addend_idxs]) - np.sum(self._subtotal_row(row_subtotal)[column_subtotal.subtrahend_idxs])",
        "intersection = (A_r - S_r) x (A_c - S_c) as a signed sum (direction independent); NaN for difference x difference and for a flagged difference",
    )
    ctx.count("subtotal algebra obligations", 3)
    p = ctx.repo.cls(MS, "PositiveTermSubtotals")
    for member, want in (
        ("_subtotal_row", f"np.sum({B}[subtotal.addend_idxs, :], axis=0)"),
        ("_subtotal_column", f"np.sum({B}[:, subtotal.addend_idxs], axis=1)"),
    ):
        e = expand(ctx.repo, p, member, bind=_bind("subtotal"), stop=lambda m: True)
        ctx.check_expr("algebra", f"{MS}::PositiveTermSubtotals.{member}", e, want, "positive part = sum of the addends")
        ctx.count("subtotal algebra obligations")
    e = expand(ctx.repo, p, "_intersection", bind=_bind("row_subtotal", "column_subtotal"), stop=lambda m: m.name != "_intersection")
    ctx.check_expr(
        "algebra", f"{MS}::PositiveTermSubtotals._intersection", e,
        f"np.nan if {cs} and {rs} else np.sum(self._subtotal_row(row_subtotal)[column_subtotal.addend_idxs])",
    )
    n = ctx.repo.cls(MS, "NegativeTermSubtotals")
    for member, want in (
        ("_subtotal_row", f"np.sum({B}[subtotal.subtrahend_idxs, :], axis=0)"),
        ("_subtotal_column", f"np.sum({B}[:, subtotal.subtrahend_idxs], axis=1)"),
    ):
        e = expand(ctx.repo, n, member, bind=_bind("subtotal"), stop=lambda m: True)
        ctx.check_expr("algebra", f"{MS}::NegativeTermSubtotals.{member}", e, want, "negative part = sum of the subtrahends")
        ctx.count("subtotal algebra obligations")
    e = expand(ctx.repo, n, "_intersection", bind=_bind("row_subtotal", "column_subtotal"), stop=lambda m: True)
    ctx.check_expr(
        "algebra", f"{MS}::NegativeTermSubtotals._intersection", e,
        f"np.nan if {cs} and {rs} else "
        f"np.sum(np.sum({B}[row_subtotal.addend_idxs, :], axis=0)[column_subtotal.subtrahend_idxs]) if {cs} else "
        f"np.sum(np.sum({B}[:, column_subtotal.addend_idxs], axis=1)[row_subtotal.subtrahend_idxs]) if {rs} else 0",
        "negative part of an intersection: positive side of one dimension x negative side of the other",
    )
    e = expand(ctx.repo, n, "_blocks", stop=lambda m: m.name != "_blocks")
    ctx.check_expr("algebra", f"{MS}::NegativeTermSubtotals._blocks", e, f"[[np.full({B}.shape, 0), self._subtotal_columns], [self._subtotal_rows, self._intersections]]", "base cells have no negative terms")
    base = ctx.repo.cls(MS, "_BaseSubtotals")
    e = expand(ctx.repo, base, "_blocks", stop=lambda m: m.name != "_blocks")
    ctx.check_expr("algebra", f"{MS}::_BaseSubtotals._blocks", e, f"[[{B}, self._subtotal_columns], [self._subtotal_rows, self._intersections]]")
    for member, want in (
        ("_row_subtotals", "self._dimensions[0].subtotals"),
        ("_column_subtotals", "self._dimensions[1].subtotals"),
    ):
        e = expand(ctx.repo, base, member)
        ctx.check_expr("algebra.dimension", f"{MS}::_BaseSubtotals.{member}", e, want, "row subtotals come from the rows dimension, column subtotals from the columns dimension")
    # stripe
    for cname, want in (
        ("SumSubtotals", "np.sum(self._base_values[subtotal.addend_idxs]) - np.sum(self._base_values[subtotal.subtrahend_idxs])"),
        ("PositiveTermSubtotals", "np.sum(self._base_values[subtotal.addend_idxs])"),
        ("NegativeTermSubtotals", "np.sum(self._base_values[subtotal.subtrahend_idxs])"),
    ):
        ci = ctx.repo.cls(SI, cname)
        e = expand(ctx.repo, ci, "_subtotal_value", bind=_bind("subtotal"), stop=lambda m: True)
        ctx.check_expr("algebra", f"{SI}::{cname}._subtotal_value", e, want)
        ctx.count("subtotal algebra obligations")
    ctx.require_min("subtotal algebra obligations", 10)
    # _Slice._assemble_vector-like helper is unused by measures; SumSubtotals class-method entry points
    sc = ctx.repo.cls(MS, "SumSubtotals")
    for meth, attr in (("blocks", "_blocks"), ("intersections", "_intersections"), ("subtotal_columns", "_subtotal_columns"), ("subtotal_rows", "_subtotal_rows")):
        m = ctx.repo.lookup(sc, meth)
        body = SUMMARIZER.summarize(m.node)
        ctx.check_expr("algebra.entry", f"{MS}::SumSubtotals.{meth}", body, f"cls(base_values, dimensions, diff_cols_nan, diff_rows_nan).{attr}", "flags are forwarded in (cols, rows) parameter order")
    init = ctx.repo.lookup(sc, "__init__")
    ctx.ob("algebra.entry", f"{MS}::SumSubtotals.__init__", init.params, "['base_values','dimensions','diff_cols_nan','diff_rows_nan']", init.params == ["base_values", "dimensions", "diff_cols_nan", "diff_rows_nan"])
    assigns = {u(t): u(n.value) for n in ast.walk(init.node) if isinstance(n, ast.Assign) for t in n.targets}
    ok = assigns.get("self._diff_cols_nan") == "diff_cols_nan" and assigns.get("self._diff_rows_nan") == "diff_rows_nan"
    ctx.ob("algebra.entry", f"{MS}::SumSubtotals.__init__ [fields]", assigns, "_diff_cols_nan <- diff_cols_nan, _diff_rows_nan <- diff_rows_nan", ok)


def _signed_terms(e: ast.expr, sign: int = 1):
    """Flatten +/- into [(sign, term)]."""
    if isinstance(e, ast.BinOp) and isinstance(e.op, (ast.Add, ast.Sub)):
        return _signed_terms(e.left, sign) + _signed_terms(e.right, sign if isinstance(e.op, ast.Add) else -sign)
    if isinstance(e, ast.UnaryOp) and isinstance(e.op, ast.USub):
        return _signed_terms(e.operand, -sign)
    return [(sign, e)]


def signed_sums(ctx: Ctx):
    """A subtotal is the signed merge: +sum over addends, -sum over subtrahends (each exactly once)."""
    targets = [
        (MS, "SumSubtotals", "_subtotal_row"), (MS, "SumSubtotals", "_subtotal_column"), (SI, "SumSubtotals", "_subtotal_value"),
    ]
    for short, cname, member in targets:
        ci = ctx.repo.cls(short, cname)
        e = expand(ctx.repo, ci, member, bind=_bind("subtotal"), stop=lambda m: True)
        leaf = main_leaf(e)
        got = []
        for sign, term in _signed_terms(leaf):
            t = u(term)
            sets = sorted({a for a in ("addend_idxs", "subtrahend_idxs") if f"subtotal.{a}" in t})
            got.append(("+" if sign > 0 else "-") + ",".join(sets or ["?"]))
        where = f"{short}::{cname}.{member} [signed merge]"
        want = ["+addend_idxs", "-subtrahend_idxs"]
        if any("?" in g for g in got):
            ctx.undecided("signed-merge", where, got, want)
        else:
            ctx.ob("signed-merge", where, sorted(got), want, sorted(got) == want, "count of a subtotal = sum of its addends minus sum of its subtrahends")
        ctx.count("signed-merge sites")
    ctx.require_min("signed-merge sites", 3)
    # ids that are missing or no longer exist contribute nothing: both id lists are filtered by the valid element ids
    ci = ctx.repo.cls("dimension.py", "_Subtotal")
    for member in ("addend_ids", "subtrahend_ids"):
        e = expand(ctx.repo, ci, member, stop=lambda m: True)
        from ..exprdiff import alpha

        # bound variables renamed to their binding depth (`_b0`): the filter is on the comprehension's OWN element
        conds = [u(c) for n in ast.walk(alpha(e)) if isinstance(n, ast.comprehension) for c in n.ifs]
        ok = True if any(re.fullmatch(r"_b\d+ in self\._valid_elements\.element_ids", c) for c in conds) else (False if not conds else None)
        ctx.ob("stale-ids", f"dimension.py::_Subtotal.{member}", conds, "['<id> in self._valid_elements.element_ids']", ok, "an id that is missing or no longer exists contributes nothing")


def base_flags(ctx: Ctx):
    """Own-direction difference flag of the base measures (same derivation as C02's base blocks)."""
    from . import c02

    c02.base_blocks(ctx)


def index_resolution(ctx: Ctx):
    ci = ctx.repo.cls("dimension.py", "_Subtotal")
    e = expand(ctx.repo, ci, "addend_idxs", stop=lambda m: m.name == "addend_ids")
    ctx.check_expr("index-resolution", "dimension.py::_Subtotal.addend_idxs", e, "np.fromiter((idx for idx, vector in enumerate(self._valid_elements) if vector.element_id in self.addend_ids), dtype=np.int64)", "positions among the VALID elements of the ids that are addends")
    e = expand(ctx.repo, ci, "subtrahend_idxs", stop=lambda m: m.name == "subtrahend_ids")
    ctx.check_expr("index-resolution", "dimension.py::_Subtotal.subtrahend_idxs", e, "np.fromiter((idx for idx, vector in enumerate(self._valid_elements) if vector.element_id in self.subtrahend_ids), dtype=np.int64)")
    e = expand(ctx.repo, ci, "addend_ids", stop=lambda m: True)
    ctx.check_expr("index-resolution", "dimension.py::_Subtotal.addend_ids", e, "tuple((arg for arg in self._subtotal_dict.get('kwargs', {}).get('positive') or self._subtotal_dict.get('args', []) if arg in self._valid_elements.element_ids))", "ids that are missing or no longer exist contribute nothing")
    e = expand(ctx.repo, ci, "subtrahend_ids", stop=lambda m: True)
    ctx.check_expr("index-resolution", "dimension.py::_Subtotal.subtrahend_ids", e, "tuple((arg for arg in self._subtotal_dict.get('kwargs', {}).get('negative', []) if arg in self._valid_elements.element_ids))")
    e = expand(ctx.repo, ci, "is_difference", stop=lambda m: True)
    ctx.check_expr("index-resolution", "dimension.py::_Subtotal.is_difference", e, "bool(self.subtrahend_ids)")
    # dependence (whatever the spelling): which terms exist - and hence whether the insertion IS a difference - is
    # decided against the VALID elements; an id that is missing or no longer exists contributes nothing, so an
    # insertion whose negative ids are all stale is a plain subtotal in every respect.
    for member, what in (("addend_ids", "addends"), ("subtrahend_ids", "subtrahends"), ("is_difference", "difference-ness"), ("addend_idxs", "addend positions"), ("subtrahend_idxs", "subtrahend positions")):
        if ctx.repo.lookup(ci, member) is None:
            ctx.undecided("index-resolution.valid-dependence", f"dimension.py::_Subtotal.{member}", "member not found", "")
            continue
        full = expand(ctx.repo, ci, member)
        dep = "self._valid_elements" in u(full)
        ctx.ob("index-resolution.valid-dependence", f"dimension.py::_Subtotal.{member}", "depends on self._valid_elements" if dep else u(full)[:140], f"{what} are resolved against the valid elements", dep,
               "decided from the raw definition alone, an insertion whose ids are all stale / missing would still count as having those terms")
    st = ctx.repo.cls("dimension.py", "_Subtotals")
    from ..stmts import collect_test_atoms, match_atom

    if ctx.repo.lookup(st, "_iter_valid_subtotal_dicts") is None:
        raise AnalysisError("_Subtotals._iter_valid_subtotal_dicts vanished")
    cands = collect_test_atoms(ctx.repo, st, "_iter_valid_subtotal_dicts")
    want = [
        ("isinstance(insertion_dict, dict)", "not a dict"),
        ("insertion_dict.get('function') != 'subtotal'", "not a subtotal"),
        ("insertion_dict.get('hide') is True", "hidden insertion"),
        ("{'anchor', 'name'}.issubset(insertion_dict.keys())", "anchor or name missing"),
        ("insertion_dict.get('kwargs', {}).get('positive') or insertion_dict.get('args', []) or insertion_dict.get('kwargs', {}).get('negative', [])", "no terms"),
        ("self._element_ids.intersection((insertion_dict.get('kwargs', {}).get('positive') or insertion_dict.get('args', [])) + insertion_dict.get('kwargs', {}).get('negative', []))", "wholly stale"),
    ]
    for w, what in want:
        ok, why = match_atom(cands, w)
        ctx.ob("index-resolution.filters", f"dimension.py::_Subtotals._iter_valid_subtotal_dicts [{what}]", [u(c)[:70] for c in cands][:8], w, ok, why or "malformed, hidden, empty and wholly stale insertions are skipped")


def flags(ctx: Ctx):
    table = {
        "_WeightedCounts": f"SumSubtotals.blocks({W}.counts, self._dimensions, diff_cols_nan={W}.diff_nans, diff_rows_nan={W}.diff_nans)",
        "_UnweightedCounts": f"SumSubtotals.blocks({U}.counts, self._dimensions, diff_cols_nan={U}.diff_nans, diff_rows_nan={U}.diff_nans)",
        "_Sums": "SumSubtotals.blocks(self._cube_measures.cube_sum.sums, self._dimensions, diff_rows_nan=True, diff_cols_nan=True)",
    }
    for cname, want in table.items():
        e = expand(ctx.repo, ctx.repo.cls(MM, cname), "blocks")
        ctx.check_expr("flag-table", f"{MM}::{cname}.blocks", e, want, "counts: difference NaN only when the response carries valid counts for a numeric measure; sums: differences NaN in both directions")
        ctx.count("flag table entries")
    for cname, flag in (("_RowComparableCounts", "diff_cols_nan"), ("_ColumnComparableCounts", "diff_rows_nan")):
        e = expand(ctx.repo, ctx.repo.cls(MM, cname), "blocks", stop=lambda m: m.name == "is_defined")
        leaf = main_leaf(e)
        ctx.check_expr("flag-table", f"{MM}::{cname}.blocks", leaf, f"SumSubtotals.blocks({W}.counts, self._dimensions, {flag}=True)")
        ctx.count("flag table entries")
    ctx.require_min("flag table entries", 5)
    cc = ctx.repo.cls("matrix/cubemeasure.py", "_BaseCubeCounts")
    e = expand(ctx.repo, cc, "diff_nans")
    ctx.check_expr("flag-table", "matrix/cubemeasure.py::_BaseCubeCounts.diff_nans", e, "self._diff_nans")
    cm = ctx.repo.cls("matrix/cubemeasure.py", "CubeMeasures")
    for name, vc in (("unweighted_cube_counts", "unweighted_valid_counts"), ("weighted_cube_counts", "weighted_valid_counts")):
        body = expand(ctx.repo, cm, name)  # helper lazyproperties of CubeMeasures inlined (a shared `_diff_nans` flag)
        if isinstance(body, ast.Call) and len(body.args) >= 2:
            ctx.count("count constructors with a NaN flag")
    valid_counts_flag_table(ctx)
    # stripe counts
    for cname, h in (("_WeightedCounts", "weighted"), ("_UnweightedCounts", "unweighted")):
        e = expand(ctx.repo, ctx.repo.cls(SM, cname), "subtotal_values", stop=lambda m: m.name == "base_values")
        ctx.check_expr("flag-table.stripe", f"{SM}::{cname}.subtotal_values", e, "SumSubtotals.subtotal_values(self.base_values, self._rows_dimension)")
        # "in a response that carries valid counts for a numeric measure a difference's count is NaN instead" holds for a
        # strand as for a slice: the subtotal values of the 1-D counts must depend on whether valid counts stand in for the
        # counts (a NaN flag, as in the matrix layer).  Full expansion down to the cube: no such dependence = violation.
        full = expand(ctx.repo, ctx.repo.cls(SM, cname), "subtotal_values", stop=lambda m: m.name == "base_values")
        t_full = u(full)
        dep = any(w in t_full for w in ("diff_nan", "diff_rows_nan", "valid_counts", "valid_count"))
        ctx.ob("flag-table.stripe.valid-counts", f"{SM}::{cname}.subtotal_values", "depends on the presence of valid counts" if dep else "signed sum of the counts whether or not they are valid counts",
               "NaN for a difference when valid counts stand in for the counts (as _BaseCubeCounts.diff_nans in the matrix layer)", dep,
               "the difference of two VALID counts (respondents with a numeric answer) is not a count of anybody: the slice reports NaN, the strand must too")


def nan_classes(ctx: Ctx):
    CM = "self._cube_measures"
    table = {
        "_Means": f"NanSubtotals.blocks({CM}.cube_means.means, self._dimensions)",
        "_Medians": f"NanSubtotals.blocks({CM}.cube_medians.medians, self._dimensions)",
        "_StdDev": f"NanSubtotals.blocks({CM}.cube_stddev.stddev, self._dimensions)",
    }
    for cname, want in table.items():
        e = expand(ctx.repo, ctx.repo.cls(MM, cname), "blocks")
        ctx.check_expr("nan-classes", f"{MM}::{cname}.blocks", e, want, "measures that cannot be added are NaN for every subtotal")
        ctx.count("NaN-subtotal classes")
    e = expand(ctx.repo, ctx.repo.cls(MM, "_MeansSmoothed"), "blocks", stop=lambda m: m.name == "_smoother")
    ctx.check_expr("nan-classes", f"{MM}::_MeansSmoothed.blocks", e, f"NanSubtotals.blocks(self._smoother.smooth({CM}.cube_means.means), self._dimensions)")
    ctx.count("NaN-subtotal classes")
    ns = ctx.repo.cls(MS, "NanSubtotals")
    ctx.ob("nan-classes.filler", f"{MS}::NanSubtotals.filler", u(ctx.repo.const_lookup(ns, "filler")), "np.nan", u(ctx.repo.const_lookup(ns, "filler")) == "np.nan")
    for member, want, b in (
        ("_intersection", "self.filler", _bind("row_subtotal", "column_subtotal")),
        ("_subtotal_column", "np.full(self._base_values.shape[0], self.filler)", _bind("subtotal")),
        ("_subtotal_row", "np.full(self._base_values.shape[1], self.filler)", _bind("subtotal")),
    ):
        e = expand(ctx.repo, ns, member, bind=b)
        ctx.check_expr("nan-classes.filler", f"{MS}::NanSubtotals.{member}", e, want)
    for cname in ("_Means", "_Medians", "_StdDev"):
        e = expand(ctx.repo, ctx.repo.cls(SM, cname), "subtotal_values", stop=lambda m: m.name == "base_values")
        ctx.check_expr("nan-classes", f"{SM}::{cname}.subtotal_values", e, "NanSubtotals.subtotal_values(self.base_values, self._rows_dimension)")
        ctx.count("NaN-subtotal classes")
    sns = ctx.repo.cls(SI, "NanSubtotals")
    e = expand(ctx.repo, sns, "_subtotal_values", stop=lambda m: m.name != "_subtotal_values")
    ctx.check_expr("nan-classes.filler", f"{SI}::NanSubtotals._subtotal_values", e, "np.full(len(self._row_subtotals), np.nan)")
    ctx.require_min("NaN-subtotal classes", 7)


# --------------------------------------------------------------------------- wave difference (DECTAB)
class IdxSet:
    """Abstract class of an index array: its size class and whether it contains index 0."""

    def __init__(self, name, size, has_zero, nonzero):
        self.name, self.size, self.has_zero, self.nonzero = name, size, has_zero, nonzero

    def __repr__(self):
        return self.name


IDX_CLASSES = [
    IdxSet("{}", 0, False, False),
    IdxSet("{0}", 1, True, False),
    IdxSet("{k>0}", 1, False, True),
    IdxSet("{0,k}", 2, True, True),
    IdxSet("{k,l}", 2, False, True),
]


def _wave_expected(a: IdxSet, s: IdxSet, is_cat_date: bool, stripe: bool):
    if not is_cat_date or s.size == 0:
        return "default"
    if a.size == 0:
        return None  # negative-only difference: not specified by the property
    if a.size > 1 or s.size > 1:
        return "nan"
    return "pctdiff"


def _classify_leaf(e: ast.expr) -> str:
    t = u(e)
    if t == "default":
        return "default"
    if t == "np.nan" or (t.startswith("np.full(") and t.endswith("np.nan)")):
        return "nan"
    if isinstance(e, ast.BinOp) and isinstance(e.op, ast.Sub) and isinstance(e.left, ast.BinOp) and isinstance(e.left.op, ast.Div):
        return "pctdiff"
    return "?" + t[:60]


def wave_diff(ctx: Ctx):
    targets = [
        (MS, "WaveDiffSubtotal", "_subtotal_row", "self._dimensions[0].dimension_type", False),
        (MS, "WaveDiffSubtotal", "_subtotal_column", "self._dimensions[1].dimension_type", False),
        (SI, "WaveDiffSubtotals", "_subtotal_value", None, True),
    ]
    for short, cname, member, dim_expr, stripe in targets:
        ci = ctx.repo.cls(short, cname)
        e = expand(ctx.repo, ci, member, bind=_bind("subtotal", "default"), stop=lambda m: m.kind in ("lazyproperty", "property"))
        where = f"{short}::{cname}.{member}"
        bad, undec, n = [], None, 0
        for is_cd in ((True, False) if dim_expr else (True,)):
            for a, s in itertools.product(IDX_CLASSES, repeat=2):
                exp = _wave_expected(a, s, is_cd, stripe)
                if exp is None:
                    continue

                def atoms(x: ast.expr, a=a, s=s, is_cd=is_cd):
                    t = u(x) if isinstance(x, (ast.Attribute, ast.Compare, ast.Name)) else None
                    if t == "subtotal.addend_idxs":
                        return a
                    if t == "subtotal.subtrahend_idxs":
                        return s
                    if dim_expr and t == f"{dim_expr} == DT.CAT_DATE":
                        return is_cd
                    # the type itself (so that `!=`, `in (...)`, a flipped guard ... evaluate as well)
                    if dim_expr and t == dim_expr:
                        return "CAT_DATE" if is_cd else "CAT"
                    if isinstance(x, ast.Attribute) and isinstance(x.value, ast.Name) and x.value.id == "DT":
                        from ..typetab import dt_value

                        return dt_value(ctx.repo, x.attr)
                    raise KeyError

                def calls(c: ast.Call, it: Interp):
                    f = u(c.func)
                    if f == "len" and len(c.args) == 1:
                        v = it.ev(c.args[0])
                        if isinstance(v, IdxSet):
                            return v.size
                    if f == "any" and len(c.args) == 1:
                        v = it.ev(c.args[0])
                        if isinstance(v, IdxSet):
                            return v.nonzero  # truthiness of the INDEX VALUES: index 0 is falsy
                    raise DTop(f"call {f}")

                class LI(Interp):
                    def ev(self, x):
                        if isinstance(x, ast.IfExp):
                            return self.ev(x.body) if self.truth(self.ev(x.test)) else self.ev(x.orelse)
                        if isinstance(x, (ast.BoolOp, ast.Compare, ast.UnaryOp)) or (isinstance(x, ast.Call) and u(x.func) in ("len", "any")):
                            return super().ev(x)
                        if isinstance(x, (ast.Attribute, ast.Name)):
                            try:
                                return atoms(x)
                            except KeyError:
                                pass
                        if isinstance(x, ast.Constant):
                            return x.value
                        return ("leaf", x)

                try:
                    v = LI(atoms, calls).ev(e)
                except DTop as t:
                    undec = str(t)
                    break
                n += 1
                got = _classify_leaf(v[1]) if isinstance(v, tuple) and v and v[0] == "leaf" else repr(v)
                if got != exp:
                    bad.append(f"cat-date={is_cd} addends={a} subtrahends={s}: {got} (specified: {exp})")
            if undec:
                break
        ctx.count("wave-diff cases", n)
        if undec:
            ctx.undecided("wave-diff", where, "DECTAB: " + undec, "rule table")
        elif bad:
            ctx.violated("wave-diff", where, "; ".join(bad[:4]) + (f" ... ({len(bad)} cases)" if len(bad) > 4 else ""), "categorical-date difference: one-minus-one -> difference of the two percentages; several terms on either side -> NaN; otherwise the default", "an index may be compared and used as a subscript but never tested for truth (index 0 is a valid index)")
        else:
            ctx.held("wave-diff", where, f"{n} abstract (addend, subtrahend) index-set classes agree with the rule table", "one-minus-one -> pct difference; several terms -> NaN; no subtrahend / not categorical-date -> default")
    ctx.require_min("wave-diff cases", 60)
    # stripe guard on the dimension type lives in _subtotal_values
    ci = ctx.repo.cls(SI, "WaveDiffSubtotals")
    e = expand(ctx.repo, ci, "_subtotal_values", stop=lambda m: m.name in ("_row_subtotals", "_subtotal_value"))
    want = (
        "np.array([]) if len(self._row_subtotals) == 0 else self._default_values if self._rows_dimension.dimension_type != DT.CAT_DATE else "
        "np.array([self._subtotal_value(subtotal, default) for subtotal, default in zip(self._row_subtotals, self._default_values)])"
    )
    ctx.check_expr("wave-diff.stripe-guard", f"{SI}::WaveDiffSubtotals._subtotal_values", e, want, "the wave-difference rule applies only on a categorical-date dimension")
    # percent difference uses bases and counts of the same index sets
    wd = ctx.repo.cls(MS, "WaveDiffSubtotal")
    for member, ax, sl in (("_subtotal_row", 0, lambda i: f"[subtotal.{i}, :]"), ("_subtotal_column", 1, lambda i: f"[:, subtotal.{i}]")):
        e = expand(ctx.repo, wd, member, bind=_bind("subtotal", "default"), stop=lambda m: m.kind in ("lazyproperty", "property"))
        leaves = [l for _g, l in strip_ifexp_paths(e) if _classify_leaf(l) == "pctdiff"]
        want = (
            f"np.sum(self._counts{sl('addend_idxs')}, axis={ax}) / np.sum(self._base_values{sl('addend_idxs')}, axis={ax}) - "
            f"np.sum(self._counts{sl('subtrahend_idxs')}, axis={ax}) / np.sum(self._base_values{sl('subtrahend_idxs')}, axis={ax})"
        )
        if len(leaves) == 1:
            ctx.check_expr("wave-diff.formula", f"{MS}::WaveDiffSubtotal.{member}", leaves[0], want, "count_A/base_A - count_S/base_S")
        else:
            ctx.undecided("wave-diff.formula", f"{MS}::WaveDiffSubtotal.{member}", f"{len(leaves)} percentage-difference leaves", want)


# --------------------------------------------------------------------------- accumulate, never overwrite
_POSITIVE_CONTROL = """
def _subtotal_value(self, subtotal):
    signs = np.zeros(len(self._base_values))
    signs[subtotal.addend_idxs] = 1
    signs[subtotal.subtrahend_idxs] = -1
    return np.sum(signs * self._base_values)
"""


def _index_array_stores(fn: ast.AST):
    """Plain stores `X[...idxs...] = v` whose subscript mentions an addend / subtrahend index array."""
    out = []
    for n in ast.walk(fn):
        if isinstance(n, ast.Assign):
            for t in n.targets:
                if isinstance(t, ast.Subscript) and any(k in u(t.slice) for k in ("addend_idxs", "subtrahend_idxs", "addend_ids", "subtrahend_ids")):
                    out.append((n.lineno, u(t)))
    return out


def no_index_overwrite(ctx: Ctx):
    """`a[idxs] = v` does not accumulate: where the positive and the negative term lists overlap (which the
    property allows) the later store wins and the earlier term is lost.  A subtotal must be formed by sums over
    the two index arrays, so no subtotal class may store through an addend / subtrahend index array."""
    control = _index_array_stores(ast.parse(_POSITIVE_CONTROL))
    if len(control) != 2:
        raise AnalysisError("no-overwrite rule: the positive control is no longer recognised")
    n_fn = 0
    for short in (MS, SI):
        mod = ctx.repo.module(short)
        for ci in mod.classes.values():
            for m in ci.members.values():
                n_fn += 1
                stores = _index_array_stores(m.node)
                where = f"{short}::{ci.name}.{m.name}"
                if stores:
                    ctx.violated("signed-merge.no-overwrite", where, [t for _l, t in stores], "sum over the addend index array minus sum over the subtrahend index array",
                                 "assignment through an index array overwrites instead of accumulating: a category listed in both the positive and the negative terms is counted once with the later sign")
    ctx.count("subtotal-class functions scanned for index-array stores", n_fn)
    ctx.require_min("subtotal-class functions scanned for index-array stores", 30)
    if not any(o.rule.endswith("no-overwrite") and o.status == "violated" for o in ctx.obligations):
        ctx.held("signed-merge.no-overwrite", f"{MS}, {SI}: every subtotal class", "no store through an addend / subtotal index array", "", "positive control recognised (2 stores)")


def additive_blocks(ctx: Ctx):
    """A measure class that INHERITS insertion blocks computed by the summing subtotal algebra (subtotal = sum of the
    addends of `_base_values`) is only right when its base values are additive over categories (counts, bases, sums).  A
    subclass whose `_base_values` is a quotient / product / power of two arrays (an effective base (sum w)^2 / sum w^2,
    a proportion) and which keeps the inherited blocks reports the SUM of the addends' ratios for a subtotal, not the
    ratio of the merged category."""
    mod = ctx.repo.module(MM)
    n = 0
    for ci in mod.classes.values():
        if "_base_values" not in ci.members:
            continue
        # where do this class's insertion blocks come from?
        inherited_additive = []
        for member in ("_subtotal_columns", "_subtotal_rows", "_intersections"):
            m = ctx.repo.lookup(ci, member)
            if m is None or m.cls is ci:
                continue
            src = ast.unparse(m.node)
            if "SumSubtotals." in src and "self._base_values" in src:
                inherited_additive.append(f"{m.cls.name}.{member}")
        if not inherited_additive:
            continue
        n += 1
        bv = ctx.repo.lookup(ci, "_base_values")
        body = SUMMARIZER.summarize(bv.node)
        nonlinear = []
        for x in ast.walk(body):
            if isinstance(x, ast.BinOp) and isinstance(x.op, (ast.Div, ast.Mult, ast.Pow, ast.FloorDiv)):
                const = lambda e: isinstance(e, ast.Constant) or (isinstance(e, ast.UnaryOp) and isinstance(e.operand, ast.Constant))
                if isinstance(x.op, ast.Pow) or not (const(x.left) or const(x.right)):
                    nonlinear.append(u(x)[:70])
        where = f"{MM}::{ci.name}._base_values"
        if nonlinear:
            ctx.violated("additive-blocks", where, f"{nonlinear[:2]} with insertion blocks inherited from {inherited_additive}", "base values additive over categories, or its own insertion blocks",
                         "a subtotal of this measure is the sum of its addends' ratios, not the measure of the merged category")
        else:
            ctx.held("additive-blocks", where, f"additive; blocks from {inherited_additive[:1]}", "")
    ctx.count("measure classes with inherited additive blocks", n)
    ctx.require_min("measure classes with inherited additive blocks", 1)


_WS_CONTROL = """
def _subtotal_row(self, subtotal):
    weights = self._term_weights(subtotal, self._ncols)
    return np.einsum("ij,j->i", self._base_values, weights)

def ok(self, subtotal):
    return np.sum(self._base_values[:, subtotal.addend_idxs], axis=1) - np.sum(self._base_values[:, subtotal.subtrahend_idxs], axis=1)
"""


def _weighted_sums(fn: ast.AST):
    out = []
    for n in ast.walk(fn):
        if isinstance(n, ast.Call) and u(n.func) in ("np.einsum", "np.dot", "np.matmul", "np.tensordot", "np.inner", "np.average") :
            out.append(u(n)[:70])
        if isinstance(n, ast.BinOp) and isinstance(n.op, ast.MatMult):
            out.append(u(n)[:70])
        if isinstance(n, ast.Call) and isinstance(n.func, ast.Attribute) and n.func.attr == "dot":
            out.append(u(n)[:70])
    return out


def gather_not_weights(ctx: Ctx):
    """A subtotal GATHERS its addends / subtrahends and sums those.  The "vectorised" alternative - a weighted sum over the
    whole vector with weights +1 / -1 / 0 (einsum, dot, @) - multiplies every OTHER cell by 0, and 0 x NaN is NaN: a
    missing value in a category that takes no part in the subtotal makes the subtotal missing."""
    tree = ast.parse(_WS_CONTROL)
    if [len(_weighted_sums(f)) for f in tree.body] != [1, 0]:
        raise AnalysisError("weighted-sum lint: the positive control is no longer recognised")
    n = 0
    found = False
    for short in (MS, SI):
        mod = ctx.repo.module(short)
        for ci in mod.classes.values():
            for m in ci.members.values():
                n += 1
                for t in _weighted_sums(m.node):
                    found = True
                    ctx.violated("signed-merge.gather", f"{short}::{ci.name}.{m.name} [{t}]", t, "sum over the gathered addends minus sum over the gathered subtrahends",
                                 "a weighted sum over all categories: 0 x NaN = NaN, a missing value outside the subtotal's terms makes the subtotal missing")
    if not found:
        ctx.held("signed-merge.gather", f"{MS}, {SI}: every subtotal class", f"{n} functions: no weighted-sum (einsum / dot / @) subtotal", "", "positive control recognised")


def valid_counts_flag_table(ctx: Ctx):
    """"In a response that carries valid counts for a numeric measure a difference's count is NaN instead": the NaN flag a
    slice's count measure is built with is True exactly when the counts it is built FROM are valid counts - decided as a
    table over the count measures present in the response (weighted / unweighted valid counts, weighted counts), the
    counts argument followed through `Cube.counts` / `Cube.unweighted_counts` to the measure they hand out."""
    import itertools

    from ..dectab import DTop, Raises, Sym, SymInterp
    from . import c16

    cm = ctx.repo.cls("matrix/cubemeasure.py", "CubeMeasures")
    tables = {acc: c16.count_source_table(ctx, acc) for acc in ("counts", "unweighted_counts")}
    for name in ("unweighted_cube_counts", "weighted_cube_counts"):
        where = f"matrix/cubemeasure.py::CubeMeasures.{name} [NaN flag vs source of the counts]"
        body = expand(ctx.repo, cm, name)
        if not (isinstance(body, ast.Call) and len(body.args) >= 2):
            ctx.undecided("flag-table.valid-counts", where, u(body)[:100], "a count-measure constructor taking (counts, flag, ...)")
            continue
        bad, n, undec = [], 0, None
        for combo in itertools.product((True, False), repeat=3):
            wvc, uvc, wc = combo

            def atoms(x, wvc=wvc, uvc=uvc, wc=wc):
                t = u(x)
                if t == "self._cube.weighted_valid_counts":
                    return Sym("weighted_valid_counts") if wvc else None
                if t == "self._cube.unweighted_valid_counts":
                    return Sym("unweighted_valid_counts") if uvc else None
                if t == "self._cube.weighted_counts":
                    return Sym("weighted_counts") if wc else None
                if t in ("self._cube.counts", "self._cube.unweighted_counts"):
                    return Sym("Cube." + t.split(".")[-1])
                raise KeyError

            class _I(SymInterp):
                def compare(self, op, a, b):
                    if isinstance(op, (ast.Is, ast.IsNot)) and (a is None or b is None):
                        same = a is None and b is None
                        return same if isinstance(op, ast.Is) else not same
                    return super().compare(op, a, b)

            try:
                src = _I(atoms).ev(body.args[0])
                flag = _I(atoms).ev(body.args[1])
            except (DTop, Raises) as exc:
                undec = str(exc)
                break
            st = src.text if isinstance(src, Sym) else repr(src)
            if st.startswith("Cube."):
                tab = tables[st.split(".")[1]]
                if isinstance(tab, str):
                    undec = tab
                    break
                st = tab[combo]
            if st not in ("weighted_valid_counts", "unweighted_valid_counts", "weighted_counts", "unweighted_counts") or not isinstance(flag, bool):
                undec = f"source {st[:60]}, flag {flag!r}"
                break
            n += 1
            if flag != st.endswith("valid_counts"):
                present = ", ".join(nm for nm, p in zip(("valid_count_weighted", "valid_count_unweighted", "weighted count"), combo) if p) or "plain counts only"
                bad.append(f"response with {present}: built from {st}, NaN flag {flag}")
        ctx.count("count-source / NaN-flag combinations", n)
        if undec:
            ctx.undecided("flag-table.valid-counts", where, "DECTAB: " + undec, "flag == (the counts are valid counts)")
        else:
            ctx.ob("flag-table.valid-counts", where, bad[:3] or f"{n} presence combinations agree", "the NaN flag is True exactly when the counts the measure is built from are valid counts", not bad,
                   "the difference of two VALID counts is not a count of anybody: NaN; the difference of two counts is their signed merge")
    ctx.require_min("count-source / NaN-flag combinations", 8)
