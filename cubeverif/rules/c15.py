"""C15 - share of sum divides by the base-cell total of the row, column or table."""
from __future__ import annotations

import ast

from ..blocks import block_refs, matrix_templates
from ..core import Ctx
from ..normform import equal
from ..symex import expand, u

MM = "matrix/measure.py"
SM = "stripe/measure.py"
SUMS = "SumSubtotals.blocks(self._cube_measures.cube_sum.sums, self._dimensions, diff_cols_nan=True, diff_rows_nan=True)"


def run(ctx: Ctx):
    ctx.explanation = (
        "BLOCKS: in each of the four blocks of the row/column/total share-of-sum measures the numerator is the sum "
        "block at its own position and the denominator is nansum of the block whose index ALONG THE REDUCED AXIS is "
        "the base block (0) and whose other index is the numerator's - i.e. every total is taken over base rows / "
        "columns only; the sums blocks are SumSubtotals of the sum cube-measure with both difference flags; the "
        "strand share is sums/nansum(sums) and its subtotals are signed sums of base shares."
    )
    grid(ctx, "_ColumnShareSum", axis=0)
    grid(ctx, "_RowShareSum", axis=1)
    grid(ctx, "_TotalShareSum", axis=None)
    ctx.require_min("share-of-sum block sites", 12)
    totals_last(ctx)
    stripe(ctx)
    signed_totals(ctx)
    # positive / negative controls of the denominator rule (expected count on the correct tree: zero)
    if len(sign_destroying(ast.parse("np.fmax(v, 0.0).sum(axis=0) + np.abs(v) + np.where(v > 0, v, 0)", mode="eval"))) != 3 or sign_destroying(ast.parse("np.nansum(v, axis=0)", mode="eval")):
        from ..loader import AnalysisError

        raise AnalysisError("signed-total.denominator: the controls are no longer recognised")
    public(ctx)
    from .common import no_shared_writes

    no_shared_writes(ctx, "no-shared-write")
    from .common import generic_lints

    generic_lints(ctx)
    from .common import block_nan_by_some_subtotal

    block_nan_by_some_subtotal(ctx)
    from .common import dependency_footprints

    dependency_footprints(ctx)
    from .common import public_values_assembled

    public_values_assembled(ctx, "public-assembled", "_Slice", ("row_share_sum", "column_share_sum", "total_share_sum"))
    from . import c04

    c04.gather_not_weights(ctx)
    from . import c05

    # the total a share is taken over is the total of the BASE values: never a reduction of an assembled (display) vector
    c05.display_reductions(ctx, only=lambda where: "share" in where.lower())
    # a helper of the public share accessors that blanks or copies by row / column positions addresses the right axis
    from .common import axis_role_lint

    axis_role_lint(ctx, "axis-roles", entries=("row_share_sum", "column_share_sum", "total_share_sum"))


def totals_last(ctx: Ctx):
    """The total a share is divided by skips missing sums (nansum); a subtotal PROPAGATES a missing addend (np.sum).  The
    two do not commute: the total of a subtotal row (nansum of subtotals) is not the subtotal of the rows' totals as
    soon as one addend cell is missing.  A NaN-skipping total handed to the subtotal machinery is therefore a different
    denominator: the shares of that subtotal row / column no longer add to 1."""
    from ..stmts import reachable_functions, resolver

    n = 0
    for cname in ("_ColumnShareSum", "_RowShareSum", "_TotalShareSum"):
        ci = ctx.repo.cls(MM, cname)
        bad = []
        for fn in reachable_functions(ctx.repo, ci, "blocks"):
            res = resolver(fn, multi=True)
            for c in ast.walk(fn):
                if isinstance(c, ast.Call) and u(c.func).split(".")[0] in ("SumSubtotals", "PositiveTermSubtotals", "NegativeTermSubtotals") and c.args:
                    n += 1
                    for v in res(c.args[0]):
                        if any(isinstance(x, ast.Call) and u(x.func) in ("np.nansum", "np.nanmean") for x in ast.walk(v)):
                            bad.append(u(c)[:90])
        where = f"{MM}::{cname}.blocks"
        if bad:
            ctx.violated("totals-last", where, sorted(set(bad)), "np.nansum(<block of sums incl. its subtotals>, axis) as the denominator", "a NaN-skipping total is fed to the NaN-propagating subtotal sums: subtotal of the totals instead of total of the subtotal")
        else:
            ctx.held("totals-last", where, "no NaN-skipping total is handed to the subtotal machinery", "")
    ctx.count("subtotal calls in the share-of-sum measures", n)


def signed_totals(ctx: Ctx):
    """A sum measure is over a SIGNED numeric variable: the total a share is divided by can be negative, and the share is
    then still sum / total (the shares still add to 1).  The only degenerate total is zero.  An ORDER comparison of a sum
    or of a total of sums with zero (`total <= 0`, `sums > 0`) - the habit from counts, which cannot be negative - treats
    a negative total as "nothing to apportion"."""
    from ..stmts import reachable_functions, resolver

    # positive control (the expected count on the correct tree is zero)
    ctl = ast.parse("def base_values(self):\n    sums = self._cube_measures.cube_sum.sums\n    total = np.nansum(sums)\n    if total <= 0:\n        return np.full(sums.shape, np.nan)\n    return sums / total\n").body[0]
    res_ = resolver(ctl, multi=True)
    seen_ctl = [c for c in ast.walk(ctl) if isinstance(c, ast.Compare) and isinstance(c.ops[0], ast.LtE) and any("sum" in u(v).lower() for v in res_(c.left))]
    if len(seen_ctl) != 1:
        from ..loader import AnalysisError

        raise AnalysisError("signed-total: the positive control is no longer recognised")
    n, hits = 0, []
    for short, cname in ((SM, "_ShareSum"), (MM, "_ColumnShareSum"), (MM, "_RowShareSum"), (MM, "_TotalShareSum")):
        ci = ctx.repo.cls(short, cname)
        fns = []
        for member in ("base_values", "subtotal_values", "blocks"):
            if ctx.repo.lookup(ci, member) is not None:
                fns += [f for f in reachable_functions(ctx.repo, ci, member) if f not in fns]
        for fn in fns:
            res = resolver(fn, multi=True)
            for c in ast.walk(fn):
                if not (isinstance(c, ast.Compare) and len(c.ops) == 1 and isinstance(c.ops[0], (ast.Lt, ast.LtE, ast.Gt, ast.GtE))):
                    continue
                n += 1
                sides = [c.left, c.comparators[0]]
                zero = [x for x in sides if isinstance(x, ast.Constant) and isinstance(x.value, (int, float)) and not isinstance(x.value, bool) and x.value == 0]
                other = [x for x in sides if x not in zero]
                if len(zero) == 1 and other and any("sum" in u(v).lower() for v in res(other[0])):
                    hits.append((f"{short}::{cname}.{getattr(fn, 'name', '?')}", u(c)))
    ctx.count("order comparisons in the share-of-sum code", n)
    for where, text in hits:
        ctx.violated("signed-total", where, text, "a total of sums is compared with zero by (in)equality only", "sums are signed: a negative total is a total, the shares are still sum / total and still add to 1")
    if not hits:
        ctx.held("signed-total", "share-of-sum classes (stripe and matrix)", f"{n} order comparison(s), none of a sum with zero", "")


def sign_destroying(e: ast.AST):
    """Calls inside `e` that discard the sign of their operand: clipping at zero (np.fmax / np.maximum / np.clip with a
    zero bound, np.where on an order comparison with zero) and absolute values."""
    def is_zero(x):
        return isinstance(x, ast.Constant) and isinstance(x.value, (int, float)) and not isinstance(x.value, bool) and x.value == 0

    out = []
    for n in ast.walk(e):
        if not isinstance(n, ast.Call):
            continue
        f = u(n.func)
        tail = f.split(".")[-1]
        args = list(n.args) + [k.value for k in n.keywords]
        if f in ("np.abs", "np.absolute", "np.fabs", "abs") or (tail in ("__abs__",) and not n.args):
            out.append(u(n)[:120])
        elif tail in ("fmax", "maximum", "clip") and any(is_zero(a) for a in args):
            out.append(u(n)[:120])
        elif tail == "where" and n.args and any(isinstance(c, ast.Compare) and len(c.ops) == 1 and isinstance(c.ops[0], (ast.Lt, ast.LtE, ast.Gt, ast.GtE)) and any(is_zero(x) for x in [c.left] + c.comparators) for c in ast.walk(n.args[0])):
            out.append(u(n)[:120])
    return out


def grid(ctx: Ctx, cname: str, axis):
    ci = ctx.repo.cls(MM, cname)
    kind, g, _ = matrix_templates(ctx.repo, ci)
    where0 = f"{MM}::{cname}.blocks"
    if kind != "grid":
        ctx.undecided("reduction-block", where0, f"not a grid ({kind})", "2x2 grid")
        return
    for i in (0, 1):
        for j in (0, 1):
            from ..symex import fold_consts

            e = fold_consts(g[i][j])  # a shared base class selected by a class constant (`_share_axis`), specialised per class
            where = f"{where0}[{i}][{j}]"
            ctx.count("share-of-sum block sites")
            # numerator / denominator structure: S[i][j] (maybe .T) / nansum(S[a][b], axis=k) (maybe .T)
            den_i, den_j = (0, j) if axis == 0 else ((i, 0) if axis == 1 else (0, 0))
            S = lambda a, b: f"{SUMS}[{a}][{b}]"
            if axis == 0:
                spec = f"{S(i, j)} / np.nansum({S(den_i, den_j)}, axis=0)"
                accepted = [spec]
            elif axis == 1:
                accepted = [
                    f"({S(i, j)}.T / np.nansum({S(den_i, den_j)}, axis=1)).T",
                    f"{S(i, j)} / np.nansum({S(den_i, den_j)}, axis=1)[:, None]",
                ]
            else:
                accepted = [f"{S(i, j)} / np.nansum({S(den_i, den_j)})"]
            ctx.check_expr(
                "reduction-block",
                where,
                e,
                accepted,
                "share = sum block at its own position / total over BASE rows/columns only (the block index along the reduced axis must be 0, the other index the numerator's)",
            )
            # the same clause on the block REFERENCES (whatever the spelling): find the division, compare which blocks
            # of the sums are referenced above and below the line
            div = next((n for n in ast.walk(e) if isinstance(n, ast.BinOp) and isinstance(n.op, ast.Div)), None)
            if div is None:
                ctx.undecided("reduction-block.refs", where, "no division found", f"S[{i}][{j}] / total of S[{den_i}][{den_j}]")
                continue
            num = sorted({(r.i, r.j) for r in block_refs(div.left)})
            den = sorted({(r.i, r.j) for r in block_refs(div.right)})
            if not num or not den:
                ctx.undecided("reduction-block.refs", where, f"numerator blocks {num}, denominator blocks {den}", f"S[{i}][{j}] / total of S[{den_i}][{den_j}]")
                continue
            clipped = sign_destroying(div.right)
            if clipped:
                ctx.violated("signed-total.denominator", where, clipped[0], "the total of the signed sums themselves (np.nansum of the block)",
                             "sums are signed: a total over clipped / absolute values is not the total of the row / column, the shares no longer add to 1")
            else:
                ctx.held("signed-total.denominator", where, "no sign-destroying operation under the division line", "")
            ok = num == [(i, j)] and den == [(den_i, den_j)]
            ctx.ob("reduction-block.refs", where, f"numerator S{num}, denominator total of S{den}", f"numerator S[({i}, {j})], denominator total of S[({den_i}, {den_j})]", ok,
                   "the total is taken over BASE rows / columns only, for the numerator's own rows / columns")


def stripe(ctx: Ctx):
    ci = ctx.repo.cls(SM, "_ShareSum")
    e = expand(ctx.repo, ci, "base_values")
    v, cnf, snf, _ = equal(e, "self._cube_measures.cube_sum.sums / np.nansum(self._cube_measures.cube_sum.sums)")
    ctx.ob("stripe-share", f"{SM}::_ShareSum.base_values", cnf, snf, v, "strand share = sum / total of base rows")
    clipped = sign_destroying(e)
    ctx.ob("signed-total.denominator", f"{SM}::_ShareSum.base_values", clipped[:1] or "no sign-destroying operation", "the total of the signed sums themselves", not clipped, "sums are signed")
    e = expand(ctx.repo, ci, "subtotal_values", stop=lambda m: m.name == "base_values")
    ctx.check_expr("stripe-share", f"{SM}::_ShareSum.subtotal_values", e, "SumSubtotals.subtotal_values(self.base_values, self._rows_dimension)", "share of a subtotal = signed sum of its addends' shares")


def public(ctx: Ctx):
    sl = ctx.repo.cls("cubepart.py", "_Slice")
    for prop in ("row_share_sum", "column_share_sum", "total_share_sum"):
        from ..symex import fold

        # private helper methods inlined (a shared `_assemble_share_sum(name)`), getattr with a literal name folded
        e = fold(expand(ctx.repo, sl, prop, stop=lambda m: m.kind in ("lazyproperty", "property") or m.name in ("_assemble_matrix", "_assemble_marginal", "_assemble_vector") or not m.name.startswith("_")))
        want = f"self._assemble_matrix(self._measures.{prop}.blocks)"
        text = u(e)
        other = [t for t in ("row_share_sum", "column_share_sum", "total_share_sum") if t != prop and f"self._assemble_matrix(self._measures.{t}.blocks)" in text]
        ok = True if want in text else (False if other else None)
        ctx.ob("public-wiring", f"cubepart.py::_Slice.{prop}", text[:120], want, ok)
    som = ctx.repo.cls(MM, "SecondOrderMeasures")
    for prop, c in (("row_share_sum", "_RowShareSum"), ("column_share_sum", "_ColumnShareSum"), ("total_share_sum", "_TotalShareSum")):
        e = expand(ctx.repo, som, prop, stop=lambda m: True)
        ctx.check_expr("public-wiring", f"{MM}::SecondOrderMeasures.{prop}", e, f"{c}(self._dimensions, self, self._cube_measures)")
