"""C14 - scale mean, median, standard deviation and error from category numeric values."""
from __future__ import annotations

import ast

from ..core import Ctx
from ..loader import AnalysisError
from ..normform import equal
from ..stmts import check_side_paths
from ..symex import SUMMARIZER, expand, strip_ifexp_paths, u, main_leaf, main_path, side_paths

MM = "matrix/measure.py"
SM = "stripe/measure.py"
SOM = "self._second_order_measures"


def run(ctx: Ctx):
    ctx.explanation = (
        "NORM: strand scale mean = sum(w v)/sum(w), variance = sum(w (v - mean)^2)/sum(w), std-err = sqrt(var/sum(w)), all "
        "over the numeric-valued mask; slice: weighted mean of the opposing dimension's numeric values by the proportions of "
        "the own direction, std-err = std-dev / sqrt(weighted margin of the same orientation) block-wise; orientation "
        "pairing (rows <-> column numeric values <-> row proportions <-> axis 1); definedness (None when no category has a "
        "numeric value); a statistic is tested with `is None`, never for truth (0.0 is a valid mean)."
    )
    ctx.not_decided = [
        "the median ALGORITHM (_weighted_median / scale_median) as a whole: only its two piecewise tests are decided (the 50% point is the first cumulative share >= 0.5; the tie branch is taken on EXACT equality with 0.5); the neighbour used on an exact tie (D5: a zero-count category next to the 50% point gave 1.5 instead of 2) is decided by the tie-neighbour rule and was repaired",
        "numeric agreement with respondent-level statistics",
    ]
    strand(ctx)
    slice_mean(ctx)
    slice_stderr(ctx)
    orientation(ctx)
    definedness(ctx)
    median_piecewise(ctx)
    from .common import no_shared_writes

    no_shared_writes(ctx, "no-shared-write")
    deviation_form(ctx)
    from .common import generic_lints

    generic_lints(ctx)
    from . import c05

    # "absent (None) when NO category has a numeric value": a test over the DISPLAYED categories' values turns the
    # statistic off when the numeric-valued categories are merely hidden or pruned
    c05.display_reductions(ctx, only=lambda where: "scale" in where.lower() or "numeric_value" in where.lower())
    from .common import dependency_footprints

    dependency_footprints(ctx)
    median_tie_neighbour(ctx)


def strand(ctx: Ctx):
    ci = ctx.repo.cls(SM, "_ScaledCounts")
    keep = lambda m: m.name in ("_weighted_counts", "_numeric_values", "scale_mean", "_total_weighted_count", "_scale_variance", "_total_scaled_count")
    e = expand(ctx.repo, ci, "_total_scaled_count", stop=keep)
    ctx.check_expr("strand-formulas", f"{SM}::_ScaledCounts._total_scaled_count", e, "np.sum(self._weighted_counts * self._numeric_values)", "sum of weight x value over numeric-valued rows")
    e = expand(ctx.repo, ci, "_total_weighted_count", stop=keep)
    ctx.check_expr("strand-formulas", f"{SM}::_ScaledCounts._total_weighted_count", e, "np.sum(self._weighted_counts)")
    e = expand(ctx.repo, ci, "scale_mean", stop=keep)
    paths = strip_ifexp_paths(e)
    leaf = main_leaf(e)
    v, cnf, snf, _ = equal(leaf, "self._total_scaled_count / self._total_weighted_count")
    ctx.ob("strand-formulas", f"{SM}::_ScaledCounts.scale_mean", cnf, snf, v, "mean = sum(w v)/sum(w)")
    check_side_paths(ctx, "strand-none", f"{SM}::_ScaledCounts.scale_mean", e, [("self._numeric_values.size == 0", "None"), ("self._total_weighted_count == 0", "None")], "None when no row has a numeric value or nobody was counted")
    e = expand(ctx.repo, ci, "_scale_variance", stop=keep)
    paths = strip_ifexp_paths(e)
    v, cnf, snf, _ = equal(main_leaf(e), "np.sum(self._weighted_counts * (self._numeric_values - self.scale_mean)**2) / self._total_weighted_count")
    ctx.ob("strand-formulas", f"{SM}::_ScaledCounts._scale_variance", cnf, snf, v, "population variance of the numeric values, weighted")
    _none_guards(ctx, ci, "_scale_variance", e)
    e = expand(ctx.repo, ci, "scale_stddev", stop=keep)
    v, cnf, snf, _ = equal(main_leaf(e), "sqrt(self._scale_variance)")
    ctx.ob("strand-formulas", f"{SM}::_ScaledCounts.scale_stddev", cnf, snf, v)
    _none_guards(ctx, ci, "scale_stddev", e)
    e = expand(ctx.repo, ci, "scale_stderr", stop=keep)
    v, cnf, snf, _ = equal(main_leaf(e), "sqrt(self._scale_variance / self._total_weighted_count)")
    ctx.ob("strand-formulas", f"{SM}::_ScaledCounts.scale_stderr", cnf, snf, v, "std-err = sqrt(variance / weighted count of numeric-valued respondents)")
    _none_guards(ctx, ci, "scale_stderr", e)
    # sibling cross-check: all four statistics are None for a strand WITHOUT numeric-valued respondents (not only for one
    # without numeric values): each must have a None path whose guard depends on the counts of the valued rows - directly
    # (`total weighted count == 0`, emptiness of the expanded values) or through the mean / variance being None
    sib = {}
    for stat in ("scale_mean", "scale_median", "scale_stddev", "scale_stderr"):
        full = expand(ctx.repo, ci, stat, stop=lambda m: m.name in ("_weighted_counts", "_numeric_values", "_has_numeric_value"))
        dep = False
        for gs, leaf in strip_ifexp_paths(full):
            if u(leaf) == "None" and any("self._weighted_counts" in u(g) for g, _p in gs):
                dep = True
        sib[stat] = dep
    for stat, dep in sib.items():
        others = [o for o, d in sib.items() if d and o != stat]
        ctx.ob("strand-none.siblings", f"{SM}::_ScaledCounts.{stat}", "None when the valued rows hold no respondent" if dep else "no None path depends on the counts of the valued rows",
               "None when the valued rows hold no respondent (as for " + ", ".join(others or ["the other statistics"]) + ")", True if dep else (False if len(others) >= 2 else None),
               "a strand whose respondents all sit in categories without a numeric value has no scale statistic: None, not NaN")
    e = expand(ctx.repo, ci, "_weighted_counts", stop=lambda m: m.name == "_has_numeric_value")
    ctx.check_expr("strand-mask", f"{SM}::_ScaledCounts._weighted_counts", e, "self._cube_measures.weighted_cube_counts.counts[self._has_numeric_value]", "respondents whose category has no numeric value are ignored")
    e = expand(ctx.repo, ci, "_numeric_values", stop=lambda m: m.name == "_has_numeric_value")
    ctx.check_expr("strand-mask", f"{SM}::_ScaledCounts._numeric_values", e, "np.array(self._rows_dimension.numeric_values)[self._has_numeric_value]")
    e = expand(ctx.repo, ci, "_has_numeric_value", stop=lambda m: True)
    ctx.check_expr("strand-mask", f"{SM}::_ScaledCounts._has_numeric_value", e, "~np.isnan(np.array(self._rows_dimension.numeric_values))")
    st = ctx.repo.cls("cubepart.py", "_Strand")
    for prop, inner in (("scale_mean", "scale_mean"), ("scale_std_dev", "scale_stddev"), ("scale_std_err", "scale_stderr"), ("scale_median", "scale_median")):
        e = expand(ctx.repo, st, prop, stop=lambda m: True)
        ctx.check_expr("public-wiring", f"cubepart.py::_Strand.{prop}", e, f"self._measures.scaled_counts.{inner}")


def _none_guards(ctx: Ctx, ci, member: str, e: ast.expr):
    """Guards on a statistic must be `is None` tests - a truth test treats a mean of exactly 0.0 as absent."""
    bad = []
    for gs, _l in strip_ifexp_paths(e):
        for g, _p in gs:
            for n in ast.walk(g):
                t = u(n)
                if isinstance(n, ast.UnaryOp) and isinstance(n.op, ast.Not) and u(n.operand) in ("self.scale_mean", "self._scale_variance", "self._total_weighted_count"):
                    bad.append(t)
            if u(g) in ("self.scale_mean", "self._scale_variance"):
                bad.append(u(g))
    where = f"{SM}::_ScaledCounts.{member} [guards]"
    if bad:
        ctx.violated("statistic-truthiness", where, bad, "`is None` tests", "a scale mean / variance of exactly 0.0 is a valid value and must not be treated as absent")
    else:
        ctx.held("statistic-truthiness", where, "statistics are tested with `is None` / size / == 0 on counts only", "no truth test on a statistic")


def slice_mean(ctx: Ctx):
    ci = ctx.repo.cls(MM, "_ScaleMean")
    m = ctx.repo.lookup(ci, "_weighted_mean")
    body = SUMMARIZER.summarize(m.node)
    NUM, DEN = "np.nansum(values * proportions)", "np.sum(proportions[~np.isnan(values)])"
    paths = strip_ifexp_paths(body)
    if len(paths) <= 1:
        v, cnf, snf, _ = equal(body, f"{NUM} / {DEN}")
        ctx.ob("slice-mean", f"{MM}::_ScaleMean._weighted_mean", cnf, snf, v, "weighted mean of the numeric values by the proportions, renormalised over numeric-valued categories")
    else:
        # path by path: the quotient, or - where the share of numeric-valued respondents is zero - NaN ("NaN for a vector
        # without numeric-valued respondents"); a NUMBER on that path is a violation
        for gs, leaf in paths:
            where = f"{MM}::_ScaleMean._weighted_mean [{' and '.join(('' if p else 'not ') + '(' + u(g)[:40] + ')' for g, p in gs) or 'always'}]"
            v, cnf, snf, _ = equal(leaf, f"{NUM} / {DEN}")
            if v:
                ctx.held("slice-mean", where, cnf, snf)
                continue
            zero_den = False
            for g, pol in gs:
                if pol and isinstance(g, ast.Compare) and len(g.ops) == 1 and isinstance(g.ops[0], (ast.Eq, ast.LtE)) and u(g.comparators[0]) in ("0", "0.0"):
                    if equal(g.left, DEN)[0]:
                        zero_den = True
                if (not pol) and not isinstance(g, ast.Compare) and equal(g, DEN)[0]:
                    zero_den = True  # `if not share:`
            if zero_den:
                is_nan = u(leaf) in ("np.nan", "float('nan')", "np.NaN", "math.nan")
                ctx.ob("slice-mean.no-valued-respondents", where, u(leaf)[:80], "np.nan", is_nan,
                       "a vector whose respondents all fall in categories without a numeric value has NO scale mean (NaN), not 0")
            else:
                ctx.undecided("slice-mean", where, cnf, snf)
    e = expand(ctx.repo, ci, "blocks", stop=lambda mm: mm.name in ("is_defined", "_proportions", "_opposing_numeric_values", "_apply_along_orientation"))
    leaf = main_leaf(e)
    ctx.check_expr("slice-mean", f"{MM}::_ScaleMean.blocks", leaf, "[self._apply_along_orientation(self._weighted_mean, proportion, values=self._opposing_numeric_values) for proportion in self._proportions]")
    e = expand(ctx.repo, ci, "_proportions")
    W, R, C = f"{SOM}.weighted_counts.blocks", f"{SOM}.row_weighted_bases.blocks", f"{SOM}.column_weighted_bases.blocks"
    ctx.check_expr(
        "slice-mean.proportions",
        f"{MM}::_ScaleMean._proportions",
        e,
        f"[{W}[0][0] / {R}[0][0], {W}[1][0] / {R}[1][0]] if self._orientation == MO.ROWS else [{W}[0][0] / {C}[0][0], {W}[0][1] / {C}[0][1]]",
        "rows scale mean from ROW proportions (base block + inserted rows), columns scale mean from COLUMN proportions (base block + inserted columns)",
    )
    ssd = ctx.repo.cls(MM, "_ScaleMeanStddev")
    e = expand(ctx.repo, ssd, "blocks", stop=lambda mm: mm.name in ("is_defined", "_stddev_func", "_counts", "_opposing_numeric_values", "_scale_means"))
    leaf = main_leaf(e)
    ctx.check_expr("slice-stddev", f"{MM}::_ScaleMeanStddev.blocks", leaf, "[self._stddev_func(count, self._opposing_numeric_values, scale_means) for count, scale_means in zip(self._counts, self._scale_means)]")
    for fn, ax in (("_rows_weighted_mean_stddev", 1), ("_columns_weighted_mean_stddev", 0)):
        m = ctx.repo.lookup(ssd, fn)
        where = f"{MM}::_ScaleMeanStddev.{fn}"
        if m is None:
            ctx.undecided("slice-stddev", where, "helper not found", "")
            continue
        val = SUMMARIZER.summarize(m.node)
        # (a) every reduction runs along the orientation's axis
        axes = [k.value for n in ast.walk(val) if isinstance(n, ast.Call) and u(n.func) in ("np.sum", "np.nansum", "np.mean", "np.nanmean") for k in n.keywords if k.arg == "axis"]
        axes += [n.args[1] for n in ast.walk(val) if isinstance(n, ast.Call) and u(n.func) in ("np.sum", "np.nansum") and len(n.args) > 1]
        consts = [a.value for a in axes if isinstance(a, ast.Constant)]
        if not consts or len(consts) != len(axes):
            ctx.undecided("slice-stddev.axis", where, [u(a) for a in axes], f"reductions along axis {ax}")
        else:
            ctx.ob("slice-stddev.axis", where, consts, f"every reduction along axis {ax}", all(c == ax for c in consts), f"the {'rows' if ax else 'columns'} statistic reduces along axis {ax}")
        # (b) counts are restricted to the numeric-valued categories on the OPPOSING axis
        masks = []
        for n in ast.walk(val):
            if isinstance(n, ast.Subscript) and u(n.value) == "counts" and isinstance(n.slice, ast.Tuple) and len(n.slice.elts) == 2:
                pos = [i for i, x in enumerate(n.slice.elts) if "isnan" in u(x)]
                full = [i for i, x in enumerate(n.slice.elts) if isinstance(x, ast.Slice) and x.lower is None and x.upper is None]
                if len(pos) == 1 and len(full) == 1:
                    masks.append(pos[0])
        if not masks:
            ctx.undecided("slice-stddev.mask", where, "no `counts[..mask..]` restriction recognised", f"numeric-valued mask on axis {ax}")
        else:
            ctx.ob("slice-stddev.mask", where, masks, f"numeric-valued mask on axis {ax} of the counts", all(p == ax for p in masks), "categories without a numeric value are ignored")
        # (c) population standard deviation: sqrt(sum(count * (v - mean)^2) / sum(count))
        formula = main_leaf(val)
        is_sqrt = (isinstance(formula, ast.Call) and u(formula.func) == "np.sqrt") or (isinstance(formula, ast.BinOp) and isinstance(formula.op, ast.Pow) and u(formula.right) == "0.5")
        inner = formula.args[0] if isinstance(formula, ast.Call) and formula.args else (formula.left if isinstance(formula, ast.BinOp) else None)
        is_ratio = isinstance(inner, ast.BinOp) and isinstance(inner.op, ast.Div) and "sum(" in u(inner.left) and "sum(" in u(inner.right)
        squared = inner is not None and ("** 2" in u(inner) or "pow(" in u(inner) or "np.square(" in u(inner))
        ctx.ob("slice-stddev", where, u(val)[:140], "sqrt(sum(count (v - mean)^2) / sum(count))", True if (is_sqrt and is_ratio and squared) else None, f"population standard deviation along axis {ax}, over numeric-valued categories")


def slice_stderr(ctx: Ctx):
    ci = ctx.repo.cls(MM, "_ScaleMeanStderr")
    e = expand(ctx.repo, ci, "blocks", stop=lambda mm: mm.name in ("is_defined", "_scale_mean_stddev", "_margin"))
    leaf = main_leaf(e)
    if isinstance(leaf, ast.List) and len(leaf.elts) == 2:
        for k in (0, 1):
            v, cnf, snf, _ = equal(leaf.elts[k], f"self._scale_mean_stddev.blocks[{k}] / sqrt(self._margin.blocks[{k}])")
            ctx.ob("slice-stderr", f"{MM}::_ScaleMeanStderr.blocks[{k}]", cnf, snf, v, "std-err = std-dev / sqrt(weighted margin), block-wise")
    else:
        ctx.undecided("slice-stderr", f"{MM}::_ScaleMeanStderr.blocks", u(leaf)[:100], "two blocks")
    e = expand(ctx.repo, ci, "_margin")
    ctx.check_expr("slice-stderr.pairing", f"{MM}::_ScaleMeanStderr._margin", e, f"{SOM}.rows_weighted_base if self._orientation == MO.ROWS else {SOM}.columns_weighted_base", "the weighted margin of the SAME orientation")
    e = expand(ctx.repo, ci, "_scale_mean_stddev")
    ctx.check_expr("slice-stderr.pairing", f"{MM}::_ScaleMeanStderr._scale_mean_stddev", e, f"{SOM}.rows_scale_mean_stddev if self._orientation == MO.ROWS else {SOM}.columns_scale_mean_stddev")
    e = expand(ctx.repo, ci, "is_defined", stop=lambda mm: mm.name in ("_scale_mean_stddev", "_margin"))
    ctx.check_expr("slice-stderr.pairing", f"{MM}::_ScaleMeanStderr.is_defined", e, "self._scale_mean_stddev.is_defined and self._margin.is_defined")


def orientation(ctx: Ctx):
    ci = ctx.repo.cls(MM, "_BaseScaledCountMarginal")
    e = expand(ctx.repo, ci, "_opposing_numeric_values")
    ctx.check_expr(
        "orientation",
        f"{MM}::_BaseScaledCountMarginal._opposing_numeric_values",
        e,
        "np.array(self._dimensions[1].numeric_values, dtype=np.float64) if self._orientation == MO.ROWS else np.array(self._dimensions[0].numeric_values, dtype=np.float64)",
        "a ROWS marginal (one value per row) uses the numeric values of the COLUMNS dimension",
    )
    bm = ctx.repo.cls(MM, "_BaseMarginal")
    e = expand(ctx.repo, bm, "_counts")
    ctx.check_expr(
        "orientation",
        f"{MM}::_BaseMarginal._counts",
        e,
        f"[{SOM}.column_comparable_counts.blocks[0][0], {SOM}.column_comparable_counts.blocks[1][0]] if self._orientation == MO.ROWS else "
        f"[{SOM}.row_comparable_counts.blocks[0][0], {SOM}.row_comparable_counts.blocks[0][1]]",
        "ROWS: base block + inserted rows of the counts comparable along the columns; COLUMNS: mirror",
    )
    e = expand(ctx.repo, bm, "orientation")
    ctx.check_expr("orientation", f"{MM}::_BaseMarginal.orientation", e, "self._orientation")
    el = ctx.repo.cls("dimension.py", "Element")
    e = expand(ctx.repo, el, "numeric_value", stop=lambda mm: True)
    ctx.check_expr("numeric-values", "dimension.py::Element.numeric_value", e, "np.nan if self._element_dict.get('numeric_value') is None else self._element_dict.get('numeric_value')", "a category without numeric value is NaN (ignored)")
    dim = ctx.repo.cls("dimension.py", "Dimension")
    e = expand(ctx.repo, dim, "numeric_values", stop=lambda mm: True)
    ctx.check_expr("numeric-values", "dimension.py::Dimension.numeric_values", e, "tuple((element.numeric_value for element in self.valid_elements))")
    # whatever the spelling: the numeric values are those the response gives the categories - for EVERY dimension type whose
    # elements are categories (a categorical-date dimension is a categorical one whose categories also carry a date).  A
    # type guard that answers "no numeric values" for such a type switches the scale statistics off although valued
    # respondents exist.  Decision table over DIMENSION_TYPE of the type guards in front of a NaN-only result.
    from ..dectab import DTop, Raises
    from ..typetab import dt_members, eval_over_types

    full = expand(ctx.repo, dim, "numeric_values", stop=lambda mm: not (bool({n.attr for n in ast.walk(mm.node) if isinstance(n, ast.Attribute) and isinstance(n.value, ast.Name) and n.value.id == "self"}) and {n.attr for n in ast.walk(mm.node) if isinstance(n, ast.Attribute) and isinstance(n.value, ast.Name) and n.value.id == "self"} <= {"dimension_type"}))
    where = "dimension.py::Dimension.numeric_values [by dimension type]"
    categorical = ("CAT", "CA_CAT", "CAT_DATE", "LOGICAL", "MR_CAT")
    forced = []
    for guards, leaf in strip_ifexp_paths(full):
        if not guards or not all("dimension_type" in u(t) for t, _p in guards):
            continue
        reads_values = any(isinstance(n, ast.Attribute) and n.attr in ("numeric_value", "numeric_values") for n in ast.walk(leaf))
        if not reads_values and "nan" in u(leaf).lower():
            forced.append(guards)
    if not forced:
        ctx.held("numeric-values.types", where, "no type guard stands in front of the categories' numeric values", "the values the response gives the categories, for every categorical type")
    else:
        bad = []
        try:
            for mem in dt_members(ctx.repo):
                hit = any(all(bool(eval_over_types(ctx.repo, dim.module, t, {"self.dimension_type": mem})) == pol for t, pol in gs) for gs in forced)
                if hit and mem in categorical:
                    bad.append(mem)
            ctx.ob("numeric-values.types", where, [f"{b}: all NaN whatever the response says" for b in bad] or "NaN-only for types without categories only", "the categories' own numeric values for CAT, CA_CAT, CAT_DATE, LOGICAL, MR_CAT", not bad,
                   "the scale mean / median / std-dev of a table whose scale dimension is of that type is None although numeric-valued respondents exist")
        except (DTop, Raises, KeyError) as exc:
            ctx.undecided("numeric-values.types", where, f"DECTAB: {exc}", "table over DIMENSION_TYPE")


def definedness(ctx: Ctx):
    for cname in ("_ScaleMean", "_ScaleMedian", "_ScaleMeanStddev"):
        ci = ctx.repo.cls(MM, cname)
        e = expand(ctx.repo, ci, "is_defined", stop=lambda mm: mm.name == "_opposing_numeric_values")
        ctx.check_expr("definedness", f"{MM}::{cname}.is_defined", e, "not np.all(np.isnan(self._opposing_numeric_values))", "absent (None) when no category of the opposing dimension has a numeric value")
    numeric_value_truthiness(ctx)
    sl = ctx.repo.cls("cubepart.py", "_Slice")
    for o in ("rows", "columns"):
        for stat in ("scale_mean", "scale_median", "scale_mean_stddev", "scale_mean_stderr"):
            e = expand(ctx.repo, sl, f"{o}_{stat}", stop=lambda mm: True)
            ctx.check_expr("public-wiring", f"cubepart.py::_Slice.{o}_{stat}", e, f"self._assemble_marginal(self._measures.{o}_{stat})")
            ctx.count("scale marginal wirings")
    ctx.require_min("scale marginal wirings", 8)


# --------------------------------------------------------------------------- the two tests of the median rule
def median_piecewise(ctx: Ctx):
    """`strictly more than half` vs `exactly half` is the whole content of the cumulative-count median.  The two
    tests are compared token-wise; an approximate tie test (isclose / tolerance) turns `just over half` into a tie."""
    ci = ctx.repo.cls(MM, "_ScaleMedian")
    m = ctx.repo.lookup(ci, "_weighted_median")
    if m is None:
        from ..loader import AnalysisError

        raise AnalysisError("_ScaleMedian._weighted_median vanished")
    where = f"{MM}::_ScaleMedian._weighted_median"
    locate = [n.value for n in ast.walk(m.node) if isinstance(n, ast.Assign) and u(n.targets[0]) == "median_idx"]
    if len(locate) == 1:
        ctx.check_expr("median.half-point", where + " [median_idx]", locate[0], ["np.argmax(cumulative_prop >= 0.5)", "np.argmax(cumulative_counts >= cumulative_counts[-1] / 2)", "np.searchsorted(cumulative_prop, 0.5)"], "first value whose cumulative share reaches one half")
    else:
        ctx.undecided("median.half-point", where + " [median_idx]", "the half-point is not located by a single assignment", "np.argmax(cumulative_prop >= 0.5)")
    # the TIE branch (the one that averages two neighbouring values) is taken iff exactly half are at or below
    from ..stmts import match_any

    body = SUMMARIZER.summarize(m.node)
    n_ties = 0
    for gs, leaf in strip_ifexp_paths(body):
        lt = u(leaf)
        if "+ 1" not in lt or "mean" not in lt:
            continue
        n_ties += 1
        held = []
        for g, pol in gs:
            if pol:
                held += g.values if isinstance(g, ast.BoolOp) and isinstance(g.op, ast.And) else [g]
            else:
                parts = g.values if isinstance(g, ast.BoolOp) and isinstance(g.op, ast.Or) else [g]
                held += [ast.UnaryOp(op=ast.Not(), operand=p) for p in parts]
        tol = [u(c.func) for h in held for c in ast.walk(h) if isinstance(c, ast.Call) and u(c.func).split(".")[-1] in ("isclose", "allclose", "approx")]
        if tol:
            ctx.violated("median.tie-test", where + " [tie branch]", [u(h)[:70] for h in held], "cumulative share == 0.5 exactly",
                         "approximate tie test: a vector in which just over half the respondents are at or below the value reports the mean of two values")
            continue
        from ..exprdiff import canon

        ok, why = None, "no comparison of the cumulative share with one half found on the tie path"
        for h in held:
            h = canon(h)
            if isinstance(h, ast.Compare) and len(h.ops) == 1:
                sides = [h.left, h.comparators[0]]
                half = [x for x in sides if isinstance(x, ast.Constant) and x.value == 0.5]
                other = [x for x in sides if not (isinstance(x, ast.Constant) and x.value == 0.5)]
                if half and other and "cumsum" in u(other[0]):
                    if isinstance(h.ops[0], ast.Eq):
                        ok, why = True, ""
                    else:
                        ok, why = False, f"the tie branch is taken on `{type(h.ops[0]).__name__}` 0.5, not on equality"
                    break
                # 2 * cum[idx] == cum[-1]
                if isinstance(h.ops[0], ast.Eq) and "cumsum" in u(h.left) and "cumsum" in u(h.comparators[0]) and ("2 *" in u(h) or "* 2" in u(h)):
                    ok, why = True, ""
                    break
        ctx.ob("median.tie-test", where + " [tie branch]", [u(h)[:90] for h in held][-1:], "cumulative share at the half-point == 0.5 (exactly)", ok, why or "the mean of two neighbouring values is reported only when EXACTLY half are at or below the lower one")
    ctx.count("median tie tests", n_ties)
    ctx.require_min("median tie tests", 1)


# --------------------------------------------------------------------------- variance from deviations, not from raw squares
_DEV_CONTROL = """
def bad(counts, values, scale_mean):
    return (counts @ pow(values, 2) - 2 * scale_mean * (counts @ values) + pow(scale_mean, 2) * np.sum(counts, axis=1)) / np.sum(counts, axis=1)

def good(counts, values, scale_mean):
    return np.nansum(counts * pow(values - scale_mean.reshape(-1, 1), 2), axis=1) / np.sum(counts, axis=1)
"""


def _raw_squares(fn: ast.AST, mean_names=("scale_mean", "mean", "scale_means")):
    from ..stmts import resolver

    res = resolver(fn, multi=True)
    """Squares whose operand is NOT a deviation from the mean: `values ** 2`, `pow(values, 2)`, `np.square(values)`.
    The square of the mean itself (`pow(scale_mean, 2)`) is the companion term of the same expanded form."""
    out = []
    for n in ast.walk(fn):
        operand = None
        if isinstance(n, ast.BinOp) and isinstance(n.op, ast.Pow) and isinstance(n.right, ast.Constant) and n.right.value == 2:
            operand = n.left
        elif isinstance(n, ast.Call) and u(n.func) in ("pow", "np.power") and len(n.args) == 2 and isinstance(n.args[1], ast.Constant) and n.args[1].value == 2:
            operand = n.args[0]
        elif isinstance(n, ast.Call) and u(n.func) == "np.square" and n.args:
            operand = n.args[0]
        if operand is None:
            continue
        # locals substituted: `deviations = v - mean; deviations ** 2` squares a deviation
        variants = res(operand)
        has_sub = any(isinstance(x, ast.BinOp) and isinstance(x.op, ast.Sub) for v in variants for x in ast.walk(v))
        if not has_sub:
            out.append(u(n)[:60])
    return out


def deviation_form(ctx: Ctx):
    """"Population standard deviation of the respondents' values" for ANY numeric values (date codes, amounts): the
    variance must be accumulated from DEVIATIONS, sum(c (v - mean)^2).  The algebraically equal expanded form
    sum(c v^2) - 2 mean sum(c v) + mean^2 sum(c) subtracts quantities of size N v^2 and cancels catastrophically when
    the values are large against their spread (NORM cannot tell the two apart: it works over exact rationals)."""
    tree = ast.parse(_DEV_CONTROL)
    if [len(_raw_squares(f)) for f in tree.body] != [2, 0]:
        raise AnalysisError("deviation-form lint: the positive control is no longer recognised")
    from ..stmts import reachable_functions

    n = 0
    for short, cname, members in ((MM, "_ScaleMeanStddev", ("_rows_weighted_mean_stddev", "_columns_weighted_mean_stddev")), (SM, "_ScaledCounts", ("_scale_variance",))):
        ci = ctx.repo.cls(short, cname)
        for member in members:
            for fn in reachable_functions(ctx.repo, ci, member):
                n += 1
                raw = _raw_squares(fn)
                where = f"{short}::{cname}.{fn.name}"
                if raw:
                    ctx.violated("deviation-form", where, raw, "squares of deviations (v - mean)", "expanded-square variance: catastrophic cancellation for numeric values that are large against their spread")
                else:
                    ctx.held("deviation-form", where, "every squared quantity is a deviation from the mean", "")
    ctx.count("variance helpers scanned", n)


def median_tie_neighbour(ctx: Ctx):
    """When exactly half the respondents are at or below value v_k the median is the mean of v_k and the NEXT value that
    HAS respondents.  Averaging with the next category in value order (index k + 1) is wrong whenever that category is
    empty (count 0) - the defect the property statement itself points at.  Every occurrence of the pattern
    `values[[k, k + 1]]` / `values[k] .. values[k + 1]` in median code is reported; the one that stood in
    _ScaleMedian._weighted_median (D5) was repaired."""
    from ..scope import in_scope

    n, hits = 0, []
    for m in ctx.repo.all_members():
        short = m.cls.module.path.split("cr/cube/")[-1]
        if "median" not in m.name.lower() and "median" not in m.cls.name.lower():
            continue
        n += 1
        for x in ast.walk(m.node):
            if isinstance(x, ast.Subscript):
                parts = x.slice.elts if isinstance(x.slice, (ast.List, ast.Tuple)) else [x.slice]
                for p in parts:
                    if isinstance(p, ast.BinOp) and isinstance(p.op, ast.Add) and isinstance(p.right, ast.Constant) and p.right.value == 1 and "idx" in u(p.left):
                        hits.append((f"{short}::{m.cls.name}.{m.name} [neighbour {u(p)}]", u(x)[:70]))
    ctx.count("median functions scanned", n)
    ctx.require_min("median functions scanned", 3)
    seen = set()
    for where, text in hits:
        if where in seen:
            continue
        seen.add(where)
        ctx.violated("median.tie-neighbour", where, text, "the next value that has respondents", "the neighbour in VALUE order may be an empty category: the reported median lies between two values although no respondent has the upper one")
    if not hits:
        ctx.held("median.tie-neighbour", "median code", "no tie average with the next category in value order", "")


def _is_boolean_valued(e: ast.AST) -> bool:
    """isnan / isfinite / comparisons / ~ / & / | of such: an array of truth values, not of numeric values"""
    if isinstance(e, ast.Compare):
        return True
    if isinstance(e, ast.UnaryOp) and isinstance(e.op, (ast.Invert, ast.Not)):
        return _is_boolean_valued(e.operand) or isinstance(e.op, ast.Not)
    if isinstance(e, ast.BinOp) and isinstance(e.op, (ast.BitAnd, ast.BitOr, ast.BitXor)):
        return _is_boolean_valued(e.left) and _is_boolean_valued(e.right)
    if isinstance(e, ast.BoolOp):
        return True
    if isinstance(e, ast.Call) and u(e.func) in ("np.isnan", "np.isfinite", "np.isinf", "np.logical_not", "np.logical_and", "np.logical_or", "np.isin", "np.in1d", "isinstance"):
        return True
    return False


def numeric_value_truthiness(ctx: Ctx):
    """A category's numeric value may be 0.  `np.any(values)` / `any(values)` / `np.count_nonzero(values)` / `bool(...)` over
    the numeric VALUES (instead of over `~np.isnan(values)`) asks whether some value is non-zero, not whether some category
    HAS a value: a scale coded 0 / null reads as undefined and every marginal is None."""
    from ..stmts import reachable_functions, resolver

    ctl = ast.parse("def is_defined(self):\n    values = self._opposing_numeric_values\n    return bool(np.any(values[~np.isnan(values)]))\ndef ok(self):\n    return not np.all(np.isnan(self._opposing_numeric_values))\n")

    def hits_in(fn):
        res = resolver(fn, multi=True)
        out = []
        for c in ast.walk(fn):
            if isinstance(c, ast.Call) and u(c.func) in ("np.any", "any", "np.all", "all", "np.count_nonzero") and c.args:
                for v in res(c.args[0]):
                    if not _is_boolean_valued(v) and "numeric_value" in u(v) and not isinstance(v, (ast.GeneratorExp, ast.ListComp)):
                        out.append(u(c)[:90])
                        break
        return out

    if len(hits_in(ctl.body[0])) != 1 or hits_in(ctl.body[1]):
        from ..loader import AnalysisError

        raise AnalysisError("numeric-value truthiness: the controls are no longer recognised")
    n, hits = 0, []
    for short, names in ((MM, ("_BaseScaledCountMarginal", "_ScaleMean", "_ScaleMedian", "_ScaleMeanStddev", "_ScaleMeanStderr")), ("stripe/measure.py", ("_ScaledCounts",)), ("cubepart.py", ("_Slice", "_Strand"))):
        for cname in names:
            ci = ctx.repo.opt_cls(short, cname)
            if ci is None:
                continue
            for m in ci.members.values():
                if short == "cubepart.py" and "numeric" not in m.name and "scale" not in m.name:
                    continue
                n += 1
                for t in hits_in(m.node):
                    hits.append((f"{short}::{cname}.{m.name}", t))
    ctx.count("scale-statistic members scanned for value truthiness", n)
    ctx.require_min("scale-statistic members scanned for value truthiness", 20)
    for where, t in hits:
        ctx.violated("definedness.value-truthiness", where, t, "a test of WHICH categories have a value (`~np.isnan(values)`)", "a numeric value of 0 is a value: absent (None) only when no category has a numeric value")
    if not hits:
        ctx.held("definedness.value-truthiness", "scale-statistic classes", f"{n} members, no truth test of the numeric values themselves", "", "controls recognised")
