"""C08 - sort-by-value ordering is monotone in the requested measure."""
from __future__ import annotations

import ast
from typing import Dict, List, Optional, Tuple

from ..core import Ctx
from ..loader import AnalysisError
from ..symex import SUMMARIZER, expand, strip_ifexp_paths, u, main_leaf, main_path, side_paths

MA = "matrix/assembler.py"
SA = "stripe/assembler.py"
COL = "collator.py"

# keyword -> public _Slice property the user sees for that keyword (written from the export keynames)
PUBLIC_BY_KEYWORD = {
    "col_base_unweighted": "column_unweighted_bases", "col_base_weighted": "column_weighted_bases", "col_index": "column_index",
    "col_percent": "column_percentages", "col_percent_moe": "column_proportions_moe", "col_share_sum": "column_share_sum",
    "col_std_dev": "column_std_dev", "col_std_err": "column_std_err", "mean": "means", "population": "population_counts",
    "population_moe": "population_counts_moe", "p_value": "pvals", "row_base_unweighted": "row_unweighted_bases",
    "row_base_weighted": "row_weighted_bases", "row_percent": "row_percentages", "row_percent_moe": "row_proportions_moe",
    "row_share_sum": "row_share_sum", "row_std_dev": "row_std_dev", "row_std_err": "row_std_err", "stddev": "stddev", "sum": "sums",
    "table_base_unweighted": "table_unweighted_bases", "table_base_weighted": "table_weighted_bases", "table_percent": "table_percentages",
    "table_percent_moe": "table_proportions_moe", "table_std_dev": "table_std_dev", "table_std_err": "table_std_err",
    "total_share_sum": "total_share_sum", "count_unweighted": "unweighted_counts", "valid_count_unweighted": "unweighted_counts",
    "count_weighted": "counts", "valid_count_weighted": "counts", "z_score": "zscores",
}
UNSUPPORTED = {"median", "pairwise_t_test", "smoothed_mean", "smoothed_col_percent", "smoothed_col_index"}
STRIPE_PUBLIC = {
    "base_unweighted": "unweighted_bases", "base_weighted": "weighted_bases", "count_unweighted": "unweighted_counts",
    "count_weighted": "weighted_counts", "mean": "means", "percent": "table_percentages", "percent_moe": "table_proportion_moes",
    "percent_stddev": "table_proportion_stddevs", "percent_stderr": "table_proportion_stderrs", "population": "population_counts",
    "population_moe": "population_counts_moe", "share_sum": "share_sum", "sum": "sums",
}
MARGINAL_PUBLIC = {
    "unweighted_base": "rows_base", "weighted_base": "rows_margin", "table_proportion": "rows_margin_proportion", "scale_mean": "rows_scale_mean",
    "scale_mean_stddev": "rows_scale_mean_stddev", "scale_mean_stderr": "rows_scale_mean_stderr", "scale_median": "rows_scale_median",
}


def run(ctx: Ctx):
    ctx.explanation = (
        "The keyword -> measure tables (matrix, marginal, stripe) are total over the keyword enumerations and every "
        "entry names the measure object from which the PUBLIC property of that keyword derives by a listed monotone "
        "map (identity, x positive constant, sqrt, x population x fraction); value positions read by each sort helper "
        "(which block, which axis); the three helpers fall back to the payload-order collator on ValueError with the "
        "same dimension / empties / format; exceptions raised in the measure layer are ValueError; collator: NaN bucket "
        "after the sorted keys, direction, group order."
    )
    ctx.not_decided = ["monotonicity on concrete data and the order among ties"]
    measure_table(ctx)
    marginal_table(ctx)
    stripe_table(ctx)
    positions(ctx)
    fallbacks(ctx)
    exceptions(ctx)
    collator(ctx)
    accidental_fallback(ctx)
    sort_key_exact(ctx)
    from .common import generic_lints

    generic_lints(ctx)
    from .common import shim_leaves_transforms_alone

    shim_leaves_transforms_alone(ctx)
    from .common import id_truthiness

    id_truthiness(ctx)
    from . import c19

    # fixed top / bottom references of an array dimension reach the collator only after the shim rewrote them
    c19.slot_independence(ctx, "fixed-lists.translated")
    helper_dispatch(ctx)


def _dict_in(fn: ast.FunctionDef, name: Optional[str] = None) -> Optional[ast.Dict]:
    best = None
    for n in ast.walk(fn):
        if isinstance(n, ast.Dict) and len(n.keys) >= 5:
            if best is None or len(n.keys) > len(best.keys):
                best = n
    return best


def _enum_values(ctx: Ctx, enum_name: str) -> Dict[str, str]:
    ci = ctx.repo.cls("enums.py", enum_name)
    out = {}
    for k, v in ci.consts.items():
        if isinstance(v, ast.Constant) and isinstance(v.value, str):
            out[k] = v.value
    return out


def public_root(ctx: Ctx, ci, prop: str, depth: int = 0) -> Tuple[Optional[str], List[str]]:
    """(measure name under self._measures, list of maps) from which public property `prop` derives."""
    m = ctx.repo.lookup(ci, prop)
    if m is None or depth > 4:
        return None, ["?"]
    e = SUMMARIZER.summarize(m.node)
    return _root_of(ctx, ci, e, depth)


def _root_of(ctx, ci, e: ast.expr, depth) -> Tuple[Optional[str], List[str]]:
    t = u(e)
    if isinstance(e, ast.Call) and u(e.func) == "__try__":
        return _root_of(ctx, ci, e.args[0], depth)
    if isinstance(e, ast.Call) and u(e.func) == "__mutated__":
        r, maps = _root_of(ctx, ci, e.args[0], depth)
        return r, maps + ["masked-overwrite"]
    if isinstance(e, ast.IfExp):
        # e.g. population_proportions: both branches wrap the same assembled measure
        r1, m1 = _root_of(ctx, ci, e.body, depth)
        r2, m2 = _root_of(ctx, ci, e.orelse, depth)
        if r1 == r2:
            return r1, sorted(set(m1 + m2), key=(m1 + m2).index)
        return None, ["?branches"]
    if isinstance(e, ast.Call) and u(e.func) in ("self._assemble_matrix", "self._assemble_vector") and len(e.args) == 1:
        a = u(e.args[0])
        if a.startswith("self._measures.") and a.endswith(".blocks"):
            return a[len("self._measures."):-len(".blocks")], []
        return None, ["?arg"]
    if isinstance(e, ast.Call) and u(e.func) == "np.sqrt" and len(e.args) == 1 and not e.keywords:
        r, maps = _root_of(ctx, ci, e.args[0], depth)
        return r, maps + ["sqrt"]
    if isinstance(e, ast.Attribute) and isinstance(e.value, ast.Name) and e.value.id == "self":
        return public_root(ctx, ci, e.attr, depth + 1)
    if isinstance(e, ast.Call) and isinstance(e.func, ast.Attribute) and isinstance(e.func.value, ast.Name) and e.func.value.id in ("self", "cls") and e.func.attr.startswith("_") and depth <= 4:
        # a private helper method applied to the value (`self._without_subtotal_differences(x)`): its summary with the
        # arguments bound is analysed in its place
        hm = ctx.repo.lookup(ci, e.func.attr)
        if hm is not None and hm.kind in ("method", "staticmethod", "classmethod") and not e.keywords:
            params = [p_ for p_ in hm.params if p_ not in ("self", "cls")]
            if len(params) >= len(e.args):
                try:
                    from ..symex import distribute_attr, fold_consts

                    # literal flags decide the helper's branches (`smoothed=False`)
                    body = fold_consts(distribute_attr(SUMMARIZER.summarize(hm.node, dict(zip(params, e.args)))))
                except Exception:
                    body = None
                if body is not None:
                    return _root_of(ctx, ci, body, depth + 1)
    if isinstance(e, ast.BinOp) and isinstance(e.op, ast.Mult):
        parts = _flatten_mult(e)
        roots = []
        consts = []
        for p in parts:
            pt = u(p)
            if pt in ("Z_975", "100") or (isinstance(p, ast.Constant) and isinstance(p.value, (int, float)) and p.value > 0):
                consts.append("×" + pt)
            elif pt in ("self._population", "self._cube.population_fraction"):
                consts.append("×" + pt.split(".")[-1])
            else:
                roots.append(p)
        if len(roots) == 1:
            r, maps = _root_of(ctx, ci, roots[0], depth)
            return r, maps + consts
        return None, ["?product"]
    return None, ["?" + t[:40]]


def _flatten_mult(e):
    if isinstance(e, ast.BinOp) and isinstance(e.op, ast.Mult):
        return _flatten_mult(e.left) + _flatten_mult(e.right)
    return [e]


MONOTONE = {"sqrt", "×Z_975", "×100", "×_population", "×population_fraction"}


def measure_table(ctx: Ctx):
    ci = ctx.repo.cls(MA, "_BaseOrderHelper")
    m = ctx.repo.lookup(ci, "_measure")
    d = _dict_in(m.node)
    where = f"{MA}::_BaseOrderHelper._measure"
    if d is None:
        ctx.undecided("measure-table", where, "keyword table not found", "dict MEASURE -> property name")
        return
    enum = _enum_values(ctx, "MEASURE")  # member -> keyword
    table: Dict[str, str] = {}
    for k, v in zip(d.keys, d.values):
        member = u(k).split(".")[-1]
        if member in enum and isinstance(v, ast.Constant):
            table[enum[member]] = v.value
    som = ctx.repo.cls("matrix/measure.py", "SecondOrderMeasures")
    sl = ctx.repo.cls("cubepart.py", "_Slice")
    for member, kw in sorted(enum.items(), key=lambda x: x[1]):
        w = f"{where}[{kw}]"
        ctx.count("measure keywords")
        if kw not in table:
            ctx.ob("measure-table.total", w, "absent (raises)", "listed unsupported keyword" if kw in UNSUPPORTED else "a measure", kw in UNSUPPORTED, "every keyword is either sortable or refused - never silently mis-sorted")
            continue
        prop = table[kw]
        if ctx.repo.lookup(som, prop) is None:
            ctx.violated("measure-table", w, f"SecondOrderMeasures has no `{prop}`", "an existing measure")
            continue
        public = PUBLIC_BY_KEYWORD.get(kw)
        if public is None:
            ctx.undecided("measure-table", w, "no public property specified for this keyword", "")
            continue
        root, maps = public_root(ctx, sl, public)
        bad_maps = [x for x in maps if x not in MONOTONE]
        if root is None:
            ctx.undecided("measure-table", w, f"public _Slice.{public}: {maps}", f"derives from measure `{prop}`")
        elif root != prop:
            ctx.violated("measure-table", w, f"sort surrogate `{prop}`; public _Slice.{public} derives from `{root}` via {maps}", f"surrogate == the measure the public property derives from", "rows would be ordered by another measure than the one the user sees")
        elif bad_maps:
            ctx.violated("measure-table.monotone", w, f"public _Slice.{public} = {maps} of `{root}`", "identity, x positive constant, sqrt, x population x fraction", "the public measure is not a monotone map of the sort surrogate (a masked overwrite changes values the surrogate still sorts by)")
        else:
            ctx.held("measure-table", w, f"_Slice.{public} = {maps or ['identity']} of measure `{root}`", f"surrogate `{prop}` up to a monotone map")
    ctx.require_min("measure keywords", 38)
    # the failure mode for an unsupported keyword
    raises = [u(n.exc.func) for n in ast.walk(m.node) if isinstance(n, ast.Raise) and isinstance(n.exc, ast.Call)]
    ctx.note(f"sibling note: matrix raises {raises} for an unsupported measure keyword, the stripe helper raises ValueError (falls back); reported, not a violation of the stated property")
    e = expand(ctx.repo, ci, "_measure", stop=lambda mm: True)
    leaf = main_leaf(e)
    ok = isinstance(leaf, ast.Call) and u(leaf.func) == "getattr" and u(leaf.args[0]) == "self._second_order_measures"
    ctx.ob("measure-table.lookup", where, u(leaf)[:80], "getattr(self._second_order_measures, <table[measure]>)", ok)
    os_ = ctx.repo.cls("dimension.py", "_OrderSpec")
    e = expand(ctx.repo, os_, "measure", stop=lambda mm: True)
    ctx.check_expr("measure-table.lookup", "dimension.py::_OrderSpec.measure", e, "MEASURE(self.measure_keyname)")


def helper_dispatch(ctx: Ctx):
    """Which order helper sorts the rows / columns: a decision table (DECTAB) over every collation method x every type of the
    OPPOSING dimension x (opposing dimension has subtotals or not).  `opposing_insertion` on the rows means a DERIVED column
    (an inserted item of an array dimension) exactly when the columns dimension is an array type - not when it merely has
    no subtotal: a stale insertion id on a categorical dimension must fail to resolve and fall back to payload order."""
    from ..dectab import DTop, ModelInterp, Raises
    from ..typetab import dt_members, dt_value

    ci = ctx.repo.cls(MA, "_BaseOrderHelper")
    cms = sorted(k for k in ctx.repo.cls("enums.py", "COLLATION_METHOD").consts)
    arrays = dt_value(ctx.repo, "ARRAY_TYPES")
    for meth, own, opp in (("row_display_order", 0, 1), ("column_display_order", 1, 0)):
        m = ctx.repo.lookup(ci, meth)
        where = f"{MA}::_BaseOrderHelper.{meth} [dispatch]"
        body = SUMMARIZER.summarize(m.node, {"dimensions": ast.Name(id="dimensions", ctx=ast.Load())})
        target = None
        for n in ast.walk(body):
            if isinstance(n, ast.Attribute) and n.attr == "_display_order" and isinstance(n.value, ast.Call):
                target = n.value.func
        if target is None:
            ctx.undecided("helper-dispatch", where, "HelperCls(...)._display_order not found", "")
            continue
        bad, n_rows, undec = [], 0, None
        for cm in cms:
            for dt in dt_members(ctx.repo):
                for subs in ((), ("s",)):
                    dims = [None, None]
                    dims[own] = {".order_spec": {".collation_method": "CM." + cm}, ".dimension_type": "CAT", ".subtotals": ()}
                    dims[opp] = {".order_spec": {".collation_method": "CM.PAYLOAD_ORDER"}, ".dimension_type": dt, ".subtotals": subs}

                    def atoms(x, dims=dims):
                        if isinstance(x, ast.Name) and x.id == "dimensions":
                            return tuple(dims)
                        if isinstance(x, ast.Attribute) and isinstance(x.value, ast.Name):
                            if x.value.id == "CM":
                                return "CM." + x.attr
                            if x.value.id == "DT":
                                return dt_value(ctx.repo, x.attr)
                        if isinstance(x, ast.Name) and ctx.repo.resolve_class(ci.module, x.id) is not None:
                            return x.id
                        raise KeyError

                    if meth == "row_display_order":
                        want = {"OPPOSING_ELEMENT": "_SortRowsByBaseColumnHelper", "LABEL": "_SortRowsByLabelHelper", "MARGINAL": "_SortRowsByMarginalHelper"}.get(cm, "_RowOrderHelper")
                        if cm == "OPPOSING_INSERTION":
                            want = "_SortRowsByDerivedColumnHelper" if dt in arrays else "_SortRowsByInsertedColumnHelper"
                    else:
                        want = {"LABEL": "_SortColumnsByLabelHelper", "OPPOSING_ELEMENT": "_SortColumnsByBaseRowHelper", "OPPOSING_INSERTION": "_SortColumnsByInsertedRowHelper"}.get(cm, "_ColumnOrderHelper")
                    try:
                        got = ModelInterp(atoms).ev(target)
                    except Raises as r:
                        bad.append(f"{cm} / opposing {dt}: raises {r.etype}")
                        continue
                    except DTop as t:
                        undec = str(t)
                        break
                    n_rows += 1
                    if got != want:
                        bad.append(f"{cm} / opposing {dt}{' with subtotals' if subs else ' without subtotals'}: {got}, specified {want}")
                if undec:
                    break
            if undec:
                break
        if undec:
            ctx.undecided("helper-dispatch", where, "DECTAB: " + undec, "helper class per (collation method, opposing dimension)")
        else:
            ctx.ob("helper-dispatch", where, bad[:3] or f"{n_rows} (collation method, opposing type, subtotals) cases", "the helper of the collation method; opposing_insertion on rows: derived column iff the columns dimension is an array type", not bad,
                   "a stale insertion id that equals a category id sorts the rows by that category instead of falling back to payload order")
        ctx.count("helper dispatch tables")
    ctx.require_min("helper dispatch tables", 2)


def marginal_table(ctx: Ctx):
    ci = ctx.repo.cls(MA, "_SortRowsByMarginalHelper")
    m = ctx.repo.lookup(ci, "_marginal")
    d = None
    for n in ast.walk(m.node):
        if isinstance(n, ast.Dict) and len(n.keys) >= 3:
            d = n
    where = f"{MA}::_SortRowsByMarginalHelper._marginal"
    if d is None:
        ctx.undecided("marginal-table", where, "table not found", "")
        return
    enum = _enum_values(ctx, "MARGINAL")
    table = {enum[u(k).split(".")[-1]]: v.value for k, v in zip(d.keys, d.values) if u(k).split(".")[-1] in enum and isinstance(v, ast.Constant)}
    sl = ctx.repo.cls("cubepart.py", "_Slice")
    for member, kw in sorted(enum.items(), key=lambda x: x[1]):
        w = f"{where}[{kw}]"
        ctx.count("marginal keywords")
        if kw not in table:
            ctx.violated("marginal-table", w, "absent", "a rows marginal")
            continue
        prop = table[kw]
        public = MARGINAL_PUBLIC[kw]
        from .common import marginal_leaves

        want = f"self._assemble_marginal(self._measures.{prop})"
        leaves, ok = marginal_leaves(ctx, sl, public, want)
        ctx.ob("marginal-table", w, f"surrogate `{prop}`; public _Slice.{public} 1-D branch: {(leaves or ['no path'])[-1][:70]}", want, ok, "rows are ordered by the marginal the public property assembles")
    ctx.require_min("marginal keywords", 7)
    for part, k in (("_element_values", 0), ("_subtotal_values", 1)):
        e = expand(ctx.repo, ci, part, stop=lambda mm: mm.name == "_marginal")
        ctx.check_expr("marginal-table.positions", f"{MA}::_SortRowsByMarginalHelper.{part}", e, f"self._marginal.blocks[{k}]", "base block for elements, subtotal block for subtotals")


def stripe_table(ctx: Ctx):
    ci = ctx.repo.cls(SA, "_SortByMeasureHelper")
    m = ctx.repo.lookup(ci, "_measure")
    d = _dict_in(m.node)
    where = f"{SA}::_SortByMeasureHelper._measure"
    if d is None:
        ctx.undecided("stripe-table", where, "table not found", "")
        return
    table = {k.value: v.value for k, v in zip(d.keys, d.values) if isinstance(k, ast.Constant) and isinstance(v, ast.Constant)}
    sm = ctx.repo.cls("stripe/measure.py", "StripeMeasures")
    st = ctx.repo.cls("cubepart.py", "_Strand")
    for kw, public in sorted(STRIPE_PUBLIC.items()):
        w = f"{where}[{kw}]"
        ctx.count("stripe keywords")
        if kw not in table:
            ctx.violated("stripe-table", w, "absent", f"a measure for public `{public}`")
            continue
        prop = table[kw]
        if ctx.repo.lookup(sm, prop) is None:
            ctx.violated("stripe-table", w, f"StripeMeasures has no `{prop}`", "an existing measure")
            continue
        root, maps = public_root(ctx, st, public)
        bad_maps = [x for x in maps if x not in MONOTONE]
        if root is None:
            ctx.undecided("stripe-table", w, f"public _Strand.{public}: {maps}", f"derives from `{prop}`")
        elif root != prop:
            ctx.violated("stripe-table", w, f"sort surrogate `{prop}`; public _Strand.{public} derives from `{root}` via {maps}", "surrogate == root of the public measure")
        elif bad_maps:
            ctx.violated("stripe-table.monotone", w, f"public _Strand.{public} = {maps} of `{root}`", "monotone map only")
        else:
            ctx.held("stripe-table", w, f"_Strand.{public} = {maps or ['identity']} of `{root}`", f"surrogate `{prop}` up to a monotone map")
    extra = sorted(set(table) - set(STRIPE_PUBLIC))
    if extra:
        ctx.undecided("stripe-table", where, f"keywords without a specified public property: {extra}", "")
    ctx.require_min("stripe keywords", 13)
    for part, k in (("_element_values", 0), ("_subtotal_values", 1)):
        e = expand(ctx.repo, ci, part, stop=lambda mm: mm.name == "_measure")
        ctx.check_expr("stripe-table.positions", f"{SA}::_SortByMeasureHelper.{part}", e, f"self._measure.blocks[{k}]")


def positions(ctx: Ctx):
    spec = {
        ("_SortRowsByBaseColumnHelper", "_element_values"): "self._measure.blocks[0][0][:, self._column_idx]",
        ("_SortRowsByBaseColumnHelper", "_subtotal_values"): "self._measure.blocks[1][0][:, self._column_idx]",
        ("_SortRowsByInsertedColumnHelper", "_element_values"): "self._measure.blocks[0][1][:, self._insertion_idx]",
        ("_SortRowsByInsertedColumnHelper", "_subtotal_values"): "self._measure.blocks[1][1][:, self._insertion_idx]",
        ("_SortColumnsByBaseRowHelper", "_element_values"): "self._measure.blocks[0][0][self._row_idx, :]",
        ("_SortColumnsByBaseRowHelper", "_subtotal_values"): "self._measure.blocks[0][1][self._row_idx, :]",
        ("_SortColumnsByInsertedRowHelper", "_element_values"): "self._measure.blocks[1][0][self._insertion_idx, :]",
        ("_SortColumnsByInsertedRowHelper", "_subtotal_values"): "self._measure.blocks[1][1][self._insertion_idx, :]",
        ("_SortRowsByLabelHelper", "_element_values"): "np.array(self._dimensions[0].element_labels)",
        ("_SortRowsByLabelHelper", "_subtotal_values"): "np.array(self._dimensions[0].subtotal_labels)",
        ("_SortColumnsByLabelHelper", "_element_values"): "np.array(self._dimensions[1].element_labels)",
        ("_SortColumnsByLabelHelper", "_subtotal_values"): "np.array(self._dimensions[1].subtotal_labels)",
    }
    for (cname, member), want in spec.items():
        ci = ctx.repo.cls(MA, cname)
        e = expand(ctx.repo, ci, member, stop=lambda mm: mm.name in ("_measure", "_column_idx", "_row_idx", "_insertion_idx"))
        ctx.check_expr("value-positions", f"{MA}::{cname}.{member}", e, want, "elements are sorted by the cells of the named opposing vector in the BASE rows/columns block, subtotals by its cells in the INSERTED block of the sorted dimension")
        ctx.count("sort value positions")
    ctx.require_min("sort value positions", 12)
    for cname, dim in (("_SortRowsByInsertedColumnHelper", "self._columns_dimension"), ("_SortColumnsByInsertedRowHelper", "self._rows_dimension")):
        ci = ctx.repo.cls(MA, cname)
        e = expand(ctx.repo, ci, "_insertion_idx", stop=lambda mm: mm.name in ("_columns_dimension", "_rows_dimension", "_order_spec"))
        ctx.check_expr("value-positions", f"{MA}::{cname}._insertion_idx", e, f"{dim}.insertion_ids.index(self._order_spec.insertion_id)", "the insertion is looked up among the OPPOSING dimension's insertion ids (payload position, aligned with the inserted block)")
    for cname, short in (("_SortByLabelHelper", SA),):
        ci = ctx.repo.cls(short, cname)
        e = expand(ctx.repo, ci, "_element_values", stop=lambda mm: True)
        ctx.check_expr("value-positions", f"{short}::{cname}._element_values", e, "np.array(self._rows_dimension.element_labels)")
        e = expand(ctx.repo, ci, "_subtotal_values", stop=lambda mm: True)
        ctx.check_expr("value-positions", f"{short}::{cname}._subtotal_values", e, "np.array(self._rows_dimension.subtotal_labels)")


def fallbacks(ctx: Ctx):
    for short, cname, member, dim, empties in (
        (MA, "_BaseSortRowsByValueHelper", "_order", "self._rows_dimension", "self._empty_row_idxs"),
        (MA, "_BaseSortColumnsByValueHelper", "_order", "self._columns_dimension", "self._empty_column_idxs"),
        (SA, "_BaseSortByValueHelper", "_display_order", "self._rows_dimension", "self._empty_row_idxs"),
    ):
        ci = ctx.repo.cls(short, cname)
        e = expand(ctx.repo, ci, member, stop=lambda mm: mm.name != member)
        want = (
            f"__try__(SortByValueCollator.display_order({dim}, self._element_values, self._subtotal_values, {empties}, self._format), "
            f"(ValueError, PayloadOrderCollator.display_order({dim}, {empties}, self._format)))"
        )
        ctx.check_expr("fallback", f"{short}::{cname}.{member}", e, want, "an unresolvable sort key (ValueError) falls back to the anchored payload order of the SAME dimension with the same empties and format")
        ctx.count("sort-by-value fallbacks")
        # WHERE the sort values are evaluated: they are lazy, and it is their evaluation (an unknown measure keyword, a
        # measure the response lacks, an element id that matches nothing) that raises the ValueError - inside the try
        # body it is caught, anywhere else in the function it escapes and the partition raises instead of falling back
        m = ctx.repo.lookup(ci, member)
        trys = [t for t in ast.walk(m.node) if isinstance(t, ast.Try) and any(h.type is not None and "ValueError" in u(h.type) for h in t.handlers)]
        suppliers = ("_element_values", "_subtotal_values")
        reads = [n for n in ast.walk(m.node) if isinstance(n, ast.Attribute) and n.attr in suppliers and isinstance(n.value, ast.Name) and n.value.id == "self"]
        where = f"{short}::{cname}.{member} [evaluation of the sort values]"
        if not trys or not reads:
            ctx.undecided("fallback.covers-evaluation", where, f"{len(trys)} try statement(s) catching ValueError, {len(reads)} read(s) of {suppliers}", "the sort values are evaluated inside the try body")
            continue
        covered = {id(x) for t in trys for st in t.body for x in ast.walk(st)}
        outside = sorted({f"self.{n.attr} (line +{n.lineno - m.node.lineno})" for n in reads if id(n) not in covered})
        ctx.ob("fallback.covers-evaluation", where, outside or f"{len(reads)} read(s), all inside the try body", "the sort values are evaluated inside the try body whose handler falls back", not outside,
               "evaluated outside the try, the ValueError of an unresolvable sort key is not caught: the order raises instead of falling back to the payload order")
    ctx.require_min("sort-by-value fallbacks", 3)


def exceptions(ctx: Ctx):
    """Explicit raises in the cube-measure / measure layers (reachable while values for a sort are
    computed) are ValueError - the type the fallback catches - or abstract-method placeholders."""
    n = 0
    bad = []
    for short in ("matrix/cubemeasure.py", "stripe/cubemeasure.py", "matrix/measure.py", "stripe/measure.py"):
        mod = ctx.repo.module(short)
        for ci in mod.classes.values():
            for m in ci.members.values():
                for r in (x for x in ast.walk(m.node) if isinstance(x, ast.Raise) and x.exc is not None):
                    n += 1
                    name = u(r.exc.func) if isinstance(r.exc, ast.Call) else u(r.exc)
                    if name == "ValueError":
                        continue
                    if name == "NotImplementedError" and "must implement" in ast.unparse(r):
                        continue
                    bad.append(f"{short}::{ci.name}.{m.name}: raise {name}")
    ctx.count("raise sites in measure layers", n)
    ctx.ob("exception-types", "matrix|stripe cubemeasure.py / measure.py", bad or f"{n} raise sites: ValueError or abstract placeholders", "ValueError (caught by the sort fallback)", not bad, "a measure missing from the response surfaces as ValueError")
    ctx.require_min("raise sites in measure layers", 30)
    for enum_cls, prop in (("MEASURE", "measure"), ("MARGINAL", "marginal")):
        pass
    ctx.trusted.append("builtin exception table: tuple.index(x) / list.index(x) -> ValueError; Enum(value) -> ValueError")


def collator(ctx: Ctx):
    sv = ctx.repo.cls(COL, "SortByValueCollator")
    from ..stmts import match_any, reachable_functions

    for member, vals in (("_body_idxs", "self._element_values"), ("_subtotal_idxs", "self._subtotal_values")):
        where = f"{COL}::SortByValueCollator.{member}"
        fns = reachable_functions(ctx.repo, sv, member)
        if not fns:
            raise AnalysisError(f"SortByValueCollator.{member} vanished")
        sorts = [n for f in fns for n in ast.walk(f) if isinstance(n, ast.Call) and u(n.func) == "sorted"]
        revs = [k.value for c in sorts for k in c.keywords if k.arg == "reverse"]
        if not sorts:
            ctx.undecided("nan-bucket.direction", where, "no sorted(...) call found", "sorted(keys, reverse=self._descending)")
        elif not revs:
            ctx.violated("nan-bucket.direction", where, [u(c)[:60] for c in sorts], "sorted(keys, reverse=self._descending)", "the direction of the order transform is not applied")
        else:
            ok, why = match_any(revs, ["self._descending"])
            ctx.ob("nan-bucket.direction", where, [u(r) for r in revs], "reverse=self._descending", ok, why or "reverse iff descending")
        # NaN-valued items AFTER the sorted ones: `sorted(keys) + nans` where nans is the group chosen by _is_nan
        nan_groups, key_groups = set(), set()
        for f in fns:
            for n in ast.walk(f):
                if isinstance(n, ast.IfExp) and "_is_nan(" in u(n.test) and isinstance(n.body, ast.Name) and isinstance(n.orelse, ast.Name):
                    neg = isinstance(n.test, ast.UnaryOp) and isinstance(n.test.op, ast.Not)
                    nan_groups.add(n.orelse.id if neg else n.body.id)
                    key_groups.add(n.body.id if neg else n.orelse.id)
        verdict = None
        seen_concat = []
        for f in fns:
            for n in ast.walk(f):
                if isinstance(n, ast.BinOp) and isinstance(n.op, ast.Add) and ("sorted(" in u(n.left) or "sorted(" in u(n.right)):
                    seen_concat.append(u(n)[:80])
                    if "sorted(" in u(n.left) and isinstance(n.right, ast.Name) and n.right.id in nan_groups:
                        verdict = True
                    elif "sorted(" in u(n.right) and isinstance(n.left, ast.Name) and n.left.id in nan_groups:
                        verdict = False
        ctx.ob("nan-bucket", where, f"NaN group(s) {sorted(nan_groups)}; concatenation {seen_concat}", "sorted(non-NaN items) + NaN items (payload order)", verdict, "NaN-valued items after the sorted ones, in payload order")
    e = expand(ctx.repo, sv, "_descending", stop=lambda mm: True)
    ctx.check_expr("direction", f"{COL}::SortByValueCollator._descending", e, "self._order_spec.descending")
    os_ = ctx.repo.cls("dimension.py", "_OrderSpec")
    e = expand(ctx.repo, os_, "descending", stop=lambda mm: True)
    ctx.check_expr("direction", "dimension.py::_OrderSpec.descending", e, "self._order_dict.get('direction', 'descending') != 'ascending'", "descending unless 'ascending'")
    e = expand(ctx.repo, sv, "_top_subtotal_idxs", stop=lambda mm: True)
    ctx.check_expr("group-order", f"{COL}::SortByValueCollator._top_subtotal_idxs", e, "self._subtotal_idxs if self._descending else ()", "subtotal group first when descending")
    e = expand(ctx.repo, sv, "_bottom_subtotal_idxs", stop=lambda mm: True)
    ctx.check_expr("group-order", f"{COL}::SortByValueCollator._bottom_subtotal_idxs", e, "() if self._descending else self._subtotal_idxs", "subtotal group last when ascending")
    m = ctx.repo.lookup(sv, "_display_order")
    concat = None
    for n in ast.walk(m.node):
        if isinstance(n, ast.BinOp) and isinstance(n.op, ast.Add) and u(n).count("+") == 4:
            concat = u(n)
    want = "self._top_subtotal_idxs + self._top_fixed_idxs + self._body_idxs + self._bottom_fixed_idxs + self._bottom_subtotal_idxs"
    ctx.ob("group-order", f"{COL}::SortByValueCollator._display_order", concat, want, concat == want, "top subtotals, fixed-top, sorted body, fixed-bottom, bottom subtotals")
    for member, ids in (("_top_fixed_idxs", "top_fixed_ids"), ("_bottom_fixed_idxs", "bottom_fixed_ids")):
        e = expand(ctx.repo, sv, member, stop=lambda mm: True)
        ctx.check_expr("group-order", f"{COL}::SortByValueCollator.{member}", e, f"tuple(self._iter_fixed_idxs(self._order_spec.{ids}))", "fixed elements in their listed order")
    m = ctx.repo.lookup(sv, "_is_nan")
    body = SUMMARIZER.summarize(m.node)
    ctx.check_expr("nan-bucket", f"{COL}::SortByValueCollator._is_nan", body, "__try__(np.isnan(value), (TypeError, False))", "labels (strings) are never NaN")
    # the same as a decision table over the kinds of sort key: ONLY NaN goes to the "after the sorted ones" bucket;
    # +inf / -inf (a share whose total is 0) are ordinary, comparable keys and sort as largest / smallest
    import math

    from ..dectab import DTop, ModelInterp, Raises

    cases = [("nan", float("nan"), True), ("+inf", float("inf"), False), ("-inf", float("-inf"), False), ("finite", 1.5, False), ("zero", 0.0, False), ("int", 3, False), ("label", "abc", False), ("empty label", "", False)]
    bad, n, undec = [], 0, None
    for label, val, want in cases:
        def atoms(x, val=val):
            if isinstance(x, ast.Name) and x.id == "value":
                return val
            raise KeyError

        class _I(ModelInterp):
            def _call(self, c, it):
                f = u(c.func)
                if f in ("np.isnan", "math.isnan", "np.isfinite", "math.isfinite", "np.isinf", "math.isinf") and len(c.args) == 1:
                    v = self.ev(c.args[0])
                    if isinstance(v, str) or v is None:
                        raise Raises("TypeError", f)
                    fn = {"isnan": math.isnan, "isfinite": math.isfinite, "isinf": math.isinf}[f.split(".")[-1]]
                    return fn(float(v))
                if f == "isinstance" and len(c.args) == 2:
                    v = self.ev(c.args[0])
                    names = [n_.strip() for n_ in u(c.args[1]).strip("()").split(",")]
                    table = {"float": float, "np.floating": float, "int": int, "str": str, "np.integer": int, "numbers.Number": (int, float), "numbers.Real": (int, float)}
                    return any(isinstance(v, table[n_]) and not (n_ in ("int", "np.integer") and isinstance(v, bool)) for n_ in names if n_ in table)
                return super()._call(c, it)

        try:
            got = bool(_I(atoms).ev(body))
        except Raises as r:
            bad.append(f"{label}: raises {r.etype}")
            continue
        except DTop as t:
            undec = str(t)
            break
        n += 1
        if got != want:
            bad.append(f"{label}: {got} (specified {want})")
    if undec:
        ctx.undecided("nan-bucket.table", f"{COL}::SortByValueCollator._is_nan", "DECTAB: " + undec, "True for NaN only")
    else:
        ctx.ob("nan-bucket.table", f"{COL}::SortByValueCollator._is_nan", bad or f"{n} kinds of sort key", "True for NaN only (infinities and labels are ordinary keys)", not bad,
               "a key that is not NaN but lands in the NaN bucket leaves the sort: the displayed vectors are no longer monotone in the measure")


# --------------------------------------------------------------------------- the fallback swallows ValueError
_VE_CONTROL = """
def _body_idxs(self):
    keys.sort(reverse=self._descending)
    _, idxs = zip(*(keys + nans))
    return idxs

def worst(self):
    return max(v for v, _ in pairs)

def fine(self):
    a, b = self._pair
    return max(xs, default=None), tuple(zip(*pairs))
"""


def _accidental_valueerrors(fn: ast.AST):
    out = []
    for n in ast.walk(fn):
        if isinstance(n, ast.Assign) and isinstance(n.targets[0], (ast.Tuple, ast.List)) and isinstance(n.value, ast.Call) and u(n.value.func) == "zip" and any(isinstance(a, ast.Starred) for a in n.value.args):
            out.append((n.lineno, u(n)[:70], "unpacking zip(*pairs) raises ValueError when there are no pairs"))
        if isinstance(n, ast.Call) and isinstance(n.func, ast.Name) and n.func.id in ("max", "min") and len(n.args) == 1 and not any(k.arg == "default" for k in n.keywords):
            out.append((n.lineno, u(n)[:70], f"{n.func.id}() of an empty sequence raises ValueError"))
    return out


def accidental_fallback(ctx: Ctx):
    """The three sort helpers fall back to payload order on ValueError (a measure or element the sort refers to does
    not exist).  Inside the sorting code itself a construct that raises ValueError on EMPTY input (every element
    pinned by the fixed lists, no subtotals, ...) is therefore not an error the caller sees but a silent loss of the
    whole sort.  Scanned: every method of SortByValueCollator."""
    tree = ast.parse(_VE_CONTROL)
    if sum(len(_accidental_valueerrors(f)) for f in tree.body) != 2:
        raise AnalysisError("accidental-ValueError lint: the positive control is no longer recognised")
    sv = ctx.repo.cls(COL, "SortByValueCollator")
    n, hits = 0, []
    for ci in sv.mro:
        if ci.module is not sv.module:
            continue
        for m in ci.members.values():
            n += 1
            hits += [(f"{COL}::{ci.name}.{m.name} [{t}]", why) for _l, t, why in _accidental_valueerrors(m.node)]
    ctx.count("collator methods scanned for accidental ValueError", n)
    for where, why in hits:
        ctx.violated("fallback.accidental-valueerror", where, why, "the sort computation raises ValueError only for a reference that matches nothing", "the assemblers catch ValueError and silently return payload order: fixed elements and subtotal groups are then not placed as specified")
    if not hits:
        ctx.held("fallback.accidental-valueerror", f"{COL}::SortByValueCollator (and bases)", f"{n} methods: no construct that raises ValueError on empty input", "", "positive control: 2 of 2 recognised")


QUANTISERS = ("round", "np.round", "np.around", "np.round_", "np.rint", "np.floor", "np.ceil", "np.trunc", "np.fix", "math.floor", "math.ceil", "math.trunc", "np.digitize", "np.float32", "np.float16")


def sort_key_exact(ctx: Ctx):
    """Elements are ordered by the value the public measure reports: the sort compares the values THEMSELVES.  A
    quantised key (`round(value, 12)`, a cast to a narrower float, a floor) makes distinct values compare equal; such
    "ties" are then broken by payload position and the order is no longer monotone in the measure (p-values of highly
    significant cells differ by 1e-14)."""
    ctl = ast.parse("def _sort_key(value):\n    return round(value, 12) if isinstance(value, float) else value\n")
    if len([c for c in ast.walk(ctl) if isinstance(c, ast.Call) and u(c.func) in QUANTISERS]) != 1:
        raise AnalysisError("sort-key.exact: the positive control is no longer recognised")
    n, hits = 0, []
    for short, keep in (("collator.py", lambda ci: "SortByValue" in ci.name), ("matrix/assembler.py", lambda ci: "Sort" in ci.name or ci.name == "_BaseOrderHelper"), ("stripe/assembler.py", lambda ci: "Sort" in ci.name)):
        mod = ctx.repo.module(short)
        for ci in mod.classes.values():
            if not keep(ci):
                continue
            for m in ci.members.values():
                n += 1
                for c in ast.walk(m.node):
                    if isinstance(c, ast.Call) and u(c.func) in QUANTISERS:
                        hits.append((f"{short}::{ci.name}.{m.name}", u(c)[:100]))
                    elif isinstance(c, ast.Call) and isinstance(c.func, ast.Attribute) and c.func.attr in ("round", "astype") and (c.func.attr == "round" or any("float32" in u(a) or "float16" in u(a) or "int" in u(a) for a in c.args)):
                        hits.append((f"{short}::{ci.name}.{m.name}", u(c)[:100]))
    ctx.count("sort-by-value members scanned for quantised keys", n)
    ctx.require_min("sort-by-value members scanned for quantised keys", 30)
    for where, text in hits:
        ctx.violated("sort-key.exact", where, text, "the values are compared as they are", "distinct values closer than the quantum compare equal and are ordered by payload position instead of by value")
    if not hits:
        ctx.held("sort-key.exact", "sort-by-value collator and helpers", f"{n} members, no quantised sort key", "", "positive control recognised")
