"""RESOLVER - collaborator-type inference without a type checker.

Types are sets of ClassInfo.  A value that is not an instance of a package
class (ndarray, dict, enum member, number ...) has the empty set.

* field type      = union of the argument types at every constructor call site
                    (super().__init__ argument mapping is followed),
* member type     = union of the types of the member's return leaves,
* parameter type  = union of argument types over the call sites of the function,
* element-of      = containers defined in the package yield their element class.
"""
from __future__ import annotations

import ast
from typing import Dict, FrozenSet, List, Optional, Set, Tuple

from .loader import ClassInfo, Member, Repo
from .symex import SUMMARIZER, attr_chain, strip_ifexp_paths, u

TypeSet = FrozenSet[ClassInfo]
EMPTY: TypeSet = frozenset()

# containers defined in the package -> their element class (module short, name)
ELEMENT_OF = {
    ("dimension.py", "Dimensions"): ("dimension.py", "Dimension"),
    ("dimension.py", "Elements"): ("dimension.py", "Element"),
    ("dimension.py", "_Subtotals"): ("dimension.py", "_Subtotal"),
}


class Types:
    def __init__(self, repo: Repo):
        self.repo = repo
        self._member_type: Dict[Tuple[str, str], TypeSet] = {}
        self._field_type: Dict[Tuple[str, str], TypeSet] = {}
        self._param_type: Dict[Tuple[str, str, str], TypeSet] = {}
        self._busy: Set[Tuple] = set()
        self._callsites: Optional[Dict[Tuple[str, str], List[Tuple[Member, ast.Call, ClassInfo]]]] = None
        self._ctor_sites: Optional[Dict[str, List[Tuple[Member, ast.Call]]]] = None
        self.resolved = 0
        self.unresolved: List[str] = []

    # ------------------------------------------------------------------ helpers
    def _elem(self, ts: TypeSet) -> TypeSet:
        out = set()
        for t in ts:
            key = (t.module.short, t.name)
            hit = None
            for c in t.mro:
                k = (c.module.short, c.name)
                if k in ELEMENT_OF:
                    hit = ELEMENT_OF[k]
                    break
            if hit:
                e = self.repo.opt_cls(*hit)
                if e:
                    out.add(e)
            else:
                out.add(t)
        return frozenset(out)

    def init_of(self, ci: ClassInfo) -> Optional[Member]:
        for c in ci.mro:
            if "__init__" in c.members:
                return c.members["__init__"]
        return None

    # ------------------------------------------------------------------ call-site index
    def _index_calls(self):
        if self._ctor_sites is not None:
            return
        self._ctor_sites = {}
        self._raw_calls: List[Tuple[Member, ast.Call, ast.expr]] = []
        for m in self.repo.all_members():
            try:
                body = SUMMARIZER.summarize(m.node)
            except RecursionError:  # pragma: no cover
                continue
            # also walk the original statements for calls that are not part of the value
            seen_calls = set()
            for root in (body, m.node):
                for n in ast.walk(root):
                    if isinstance(n, ast.Call):
                        key = u(n)
                        if key in seen_calls:
                            continue
                        seen_calls.add(key)
                        self._raw_calls.append((m, n, body))
                        f = n.func
                        if not isinstance(f, ast.Name) and not (isinstance(f, ast.Attribute) and not (isinstance(f.value, ast.Name) and f.value.id in ("cls", "self") and self._class_valued(m.cls, f.attr))):
                            for ci in self.callee_classes(f, m.cls.module, m.cls):
                                self._ctor_sites.setdefault(ci.qual, []).append((m, n))
                        if isinstance(f, ast.Name):
                            ci = self.repo.resolve_class(m.cls.module, f.id)
                            if ci is not None:
                                self._ctor_sites.setdefault(ci.qual, []).append((m, n))
                            elif f.id == "cls" and m.kind == "classmethod":
                                for sub in [m.cls] + m.cls.all_subclasses():
                                    self._ctor_sites.setdefault(sub.qual, []).append((m, n))

    def ctor_sites(self, ci: ClassInfo) -> List[Tuple[Member, ast.Call]]:
        self._index_calls()
        return self._ctor_sites.get(ci.qual, [])

    # ------------------------------------------------------------------ typing
    def expr_type(self, e: ast.expr, ctx: ClassInfo, fn: Optional[Member], locals_: Optional[Dict[str, TypeSet]] = None) -> TypeSet:
        locals_ = locals_ or {}
        if isinstance(e, ast.Name):
            if e.id in locals_:
                return locals_[e.id]
            if e.id == "self":
                return frozenset([ctx])
            if e.id == "cls":
                return frozenset([ctx])
            if fn is not None and e.id in fn.params:
                return self.param_type(fn, e.id)
            ci = self.repo.resolve_class(ctx.module, e.id)
            if ci is not None:
                return frozenset([ci])  # the class object itself (for X.factory)
            return EMPTY
        if isinstance(e, ast.Attribute):
            base = self.expr_type(e.value, ctx, fn, locals_)
            out: Set[ClassInfo] = set()
            for t in base:
                out |= self.attr_type(t, e.attr)
            return frozenset(out)
        if isinstance(e, ast.Subscript):
            return self._elem(self.expr_type(e.value, ctx, fn, locals_))
        if isinstance(e, ast.IfExp):
            return self.expr_type(e.body, ctx, fn, locals_) | self.expr_type(e.orelse, ctx, fn, locals_)
        if isinstance(e, ast.BoolOp):
            out = set()
            for v in e.values:
                out |= self.expr_type(v, ctx, fn, locals_)
            return frozenset(out)
        if isinstance(e, (ast.GeneratorExp, ast.ListComp, ast.SetComp)):
            loc = dict(locals_)
            for g in e.generators:
                it = self._elem(self.expr_type(g.iter, ctx, fn, loc))
                if isinstance(g.target, ast.Name):
                    loc[g.target.id] = it
                elif isinstance(g.target, ast.Tuple):
                    # zip(a, b) / enumerate(a)
                    self._bind_tuple_target(g.target, g.iter, ctx, fn, loc)
            return self.expr_type(e.elt, ctx, fn, loc)
        if isinstance(e, (ast.Tuple, ast.List)):
            out = set()
            for v in e.elts:
                out |= self.expr_type(v, ctx, fn, locals_)
            return frozenset(out)
        if isinstance(e, ast.Starred):
            return self.expr_type(e.value, ctx, fn, locals_)
        if isinstance(e, ast.Call):
            return self.call_type(e, ctx, fn, locals_)
        return EMPTY

    def _bind_tuple_target(self, target: ast.Tuple, it: ast.expr, ctx, fn, loc):
        if isinstance(it, ast.Call) and isinstance(it.func, ast.Name):
            if it.func.id == "zip" and len(it.args) == len(target.elts):
                for t, a in zip(target.elts, it.args):
                    if isinstance(t, ast.Name):
                        loc[t.id] = self._elem(self.expr_type(a, ctx, fn, loc))
                return
            if it.func.id == "enumerate" and len(target.elts) == 2 and it.args:
                if isinstance(target.elts[1], ast.Name):
                    loc[target.elts[1].id] = self._elem(self.expr_type(it.args[0], ctx, fn, loc))
                return

    def _class_valued(self, owner: ClassInfo, name: str) -> bool:
        """`self.<name>` / `cls.<name>` is a property whose value is a class (used as a callee: `self._collator_cls(...)`)."""
        hm = self.repo.lookup(owner, name)
        if hm is None or hm.kind not in ("lazyproperty", "property"):
            return False
        return bool(self.callee_classes(ast.Attribute(value=ast.Name(id="self", ctx=ast.Load()), attr=name, ctx=ast.Load()), owner.module, owner))

    def callee_classes(self, f: ast.expr, mod, owner: Optional[ClassInfo] = None, _depth: int = 0) -> List[ClassInfo]:
        """Classes a callee expression may denote: Name, IfExp of names, {..}.get(k, D), and - when the class the
        expression occurs in is given - a class-valued private helper `cls._pick(...)` / `self._pick_cls`."""
        if owner is not None and _depth < 4:
            target = None
            if isinstance(f, ast.Call) and isinstance(f.func, ast.Attribute) and isinstance(f.func.value, ast.Name) and f.func.value.id in ("cls", "self"):
                target = f.func.attr
            elif isinstance(f, ast.Attribute) and isinstance(f.value, ast.Name) and f.value.id in ("cls", "self"):
                target = f.attr
            if target is not None:
                hm = self.repo.lookup(owner, target)
                if hm is not None:
                    try:
                        hb = SUMMARIZER.summarize(hm.node)
                    except RecursionError:  # pragma: no cover
                        return []
                    out: List[ClassInfo] = []
                    stack = [hb]
                    while stack:
                        x = stack.pop()
                        if isinstance(x, ast.IfExp):
                            stack += [x.body, x.orelse]
                        else:
                            out += self.callee_classes(x, hm.cls.module, hm.cls, _depth + 1)
                    return out
                return []
        if isinstance(f, ast.Name):
            ci = self.repo.resolve_class(mod, f.id)
            return [ci] if ci is not None else []
        if isinstance(f, ast.IfExp):
            return self.callee_classes(f.body, mod, owner, _depth) + self.callee_classes(f.orelse, mod, owner, _depth)
        if (
            isinstance(f, ast.Call)
            and isinstance(f.func, ast.Attribute)
            and f.func.attr == "get"
            and isinstance(f.func.value, ast.Dict)
        ):
            out = []
            for v in f.func.value.values:
                out += self.callee_classes(v, mod)
            for a in f.args[1:]:
                out += self.callee_classes(a, mod)
            return out
        if isinstance(f, ast.Subscript) and isinstance(f.value, ast.Dict):
            out = []
            for v in f.value.values:
                out += self.callee_classes(v, mod)
            return out
        return []

    def call_type(self, e: ast.Call, ctx: ClassInfo, fn: Optional[Member], locals_) -> TypeSet:
        f = e.func
        if not isinstance(f, ast.Name) and not (isinstance(f, ast.Attribute) and not (isinstance(f.value, ast.Name) and f.value.id in ("cls", "self") and self._class_valued(ctx, f.attr))):
            cs = self.callee_classes(f, ctx.module, ctx)
            if cs:
                return frozenset(cs)
        if isinstance(f, ast.Name):
            if f.id in ("tuple", "list", "sorted", "reversed", "iter", "frozenset", "set") and e.args:
                return self.expr_type(e.args[0], ctx, fn, locals_)
            if f.id == "cls" and fn is not None and fn.kind == "classmethod":
                return frozenset([ctx])
            ci = self.repo.resolve_class(ctx.module, f.id)
            if ci is not None:
                return frozenset([ci])
            if f.id == "zip" or f.id == "enumerate":
                return EMPTY
            return EMPTY
        if isinstance(f, ast.Attribute):
            recv = self.expr_type(f.value, ctx, fn, locals_)
            out: Set[ClassInfo] = set()
            for t in recv:
                m = self.repo.lookup(t, f.attr)
                if m is not None and m.kind in ("method", "classmethod", "staticmethod"):
                    out |= self.member_type(m, t)
                elif m is None and f.attr == "__class__":
                    out.add(t)
            # self.__class__(...) pattern
            if isinstance(f.value, ast.Name) is False and isinstance(f, ast.Attribute) and f.attr == "__class__":
                return recv
            return frozenset(out)
        if isinstance(f, ast.Call) or isinstance(f, ast.Subscript):
            return EMPTY
        return EMPTY

    def attr_type(self, t: ClassInfo, attr: str) -> TypeSet:
        m = self.repo.lookup(t, attr)
        if m is not None:
            if m.kind in ("lazyproperty", "property"):
                out = set(self.member_type(m, t))
                # overriding members in subclasses (dynamic dispatch on abstract bases)
                for sub in t.all_subclasses():
                    if attr in sub.members and sub.members[attr].kind in ("lazyproperty", "property"):
                        out |= self.member_type(sub.members[attr], sub)
                return frozenset(out)
            return EMPTY
        return self.field_type(t, attr)

    def member_type(self, m: Member, ctx: Optional[ClassInfo] = None) -> TypeSet:
        ctx = ctx or m.cls
        key = (ctx.qual, m.qual)
        if key in self._member_type:
            return self._member_type[key]
        if key in self._busy:
            return EMPTY
        self._busy.add(key)
        try:
            body = SUMMARIZER.summarize(m.node)
            out: Set[ClassInfo] = set()
            for _g, leaf in strip_ifexp_paths(body):
                out |= self.expr_type(leaf, ctx, m)
            res = frozenset(out)
        finally:
            self._busy.discard(key)
        self._member_type[key] = res
        return res

    def field_type(self, ci: ClassInfo, field: str) -> TypeSet:
        key = (ci.qual, field)
        if key in self._field_type:
            return self._field_type[key]
        if key in self._busy:
            return EMPTY
        self._busy.add(key)
        out: Set[ClassInfo] = set()
        try:
            for c in ci.mro:
                init = c.members.get("__init__")
                if init is None:
                    continue
                found = False
                for n in ast.walk(init.node):
                    if isinstance(n, ast.Assign):
                        for t in n.targets:
                            if (
                                isinstance(t, ast.Attribute)
                                and isinstance(t.value, ast.Name)
                                and t.value.id == "self"
                                and t.attr == field
                            ):
                                found = True
                                out |= self.expr_type(n.value, ci, init)
                if found:
                    break
        finally:
            self._busy.discard(key)
        res = frozenset(out)
        self._field_type[key] = res
        return res

    def param_type(self, fn: Member, pname: str) -> TypeSet:
        key = (fn.cls.qual, fn.name, pname)
        if key in self._param_type:
            return self._param_type[key]
        if key in self._busy:
            return EMPTY
        self._busy.add(key)
        out: Set[ClassInfo] = set()
        try:
            for caller, call, cctx in self.callsites_of(fn):
                arg = self._arg_for(fn, call, pname)
                if arg is not None:
                    out |= self.expr_type(arg, cctx, caller)
        finally:
            self._busy.discard(key)
        res = frozenset(out)
        self._param_type[key] = res
        return res

    @staticmethod
    def _arg_for(fn: Member, call: ast.Call, pname: str) -> Optional[ast.expr]:
        params = fn.params
        if pname not in params:
            return None
        i = params.index(pname)
        if i < len(call.args) and not any(isinstance(a, ast.Starred) for a in call.args[: i + 1]):
            return call.args[i]
        for k in call.keywords:
            if k.arg == pname:
                return k.value
        return None

    def callsites_of(self, fn: Member) -> List[Tuple[Member, ast.Call, ClassInfo]]:
        """(caller member, call node, caller ctx class) for every call resolving to fn."""
        self._index_calls()
        out = []
        if fn.name == "__init__":
            # constructor calls of fn.cls or of subclasses that inherit this __init__
            targets = [fn.cls] + [s for s in fn.cls.all_subclasses() if self.init_of(s) is fn]
            for t in targets:
                for caller, call in self.ctor_sites(t):
                    out.append((caller, call, caller.cls))
            # super().__init__(...) from subclasses
            for sub in fn.cls.all_subclasses():
                init = sub.members.get("__init__")
                if init is None:
                    continue
                for n in ast.walk(init.node):
                    if (
                        isinstance(n, ast.Call)
                        and isinstance(n.func, ast.Attribute)
                        and n.func.attr == "__init__"
                        and isinstance(n.func.value, ast.Call)
                        and isinstance(n.func.value.func, ast.Name)
                        and n.func.value.func.id == "super"
                    ):
                        nxt = self.repo.lookup_after(sub, sub, "__init__")
                        if nxt is fn:
                            out.append((init, n, sub))
            return out
        for caller, call, _body in self._raw_calls:
            f = call.func
            if isinstance(f, ast.Attribute) and f.attr == fn.name:
                key = ("cs", caller.qual, u(call))
                if key in self._busy:
                    continue
                self._busy.add(key)
                try:
                    recv = self.expr_type(f.value, caller.cls, caller)
                finally:
                    self._busy.discard(key)
                for t in recv:
                    if self.repo.lookup(t, fn.name) is fn:
                        out.append((caller, call, caller.cls))
                        break
        return out

    # ------------------------------------------------------------------ chains
    def resolve_chain(self, ctx: ClassInfo, fn: Optional[Member], chain: List[str]):
        """Resolve ['self','a','b'] -> list of steps.

        Each step is (kind, owner ClassInfo, name, Member|None) with kind in
        {'member','field','unknown'}; returns (steps, final TypeSet, fully_resolved).
        """
        if not chain:
            return [], EMPTY, False
        head = chain[0]
        if head in ("self", "cls"):
            cur: TypeSet = frozenset([ctx])
        elif fn is not None and head in fn.params:
            cur = self.param_type(fn, head)
        else:
            ci = self.repo.resolve_class(ctx.module, head)
            cur = frozenset([ci]) if ci else EMPTY
        steps = []
        ok = bool(cur)
        for name in chain[1:]:
            nxt: Set[ClassInfo] = set()
            hit = False
            for t in cur:
                m = self.repo.lookup(t, name)
                if m is not None:
                    hit = True
                    steps.append(("member", t, name, m))
                    for sub in t.all_subclasses():
                        if name in sub.members:
                            steps.append(("member", sub, name, sub.members[name]))
                    if m.kind in ("lazyproperty", "property"):
                        nxt |= self.attr_type(t, name)
                else:
                    ft = self.field_type(t, name)
                    if ft or self._has_field(t, name):
                        hit = True
                        steps.append(("field", t, name, None))
                        nxt |= ft
            if not hit:
                steps.append(("unknown", None, name, None))
                ok = ok and not cur  # unknown attr on a known package type is a miss
                if cur:
                    ok = False
                cur = EMPTY
                break
            cur = frozenset(nxt)
        return steps, cur, ok

    def _has_field(self, ci: ClassInfo, field: str) -> bool:
        for c in ci.mro:
            init = c.members.get("__init__")
            if init is None:
                continue
            for n in ast.walk(init.node):
                if (
                    isinstance(n, ast.Attribute)
                    and isinstance(n.ctx, ast.Store)
                    and isinstance(n.value, ast.Name)
                    and n.value.id == "self"
                    and n.attr == field
                ):
                    return True
        return False
