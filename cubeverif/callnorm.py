"""Package-internal calls in one canonical argument form: keyword arguments whose callee is known (a class of the package
with one `__init__`, a function / method whose NAME is unique in the package) are moved into their positional slots -
`_Subtotals(insertion_dicts=d, valid_elements=e)` is `_Subtotals(d, e)`.  Calls that cannot be resolved, that use * / **,
or whose keywords do not form a prefix-complete positional list are left as they are."""
from __future__ import annotations

import ast
import copy
from typing import Dict, List, Optional


def _index(repo) -> Dict[str, Optional[List[str]]]:
    idx = getattr(repo, "_callnorm_index", None)
    if idx is not None:
        return idx
    seen: Dict[str, List[Optional[List[str]]]] = {}
    for mod in repo.modules.values():
        for cname, ci in mod.classes.items():
            init = ci.members.get("__init__")
            if init is not None and isinstance(init.node, ast.FunctionDef):
                a = init.node.args
                ps = None if (a.vararg or a.kwarg or a.posonlyargs) else [x.arg for x in a.args][1:]
                seen.setdefault(cname, []).append(ps)
            for name, m in ci.members.items():
                if name.startswith("__") or m.kind in ("lazyproperty", "property") or not isinstance(m.node, ast.FunctionDef):
                    continue
                a = m.node.args
                ps = None if (a.vararg or a.kwarg or a.posonlyargs) else [x.arg for x in a.args]
                if ps is not None and m.kind != "staticmethod":
                    ps = ps[1:]
                seen.setdefault("." + name, []).append(ps)
        for name, fn in getattr(mod, "functions", {}).items():
            a = fn.args
            ps = None if (a.vararg or a.kwarg or a.posonlyargs) else [x.arg for x in a.args]
            seen.setdefault(name, []).append(ps)
    idx = {}
    for k, v in seen.items():
        # unique by name, or all definitions agree on the parameter list (overrides of one interface)
        if all(x is not None for x in v) and all(x == v[0] for x in v):
            idx[k] = v[0]
    repo._callnorm_index = idx
    return idx


class _Pos(ast.NodeTransformer):
    def __init__(self, idx):
        self.idx = idx

    def visit_Call(self, node: ast.Call):
        self.generic_visit(node)
        if not node.keywords or any(k.arg is None for k in node.keywords) or any(isinstance(a, ast.Starred) for a in node.args):
            return node
        params = None
        if isinstance(node.func, ast.Name):
            params = self.idx.get(node.func.id)
        elif isinstance(node.func, ast.Attribute):
            params = self.idx.get("." + node.func.attr)
        if params is None:
            return node
        slots: List[Optional[ast.expr]] = list(node.args) + [None] * max(0, len(params) - len(node.args))
        if len(node.args) > len(params):
            return node
        for k in node.keywords:
            if k.arg not in params:
                return node
            i = params.index(k.arg)
            if i < len(node.args) or slots[i] is not None:
                return node
            slots[i] = k.value
        while slots and slots[-1] is None:
            slots.pop()
        if any(x is None for x in slots):
            return node  # a gap: a defaulted parameter in the middle - keep the keyword form
        return ast.copy_location(ast.Call(func=node.func, args=slots, keywords=[]), node)


def positionalise(repo, e: ast.expr) -> ast.expr:
    return ast.fix_missing_locations(_Pos(_index(repo)).visit(copy.deepcopy(e)))


def normalise_repo(repo) -> int:
    """Rewrite, IN PLACE, every resolvable keyword call of the parsed package (function and class nodes keep their identity:
    only Call nodes inside them are replaced)."""
    idx = _index(repo)
    tr = _Pos(idx)
    n = 0
    for mod in repo.modules.values():
        before = sum(1 for x in ast.walk(mod.tree) if isinstance(x, ast.Call) and x.keywords)
        tr.visit(mod.tree)
        ast.fix_missing_locations(mod.tree)
        n += before - sum(1 for x in ast.walk(mod.tree) if isinstance(x, ast.Call) and x.keywords)
    return n
